#!/usr/bin/env python3
"""Generate the frozen table of Builder call sites from the pinned method signatures.

usage: gen_calls.py <repo> <out.rs> [--types-only]

One entry per public `&mut self` Builder method that emits an instruction. Run ONCE against the pinned
tree; the output is committed. A later signature change in /repo makes the harness fail to build
(exit 2, machinery), never a verdict.
"""
import re, sys

repo, out = sys.argv[1], sys.argv[2]
types_only = '--types-only' in sys.argv

FILES = ['autogen_type.rs', 'autogen_constant.rs', 'autogen_annotation.rs', 'autogen_debug.rs',
         'autogen_terminator.rs', 'autogen_norm_insts.rs', 'mod.rs']
if types_only:
    FILES = ['autogen_type.rs']

# hand-written methods of mod.rs that emit an instruction (name -> opcode); everything else in mod.rs is
# structural (begin/end/select/pop/insert_into_block/...) and driven by the explorers, not this table
MOD_RS = {
    'capability': 'Capability', 'extension': 'Extension', 'ext_inst_import': 'ExtInstImport', 'memory_model': 'MemoryModel',
    'entry_point': 'EntryPoint', 'execution_mode': 'ExecutionMode', 'execution_mode_id': 'ExecutionModeId', 'ext_inst': 'ExtInst',
    'line': 'Line', 'no_line': 'NoLine', 'decoration_group': 'DecorationGroup', 'string': 'String',
    'type_forward_pointer': 'TypeForwardPointer', 'type_pointer': 'TypePointer', 'type_opaque': 'TypeOpaque',
    'constant_bit32': 'Constant', 'constant_bit64': 'Constant', 'spec_constant_bit32': 'SpecConstant', 'spec_constant_bit64': 'SpecConstant',
    'variable': 'Variable', 'undef': 'Undef', 'begin_function': 'Function', 'end_function': 'FunctionEnd',
    'function_parameter': 'FunctionParameter', 'begin_block': 'Label',
}

def split_params(ps):
    depth = 0; cur = ''; parts = []
    for ch in ps:
        if ch in '<([': depth += 1
        if ch in '>)]': depth -= 1
        if ch == ',' and depth == 0:
            parts.append(cur.strip()); cur = ''
        else:
            cur += ch
    if cur.strip(): parts.append(cur.strip())
    return parts

def ty_of(t):
    t = t.strip()
    m = re.fullmatch(r'spirv::(\w+)', t)
    if t == 'spirv::Word': return ('Word', None)
    if t == 'Option<spirv::Word>': return ('OptWord', None)
    if t == 'u32': return ('U32', None)
    if t == 'u64': return ('U64', None)
    if t == 'InsertPoint': return ('InsertPoint', None)
    if t == 'spirv::Op': return ('Op', None)
    if m: return ('Val', m.group(1))
    m = re.fullmatch(r'Option<spirv::(\w+)>', t)
    if m: return ('OptVal', m.group(1))
    if t == 'impl IntoIterator<Item = dr::Operand>': return ('Operands', None)
    if t in ('impl IntoIterator<Item = spirv::Word>', 'impl AsRef<[spirv::Word]>'): return ('Words', None)
    if t in ('impl IntoIterator<Item = u32>', 'impl AsRef<[u32]>'): return ('U32s', None)
    if t == 'impl IntoIterator<Item = (spirv::Word, spirv::Word)>': return ('PairsWW', None)
    if t == 'impl IntoIterator<Item = (spirv::Word, u32)>': return ('PairsWU', None)
    if t == 'impl IntoIterator<Item = (dr::Operand, spirv::Word)>': return ('PairsOW', None)
    if t == 'impl Into<String>': return ('Str', None)
    if t == 'Option<impl Into<String>>': return ('OptStr', None)
    return None

def arg_expr(i, ty):
    k, extra = ty
    return {
        'Word': f'a.word({i})', 'OptWord': f'a.opt_word({i})', 'U32': f'a.u32v({i})', 'U64': f'a.u64v({i})',
        'InsertPoint': f'a.insert_point({i})', 'Op': f'a.op({i})',
        'Val': f'a.val({i}, "{extra}", |n| spirv::{extra}::{"from_bits" if extra in MASKS else "from_u32"}(n))',
        'OptVal': f'a.opt_val({i}, "{extra}", |n| spirv::{extra}::{"from_bits" if extra in MASKS else "from_u32"}(n))',
        'Operands': f'a.operands({i})', 'Words': f'a.words({i})', 'U32s': f'a.u32s({i})',
        'PairsWW': f'a.pairs_ww({i})', 'PairsWU': f'a.pairs_wu({i})', 'PairsOW': f'a.pairs_ow({i})',
        'Str': f'a.string({i})', 'OptStr': f'a.opt_string({i})',
    }[k]

S = ' '.join(open(repo + '/spirv/autogen_spirv.rs').read().split())
MASKS = set(re.findall(r'pub struct (\w+) : u32', S))

entries = []
skipped = []
for f in FILES:
    B = ' '.join(open(repo + '/rspirv/dr/build/' + f).read().split())
    for m in re.finditer(r'pub fn (\w+)(<[^>]*>)?\( ?&mut self,? ?(.*?)\) ?(?:-> ([^{]+?) )?\{ (.*?)(?=(?:#\[doc|/// |pub fn |\Z))', B):
        name, params, ret, body = m.group(1), m.group(3), (m.group(4) or '()').strip(), m.group(5)
        if f == 'mod.rs':
            if name not in MOD_RS:
                continue
            opcode = MOD_RS[name]
        else:
            om = re.search(r'dr::Instruction::new\( ?spirv::Op::(\w+),', body)
            if not om:
                # thin wrappers (`type_void()` calling `type_void_id(None)`): opcode from the callee
                cm = re.search(r'self\.(\w+)\(', body)
                opcode = None
                callee = cm.group(1) if cm else None
                entries.append({'name': name, 'file': f, 'params': params, 'ret': ret, 'opcode': None, 'callee': callee})
                continue
            opcode = om.group(1)
        entries.append({'name': name, 'file': f, 'params': params, 'ret': ret, 'opcode': opcode, 'callee': None})

byname = {e['name']: e for e in entries}
for e in entries:
    if e['opcode'] is None and e['callee'] in byname:
        e['opcode'] = byname[e['callee']]['opcode']

lines = []
n = 0
for e in entries:
    if e['opcode'] is None:
        skipped.append(e['name']); continue
    ps = []
    ok = True
    for p in split_params(e['params']):
        nm, t = p.split(':', 1)
        ty = ty_of(t)
        if ty is None:
            ok = False; skipped.append(e['name'] + ' (' + t.strip() + ')'); break
        ps.append((nm.strip(), ty))
    if not ok:
        continue
    args = ', '.join(arg_expr(i, ty) for i, (nm, ty) in enumerate(ps))
    call = f'b.{e["name"]}({args})'
    r = e['ret']
    if r == '()': wrap = f'{{ {call}; Out::Unit }}'
    elif r == 'spirv::Word': wrap = f'Out::Word({call})'
    elif r == 'BuildResult<spirv::Word>': wrap = f'Out::ResWord({call}.map_err(|e| format!("{{:?}}", e)))'
    elif r == 'BuildResult<()>': wrap = f'Out::ResUnit({call}.map_err(|e| format!("{{:?}}", e)))'
    else:
        skipped.append(e['name'] + ' (ret ' + r + ')'); continue
    plist = ', '.join('P { name: "%s", ty: Ty::%s%s }' % (nm, ty[0], ('("%s")' % ty[1]) if ty[1] else '') for nm, ty in ps)
    lines.append('    CallSite { name: "%s", file: "%s", opcode: "%s", params: &[%s], call: |b, a| %s },' % (e['name'], e['file'], e['opcode'], plist, wrap))
    n += 1

with open(out, 'w') as fo:
    fo.write('// GENERATED by reference/gen_calls.py from the pinned Builder signatures. Do not edit.\n')
    fo.write('pub static CALLS: &[CallSite] = &[\n' + '\n'.join(lines) + '\n];\n')
print('call sites:', n, 'skipped:', skipped)
