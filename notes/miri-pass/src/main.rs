use rspirv::spirv;
fn main() {
    // boundary set of from_u32 for a few enums with many ranges (transmute inside)
    let mut acc = 0u32;
    for n in (0u32..7000).chain([0x7fff_fffe, 0x7fff_ffff, 0x8000_0000, u32::MAX]) {
        if let Some(v) = spirv::Op::from_u32(n) { acc ^= v as u32; }
        if let Some(v) = spirv::Capability::from_u32(n) { acc ^= v as u32; }
        if let Some(v) = spirv::Decoration::from_u32(n) { acc ^= v as u32; }
        if let Some(v) = spirv::BuiltIn::from_u32(n) { acc ^= v as u32; }
        if let Some(v) = spirv::FPEncoding::from_u32(n) { acc ^= v as u32; }
    }
    // parse_words: the unsafe reinterpretation of &[u32] as bytes, on empty / short / typical inputs
    let hdr = [0x0723_0203u32, 0x0001_0000, 0, 10, 0];
    let mut inputs: Vec<Vec<u32>> = vec![vec![], hdr[..3].to_vec(), hdr.to_vec()];
    let mut m = hdr.to_vec();
    m.extend([0x0002_0011, 1, 0x0003_000e, 0, 1, 0x0004_0005, 7, 0x0064_6261, 0x0004_002b, 3, 4, 0xffff_ffff]);
    inputs.push(m.clone());
    m.push(0xffff_0005);
    inputs.push(m);
    for w in &inputs {
        let r = rspirv::dr::load_words(w);
        acc ^= r.is_ok() as u32;
    }
    println!("miri pass done {}", acc);
}
