#!/usr/bin/env python3
"""Writes /verif/MANIFEST.json from the table below (single source of truth for the registered checks)."""
import json, os
ROOT = os.path.dirname(os.path.dirname(os.path.abspath(__file__)))
props = [json.loads(l)['id'] for l in open(os.path.join(ROOT, 'properties.jsonl'))]

GOLD = "Golden snapshot (reference/grammar.json) trusted as the Khronos grammar of sdk-1.4.309.0 to the extent of DESIGN.md section 3."
C = {}
def chk(pid, level, engine, dref, technique, text, note):
    C[pid] = {"property_id": pid, "quick_cmd": "bin/check %s quick" % pid, "thorough_cmd": "bin/check %s thorough" % pid,
              "evidence_file": "/verif/evidence/%s.json" % pid, "replay_cmd_template": "harness/target/release/vcheck %s --replay {path}" % pid,
              "engine": engine, "level_claimed": {"category": level, "text": text, "design_ref": dref}, "level_note": note, "technique": technique}

chk("C01", "exploration", "xb", "5/C01", "bounded-exhaustive enumeration of modules (every instruction shape in context; every class sequence up to length L in any order) against an independent layout sorter + reference encoder",
    "Every U-inst shape of every opcode embedded in a loadable module, every word over the 21-class alphabet up to length 5 (thorough 6) in any order, multi-function modules, typed literals, strings with garbage padding: load -> assemble must equal header ++ layout-sorted reference re-encoding; reload must give an equal module. The two stated exclusions are generated, counted and skipped.",
    "Layout sorter uses the golden class table; parser instruction models are C02/C03's concern. Sequences longer than L and payload values outside the alphabet are out of reach.")
chk("C02", "exploration", "xb", "5/C02", "bounded-exhaustive enumeration of grammar-conforming instruction shapes against an independent reference encoder",
    "Every shape of every one of the 787 opcodes (optional runs, variadic counts, every enumerant and mask bit with parameters, literal/id extremes, strings of every length mod 4 over 6 character classes, all nestable opcodes under OpSpecConstantOp, typed literals, subsets of the parameterised masks): assemble() equals the specification's encoding word for word and parsing it returns an equal instruction.",
    GOLD + " Reference encoder written from the SPIR-V binary format.")
chk("C03", "fault_enumeration", "xb", "5/C03", "exhaustive fault enumeration (every single-point, thorough two-point, corruption of every seed; all 65536 opcode numbers; all short hostile word strings) against an independent reference acceptor",
    "Each of ~10^6 (thorough ~10^8) corrupted binaries goes through the real parser with a recording consumer and through a recursive-descent acceptor over the golden grammar: accept iff accept; delivered prefix exact; error class, instruction number and offset window on rejection.",
    GOLD + " Which of several co-present faults is named and the exact offset inside the extent are don't-care (DESIGN.md 5/C03).")
chk("C04", "fault_enumeration", "xb", "5/C04", "exhaustive fault enumeration under catch_unwind: every corrupted binary through parse_bytes / parse_words / load_bytes / assemble / disassemble; every decoder request sequence on small buffers",
    "The C03 universe at byte and word granularity plus the C11 decoder request space: every call returns normally. Every module the loader accepts is assembled and disassembled.",
    "Termination is not watched by a watchdog; reads outside the buffer inside parse_words' unsafe block would need Miri (supplementary, not the deciding step).")
chk("C05", "model_checking", "xs", "5/C05", "explicit-state exploration of the real Loader (state = instruction history) in lock-step with a two-bit bracket automaton; full enumeration to depth d, BFS closure on a canonical key to depth D",
    "Real dr::Loader driven through the Consumer interface: every transition compares the structural error kind and the finalize() probe of the hidden bits, every history the whole module section by section; all 787 opcodes substituted in each of the three loader states; short histories also through load_words.",
    "Merge argument for the closure key in DESIGN.md 5/C05; vendor/context-dependent module-scope opcodes are exercised for placement only inside blocks.")
chk("C08", "exploration", "xe", "5/C08", "exhaustive domain sweep (thorough: all 2^32 numbers x 60 types) against a pinned grammar snapshot",
    "Thorough sweeps all 2^32 numbers through from_u32/from_bits of each of the 45 enums and 15 masks (accept iff declared, value converts back), Debug names, FromStr of every name and alias, rejection of undeclared names, every compile-time constant; quick sweeps [0,2^16) plus boundary sets.",
    GOLD + " UB hidden in an Option niche is not observable natively.")
chk("C09", "exploration", "xe", "5/C09", "exhaustive enumeration of all 65536 opcode numbers and every table entry against a pinned grammar snapshot",
    "All 16-bit numbers through lookup_opcode, every Op through get, every entry of the three tables field by field (kinds, quantifiers, capabilities, extensions), well-formedness, uniqueness; ext-inst numbers [0,2^16)+boundaries against GLOp/CLOp.",
    GOLD + " The ext-inst 2^32 x linear search is not attempted.")
chk("C10", "model_checking", "xs", "5/C10", "explicit-state exploration of the real Parser over histories of type declarations and literal consumers in lock-step with a reference type tracker; all ordered pairs of short histories for independence",
    "51-operation alphabet (int/float widths 1..128, bool, constants and spec constants with 1 or 2 literal words, selector chains, switches with 0-2 cases): accept/reject, error class, LiteralBit32 vs LiteralBit64 low word first, re-assembly equal to the input; parsing A then B equals parsing B alone for every pair.",
    "Ids defined once; widths from the alphabet only.")
chk("C11", "model_checking", "xs", "5/C11", "explicit-state exploration of the real Decoder on every small buffer: full enumeration of request sequences to depth d plus BFS closure per buffer (finite, reaches a fixpoint)",
    "Every byte string of length <= 6 (thorough 8) over {00,02,FF} (+ UTF-8 multi-byte set), 16 requests including limits 0,1,2,usize::MAX: returned words/strings/enums, offsets, failed raw-word requests, limit accounting, no panics.",
    "Whether a failed request is charged against the limit and how much a failed multi-word request consumed are don't-care (interval model).")
chk("C12", "model_checking", "xs", "5/C12", "explicit-state exploration of the real Builder (state = call history) in lock-step with a reference model; full enumeration to depth d, BFS closure on a hash of the full observable state, restart from non-initial states",
    "30-call alphabet: Ok/Err exactly as stated, exact module delta on Ok, nothing changed on Err, selection invariant in every state, no panics; Continue restarts from module() via new_from_module.",
    "Insertion offsets outside the selected block are outside the quantifier (not generated).")
chk("C13", "model_checking", "xs", "5/C13", "explicit-state exploration of the real Builder with an allocation-tilted alphabet, plus every ordered pair/triple of requests over all 64 generated type methods",
    "Fresh ids strictly increasing and never reused (interval when failed calls may have reserved ids), end-of-history id() probe and module().header.bound agree, implicit type requests dedup to an identical earlier declaration or append exactly one, explicit requests always append; continuation from an existing module.",
    "A failing call reserves at most one id; next_id overflow at 2^32 is out of reach.")
chk("C14", "model_checking", "xs", "5/C14", "exhaustive enumeration of (binary, callback position, answer) with a scripted logging consumer on the real Parser; one deviation per run",
    "Binaries of 0-3 (thorough 5) instructions with each of 7 parse-error classes at every position and every header fault; answers continue/stop/error at every callback position: exact callback log, result, identity of the carried error; the real Loader on every binary.",
    "Three instruction kinds; one deviation is the maximum observable since parsing ends there.")
chk("C15", "exploration", "xb", "5/C15", "exhaustive enumeration of dr::Module shapes (every subset of sections x every function shape) against the written-out layout order",
    "Full product of 4096 section/header masks x 661 function lists (thorough adds triples): six traversals compared by unique id with the reference order, mutation through the mutable traversal observed, assemble() equals header ++ concatenation of visited instructions.",
    "Section sizes 0 or 2, at most 3 functions of at most 2 blocks of at most 2 instructions.")
chk("C16", "exploration", "xe", "5/C16", "exhaustive enumeration of every (predicate, opcode) pair against a three-valued class table",
    "12 predicates x 787 opcodes against must / must-not / either from the Khronos classes and the specification's termination instructions; derived predicates, disjointness.",
    "Class table trusted (DESIGN.md 3). The Builder half is added by the vcalls binary when present.")
chk("C17", "exploration", "xe", "5/C17", "exhaustive enumeration of all enumerants and all bit subsets, the real parser as transition function",
    "Every enumerant of ExecutionMode/Decoration and every subset of the four parameterised masks through additional_operands and the real parser (exact accept; reject with a parameter fewer / a surplus word); capabilities/extensions for every enumerant and every subset of every mask; all 64 operand variants for id reflection and payload round trips.",
    "Capabilities/extensions per enumerant are a single-rendering snapshot of the pinned tree.")
chk("C06", "exploration", "xb", "5/C06", "exhaustive enumeration of one frozen call site per Builder method x argument configurations, plus BFS closure over complete Builder histories; every built module through assemble -> load -> compare",
    "All 1149 instruction-emitting Builder methods (hand-written and generated) called in their legal context with distinct positional arguments, implicit/explicit ids, every trailing run of optionals, list lengths 0/1/2, insertion points, every (quick: strided) enumerant and mask value of each value parameter with its grammar parameters: the emitted instruction has the method's opcode and the arguments in grammar order, and the finished module assembles, loads and compares equal operand for operand with the version set and a bound above every id. Complete histories over 21 calls to depth 6 (thorough 8).",
    "Argument VALUES are one per position (ids from the builder's own allocator); methods whose signature cannot express a grammar-conforming instruction for some mask value are counted not-expressible. A signature change in the Builder makes vcalls fail to build (exit 2).")
chk("C07", "exploration", "xb", "5/C07", "bounded-exhaustive enumeration of modules (every instruction shape in context, typed constants, ext-inst tables, headers, thorough: all 2^32 f32 patterns) against an independent reference renderer and an independent reference reader",
    "Every U-inst shape embedded in a loadable module, 12 constant types x boundary patterns (type before/after), OpExtInst over both known sets and unknown ones x every table number, 228 headers: one line per instruction in assembly order, token-exact against the reference renderer; the reference reader reconstructs assemble()[5..] from the text; a global text -> words map asserts no collision; f32 rendering reads back for every pattern (thorough: all 2^32).",
    "Spacing is not significant; spelling of 8/16-bit constants is free (injectivity only); NaN payloads excepted; unambiguity is claimed for loader-produced and grammar-conforming Builder modules.")
chk("C18", "exploration", "xb", "5/C18", "bounded-exhaustive enumeration of liftable modules (every result-producing block opcode x every shape; type/constant/function/block/terminator/phi structures) with the lifted module read through its Debug rendering",
    "(a) each of the 595 result-producing block opcodes the lifter handles, every U-inst shape, every id operand a distinct declared type: lifted operation's leaves equal the DR operands positionally (raw id or Token of the referenced type); (b) ~6000 module shapes: version, capability order, memory model, one type/constant/operation per declaration in order, function control, result token, block count, terminators, phi argument types.",
    "The subset is what the lifter handles at the pinned commit (no forward branches, switch, OpFunctionCall/OpExtInst); four known findings (parameters of parameterised masks are dropped or rejected) are listed in known_findings.json.")
chk("C20", "fault_enumeration", "xp", "5/C20", "fault enumeration through the real rspirv-dis process: a strided selection of every corruption kind of every seed, every prefix of a valid module, short hostile word strings; stdout/exit status against the in-process library result",
    "13k (thorough 400k) files written to disk and fed to the binary built from /repo: exit status 0, stdout equals the library disassembly + newline or the one-line Display of the loading error, no panic text on stderr.",
    "One process per file, so a strided selection of the C03 universe rather than all of it (exhaustive: false); unreadable files are outside the statement.")
chk("C19", "model_checking", "xs", "5/C19", "explicit-state exploration of the real Storage against a Vec model: full enumeration and closure on the whole stored sequence",
    "10-operation alphabet over 5 values (equal-by-key pairs, a value unequal to itself): returned index, freshness, lookup of the new and of every earlier token after every step.",
    "Closure key is the full stored sequence, so no merging assumption.")

# as-built extensions (rounds 4-8 of the seeded-change campaign, DESIGN.md 13.1 / 13.3), appended to the level text
ADD = {
 "C01": "As built it also runs, over the whole C03 corruption universe (2.5M binaries quick), a grammar-free oracle on everything the loader accepts and the full layout oracle on everything the reference acceptor accepts as well; every ordered pair of the 787 opcodes as neighbours; U-scale / U-pattern shapes; second-use comparisons. One known finding (F12).",
 "C02": "As built: + U-scale shapes (strings to 262 131 bytes, operand lists to 65 53x), U-pattern shapes (middle elements, three-bit masks, bit patterns, all ids equal, nested enumerant parameters), typed literals under six id relabellings, behind function boundaries, behind 300 types, with an FP-encoding float; comparison through the model, not the subject's PartialEq.",
 "C03": "As built the universe also holds whole-instruction duplications, unterminated strings, U-scale seeds, ext-inst seeds for every number of both sets with 0-5 operands, typed-literal contexts under id relabellings / behind functions / behind N types for every N <= 70 / typed by function-local values, and every ordered pair of opcodes unmodified.",
 "C04": "As built: + every binary also parsed from a slice that starts off a word boundary (differential), exhaustive narrow typed constants through the disassembler, numeric edges in the decoder alphabet.",
 "C05": "As built: + every ordered pair of opcodes in a block and at module level, every shape of every module-level opcode in front of a function with ids collapsed onto {1,2} and {1}, every capability x every opcode, Loader::default() and load_bytes differentials.",
 "C06": "As built: + insertion points FromBegin/FromEnd 0..2, unlabelled blocks, two blocks, re-selected terminated blocks and functions, typed functions, four predecessor instructions, wide strings, narrow and 64-bit typed literals; history closure with 27 calls and three prebuilt roots.",
 "C07": "As built: + every 16-bit pattern x 3-6 high halves behind each narrow type (injectivity), an f64 sweep around exactly-widened floats, import histories, class sequences to length 3, typed constants under id relabellings, second disassembly equal to the first.",
 "C08": "As built the quick tier also sweeps bit-pattern variants of every declared value and every number that agrees with a declared value in its low 16 bits.",
 "C09": "As built: + every ordered pair of core-table lookups (lookup_opcode and get), interleaved lookups of every number through both ext-inst tables.",
 "C10": "As built: 60+ operations (FP-encoding floats, use-before-declaration, function boundaries), seven id schemes, a depth-4/5 enumeration over a reduced alphabet under every scheme, long histories with N further tracked ids for every N <= 300 and around 2^16, two instructions behind every malformed one.",
 "C11": "As built: 21 requests with numeric edges, byte alphabets {00,C3,A9}, {00,01,80,81}, {00,EF,BB,BF,61}, every buffer also 1-3 bytes off a word boundary, and the same model on buffers with strings of 2^16, 2^18, 2^24 (+-) bytes.",
 "C12": "As built: 44-call alphabet (select_function_by_name, name, find_return_block_indices, imports, linkage decorations, explicit function ids), continuations of depth 3/4 from ten prebuilt modules, and a per-method sweep of all 1149 methods in eight contexts.",
 "C13": "As built: + Reload through assemble -> load, forward-reference declarations, X-Y-X triples over all 64 type methods, operands that are ids of earlier constants, modules adopted with a result-less declaration, lines between requests.",
 "C14": "As built the whole C03 corruption universe is driven through the scripted consumer (expected callbacks from the reference acceptor) with three scripts each, through parse_bytes and parse_words.",
 "C15": "As built: + exact copies of instructions as neighbours, all 787 opcodes, every ordered opcode pair in a block and a section, every operand shape of every opcode in three blocks, seven header versions x every opcode in every section, sizes 255 ... 65 537, second assembly and assemble_into on a non-empty vector.",
 "C16": "As built the Builder half drives every method in 30+ configurations (see C06) and counts a termination instruction that is refused, misplaced or not emitted as not ending the block.",
 "C17": "As built: + every instruction that can host a parameterised kind, alias rewrites (an id rewritten to the value of another id operand) on every opcode, string payloads with NULs / blanks / 70 000 bytes through From<String> and From<&str>.",
 "C18": "As built: + well-typed op-sourced phis, phis in the first block and behind operations, float / unsigned constants, every capability x addressing x memory model, every generator word x every liftable opcode, U-pattern shapes, lifting twice.",
 "C19": "As built: 9 values incl. asymmetric and tolerance equality, prefilled storages to 140 values, generic value types (zero-sized, String, large, f32, Cow with cross-variant equality, an equality that panics), storages of 255 ... 131 073 values, every operation repeated 8 ... 256 times between all short prefixes and continuations.",
 "C20": "As built: 25k files quick incl. every unmodified seed, class sequences, string tails in partial words, short files with foreign first words, outputs of 1 B ... 256 KiB per line and multi-byte characters across every 64 KiB phase, exhaustive narrow constants; plus an in-process prefilter over the whole universe whose panics are handed to the real tool.",
}
ADD9 = {
 "C02": "Round 9: + OpExtInst behind imports of ten set names for every number 0..210, numeric types used before their declaration and again after it.",
 "C04": "Round 9: + id-relation sequences over ids {1,2,3} (rings, values typed by values), dense large modules (up to 1.1M / 2.2M declarations), one Loader used for two parses (every loader state x every opcode); a stack overflow of the checking process is reported by bin/check as a violation.",
 "C05": "Round 9: + function-structure sequences over ids {1,2,3} (declared function types, parameters, same-id functions) to depth 5-7 (thorough 6-9), one Loader fed two streams.",
 "C06": "Round 9: + ext_inst through imports of ten set names x every number 0..210 x three operand lists, built, assembled, loaded and compared.",
 "C09": "Round 9: + repetition (300x / 70 000x the same lookup, then its neighbours); supplementary SAMPLED probe (not exhaustive): 150 / 1500 fresh processes whose first lookups are made by 16 spinning threads. Round 12: + every declared lookup made from a thread-local destructor while a thread exits, both destruction orders (enumerated, deterministic).",
 "C10": "Round 9: + every extension name of the grammar, every capability, imports and memory models in front of width-sensitive declarations.",
 "C12": "Round 9: + functions with declared result / function types (per-method contexts 8-11), ten names with multi-byte characters / prefixes / mangled forms for name and select_function_by_name, interleaved functions switched by name (by-name selection = selection of the function found).",
 "C13": "Round 9: + the requested type mentioned by eight debug / annotation / entry-point / execution-mode methods before it is requested again.",
 "C15": "Round 9: + 640 three-function modules (bodies x {Linkage,Shader,Kernel} x linkage / name / entry-point targets), assemble clause checked before and after the ids are rewritten.",
 "C16": "Round 9: + declared function types, an earlier function labelled with the call's own ids, a switch by name to a finished function while a block is open (every block-level call must fail).",
 "C17": "Round 9: + nine header versions x every host x every value; string payloads of 2^8 .. 2^24 bytes.",
 "C18": "Round 9: + def-use chains of 1-4 operations for 314 opcodes ending in the terminator, composite constants with 0-6 constituents for vector / struct / array types.",
 "C20": "Round 9: + id-relation files (rings of ids), and termination is now checked: every run of the tool has a 20 s wall-clock horizon (stdout / stderr to files).",
}
ADD10 = {
 "C01": "Rounds 10-11: + many-function modules (2..40, 64, 100, 300 functions, one body-less) compared word for word, every unmodified seed also from a misaligned slice, dense large modules, typed-literal contexts completed into loadable modules (types / values declared inside earlier functions, chains, re-declared ids), strings giving a word count of exactly 65535.",
 "C02": "Rounds 10-11: + string content zoo, every ordered pair of type ids <= 200, misaligned parses of every opcode, extension names in front of typed contexts, re-entrant parses (a consumer that parses from inside a callback).",
 "C03": "Rounds 10-11: + header words (generator / bound / schema) x surplus-zero / surplus / dropped word, id-relation seeds, chains of typed values 1..40, re-declared ids, types declared after / inside functions, every opcode number parsed twice in a row on one thread.",
 "C04": "Rounds 10-11: + assemble_into roomy / reused buffers, deep nesting (OpSpecConstantOp of OpSpecConstantOp up to 65531 levels), re-entrant parses.",
 "C05": "Rounds 10-11: + every ext-inst number in every loader state behind six imports, the string zoo in every string-carrying module-level opcode in front of body-less / bodied functions, two live Loaders fed alternately, a Loader moved between threads after every prefix.",
 "C06": "Rounds 10-11: + string suffixes (line ends, tabs, U+FFFD, quotes behind multi-byte characters), the function declared an entry point of each execution model first, 70 000-element operand lists, histories with headers first / bodies later, equal names on two functions selected by name, a second session through new_from_module, and the clause that no result id is carried twice.",
 "C07": "Rounds 10-11: + extension names / capabilities / header versions in front of typed constants, FP-encoded float types, chains of typed values 1..40, a multi-byte character straddling every KiB of 64 KiB strings.",
 "C08": "Rounds 10-11: + packed-key numbers (low 24 bits declared by ANY enumeration under every top byte), same-type ordered pairs, 5 000 / 70 000 repetitions then the whole range 0..8191 (on one thread), from_str at every alignment.",
 "C09": "Rounds 10-11: + every declared opcode x every 16-bit number in both orders, the extended tables x 0..4095, a SAMPLED steady-state probe with 16 threads.",
 "C10": "Rounds 10-11: + every non-numeric type-declaring opcode built from wide / odd scalars, alias ids differing in one bit (all 32), header versions and id bounds, chains of typed values 1..40, re-entrant parses.",
 "C11": "Rounds 10-11: + a UTF-8 zoo of 43 ill- and well-formed sequences in four paddings, buffers holding the same long string three times.",
 "C12": "Rounds 10-11: + phi, every call 300 times in a row after four prefixes, 70 000-element operand lists in the per-method sweep (13 contexts), equal names on two functions.",
 "C13": "Rounds 10-11: + forward-declared pointers, insert_types_global_values at Begin / FromBegin / FromEnd, pop_instruction, continued builders in two depth-5 alphabets.",
 "C14": "Rounds 10-11: + 24 kinds of consumer error payloads at every callback position, header words x corruptions, re-entrant parses.",
 "C15": "Rounds 10-11: + strings of 262 100..300 000 bytes in every string-carrying opcode, entry-point interfaces naming variables of six storage classes under four versions, nth / skip / step_by / last / count of every traversal, assemble_into roomy / reused buffers.",
 "C16": "Rounds 10-11: + every ordered pair of opcodes per predicate and across predicates, 300 repetitions; the Builder half under entry-point models, giant operand lists and (when the sources contain debug assertions) a build without them.",
 "C17": "Rounds 10-11: + every id an instruction mentions also declared as a 64-bit type in front of it, literal parameters 0..4 with 1..8 surplus words, a non-UTF-8 string parameter.",
 "C18": "Rounds 10-11: + lifted operations compared operand by operand in declaration order, blocks of 31..70 operations, mixed operand sources, ids spread by powers of two and hash multipliers, a good module after three kinds of failed conversion on one thread.",
 "C19": "Rounds 10-11: + value types of 1..256 bytes with non-bytewise / never-true equality, the block storages of a lifted four-function module, an equality that takes a millisecond in a storage of 700 values.",
 "C20": "Rounds 10-11: + the string zoo, deep nesting under a 256 KiB stack, foreign files (its own listing, 18 other formats), the same bytes through a named pipe.",
}
for pid, t in ADD.items():
    C[pid]["level_claimed"]["text"] += " " + t
for pid, t in ADD10.items():
    C[pid]["level_claimed"]["text"] += " " + t
for pid, t in ADD9.items():
    C[pid]["level_claimed"]["text"] += " " + t

m = {"version": 1, "setup_cmd": "bin/setup",
     "hooks": {"guard": "rspirv_verif", "enable": "none needed: every observation is made through the public API (DESIGN.md section 8); the cfg name is reserved",
               "baseline_off_cmd": "cd /repo && cargo test --workspace --no-fail-fast --offline", "source_commits": [], "add_only": True},
     "engines": [
        {"name": "xs", "path": "harness/vcheck/src/xs.rs", "serves_properties": ["C05", "C10", "C11", "C12", "C13", "C14", "C19"], "kind_free_text": "own explicit-state explorer over real objects: shortlex full enumeration + BFS closure on a canonical key, replay-based, rayon-parallel, deterministic merge"},
        {"name": "xe", "path": "harness/vcheck/src/checks", "serves_properties": ["C08", "C09", "C16", "C17"], "kind_free_text": "exhaustive finite-domain sweeps against the golden snapshot"},
        {"name": "xp", "path": "harness/vcheck/src/checks/c20.rs", "serves_properties": ["C20"], "kind_free_text": "process driver: runs the real rspirv-dis binary built from /repo on every file of a universe, 16 at a time"},
        {"name": "xb", "path": "harness/vcheck/src/{universe,mutate,acceptor,pcompare,disasm_ref}.rs, harness/vcalls", "serves_properties": ["C01", "C02", "C03", "C04", "C06", "C07", "C15", "C18"], "kind_free_text": "bounded-exhaustive generator of instruction shapes / modules / corruptions with reference encoder, acceptor and layout sorter"}],
     "checks": [C[p] for p in props if p in C],
     "notes": "See DESIGN.md. known_findings.json lists the genuine defects found (F1-F8, F11 repaired by 'fix:' commits in /repo; F9, F10, F12 recorded as known findings). bin/check first runs bin/seams.py: for every environment variable the sources of /repo read and for debug_assert sites beyond the allow-listed pure one it runs the same check again with the variable set / in a build without debug assertions (nothing extra on the tree as it stands). A stack overflow of the checking process is reported as a violation; any other abnormal end is a machinery error (exit 2).",
     "not_applicable": [{"property_id": p, "reason": "check not built yet (work in progress; see DESIGN.md section 12)"} for p in props if p not in C]}
for c in m["checks"]:
    if c["property_id"] == "C06":
        c["replay_cmd_template"] = "harness/target/release/vcalls --replay {path}"
json.dump(m, open(os.path.join(ROOT, 'MANIFEST.json'), 'w'), indent=1)
print("checks:", len(m["checks"]), "not yet:", [x["property_id"] for x in m["not_applicable"]])
