#!/usr/bin/env python3
"""Rewrites the seeds table of DESIGN.md (between the SEEDS-TABLE markers) from seeded/*/meta.json."""
import json, os, re
rows = ["| seed | breaks | what it needs to manifest | caught by (quick) |", "|---|---|---|---|"]
n = 0
for d in sorted(os.listdir('/verif/seeded')):
    mp = '/verif/seeded/%s/meta.json' % d
    if not os.path.exists(mp):
        continue
    m = json.load(open(mp)); n += 1
    rows.append('| %s | %s | %s | %s |' % (d, m['breaks_property'], m['needs_to_manifest'].replace('|', '/'), ', '.join(m['caught_by_quick_checks'])))
s = open('/verif/DESIGN.md').read()
s = re.sub(r'<!-- SEEDS-TABLE-BEGIN -->.*?<!-- SEEDS-TABLE-END -->', '<!-- SEEDS-TABLE-BEGIN -->\n' + '\n'.join(rows).replace('\\', '\\\\') + '\n<!-- SEEDS-TABLE-END -->', s, flags=re.S)
open('/verif/DESIGN.md', 'w').write(s)
print(n, 'seeds')
