#!/usr/bin/env python3
"""bin/seams.py: inventory of the ways /repo's library and tool sources let something OUTSIDE their inputs decide
behaviour. Prints one line per seam the checks should vary:
  ENV NAME=VALUE   an environment variable the sources read (candidate values: 1, every string literal that stands
                   within 25 lines after the read, and every option-like lower-case word literal of the same file)
  NODEBUG          the sources contain debug_assert!/cfg(debug_assertions) sites other than the allow-listed pure ones
                   (reference/debug_assert_allow.txt): behaviour may differ in a build without debug assertions
  STDERR           the library sources (rspirv/, spirv/; not the tool, not tests) write to standard error (eprint!, eprintln!,
                   dbg!, io::stderr): such a write PANICS when the stream cannot be written (ENOSPC on a full disk, EPIPE
                   on a reader-less pipe), so the check is run again with standard error redirected to /dev/full
On the tree as it stands it prints nothing."""
import re, os, sys
ROOT = '/repo'
ALLOW = set()
ap = os.path.join(os.path.dirname(os.path.abspath(__file__)), '..', 'reference', 'debug_assert_allow.txt')
if os.path.exists(ap):
    ALLOW = set(l.strip() for l in open(ap) if l.strip() and not l.startswith('#'))
env, nodebug = [], False
for top in ('rspirv', 'spirv', 'dis'):
    for d, dirs, files in os.walk(os.path.join(ROOT, top)):
        dirs[:] = [x for x in dirs if x not in ('target', 'tests', '.git')]
        for f in files:
            if not f.endswith('.rs'):
                continue
            try:
                lines = open(os.path.join(d, f), encoding='utf-8', errors='replace').read().split('\n')
            except OSError:
                continue
            for i, l in enumerate(lines):
                code = l.split('//')[0]
                for m in re.finditer(r'\bvar(?:_os)?\s*\(\s*"([A-Za-z_][A-Za-z0-9_]*)"', code):
                    if 'env' in code or any('env' in x for x in lines[max(0, i - 3):i + 1]):
                        name = m.group(1)
                        vals = ['1']
                        for k in lines[i:i + 25]:
                            for s in re.findall(r'"([^"\\]{1,40})"', k.split('//')[0]):
                                if s != name and s not in vals:
                                    vals.append(s)
                        # and every option-like word (lower case, digits, - _ , =) anywhere in the same file
                        for k in lines:
                            for s in re.findall(r'"([a-z0-9][a-z0-9_,=-]{1,30})"', k.split('//')[0]):
                                if s != name and s not in vals:
                                    vals.append(s)
                        for v in vals[:24]:
                            if (name, v) not in env:
                                env.append((name, v))
                if re.search(r'\bdebug_assert(_eq|_ne)?!|debug_assertions', code):
                    if code.strip() not in ALLOW:
                        nodebug = True
# reads whose argument is not a literal (a const, a variable): every string literal of a file that touches the
# environment at all and that looks like a variable name (UPPER_CASE) is taken as a candidate name, with the value 1 and the
# option-like words of that file
for top in ('rspirv', 'spirv', 'dis'):
    for d, dirs, files in os.walk(os.path.join(ROOT, top)):
        dirs[:] = [x for x in dirs if x not in ('target', 'tests', '.git')]
        for f in files:
            if not f.endswith('.rs'):
                continue
            try:
                text = open(os.path.join(d, f), encoding='utf-8', errors='replace').read()
            except OSError:
                continue
            code = '\n'.join(l.split('//')[0] if not l.lstrip().startswith('///') else '' for l in text.split('\n'))
            if not re.search(r'\benv::(var|var_os|vars|vars_os)\b|\bstd::env\b|\benv!\(|\boption_env!\(', code):
                continue
            if top == 'dis' and not re.search(r'\benv::(var|var_os|vars|vars_os)\b', code):
                continue  # the tool reads its command line (env::args): not a seam of this kind
            words = []
            for w in re.findall(r'"([a-z0-9][a-z0-9_,=-]{1,30})"', code):
                if w not in words:
                    words.append(w)
            for name in re.findall(r'"([A-Z][A-Z0-9_]{2,40})"', code):
                for v in ['1'] + words[:20]:
                    if (name, v) not in env:
                        env.append((name, v))
stderr_seam = False
for top in ('rspirv', 'spirv'):
    for d, dirs, files in os.walk(os.path.join(ROOT, top)):
        dirs[:] = [x for x in dirs if x not in ('target', 'tests', 'examples', 'benches', '.git')]
        for f in files:
            if not f.endswith('.rs') or f == 'build.rs':
                continue
            try:
                text = open(os.path.join(d, f), encoding='utf-8', errors='replace').read()
            except OSError:
                continue
            code = '\n'.join('' if l.lstrip().startswith('//') else l.split('//')[0] for l in text.split('\n'))
            if re.search(r'\beprintln?!|\bdbg!|\bstderr\s*\(', code):
                stderr_seam = True
for n, v in env:
    print('ENV %s=%s' % (n, v))
if stderr_seam:
    print('STDERR')
if nodebug:
    print('NODEBUG')
