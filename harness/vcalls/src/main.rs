//! vcalls — C06 (every module built with the Builder survives assemble-then-load) and the Builder half of C16.
//! Holds the frozen table of one call site per public instruction-emitting Builder method (gen_calls.rs).
use rayon::prelude::*;
use rspirv::binary::Assemble;
use rspirv::dr::{self, Builder};
use rspirv::spirv;
use serde_json::json;
use std::collections::{BTreeMap, HashSet};
use vcheck::bsys::{snap, Snap, SECTIONS};
use vcheck::callargs::{is_result_id_param, Args, CallSite, Out, Ty, P};
use vcheck::golden::golden;
use vcheck::model::{self, Arg, Inst};
use vcheck::report::{guarded, install_panic_hook, viol, Run, Tier, Viol};

#[allow(unused_variables, unused_imports)]
mod gen {
    use rspirv::spirv;
    use vcheck::callargs::{CallSite, Out, Ty, P};
    include!("gen_calls.rs");
}

/// methods driven by the history explorer instead (they open/close structure)
const STRUCTURAL: [&str; 4] = ["begin_function", "end_function", "function_parameter", "begin_block"];

fn flatten(s: &Snap) -> Vec<(String, Inst)> {
    let mut v = vec![];
    for (i, sec) in s.secs.iter().enumerate() {
        for x in sec {
            v.push((SECTIONS[i].to_string(), x.clone()));
        }
    }
    for (fi, f) in s.fns.iter().enumerate() {
        for x in f.def.iter() {
            v.push((format!("f{}.def", fi), x.clone()));
        }
        for x in &f.params {
            v.push((format!("f{}.params", fi), x.clone()));
        }
        for (bi, b) in f.blocks.iter().enumerate() {
            for x in b.label.iter() {
                v.push((format!("f{}.b{}.label", fi, bi), x.clone()));
            }
            for x in &b.insts {
                v.push((format!("f{}.b{}", fi, bi), x.clone()));
            }
        }
        for x in f.end.iter() {
            v.push((format!("f{}.end", fi), x.clone()));
        }
    }
    v
}

#[derive(Clone, Debug)]
struct Cfg {
    explicit_id: bool,
    opt_upto: usize,
    list_len: usize,
    choice_at: Option<(usize, usize)>,
    in_block: bool,
    insert_begin: bool,
    /// set_version is called after the last id was allocated (just before module()) instead of first
    version_late: bool,
    /// the same method was called once before with the same arguments and an implicit id (an identical
    /// instruction / declaration already exists when the measured call with an explicit id is made)
    prior_identical: bool,
    /// the measured call is made into a block that already ends in a terminator and was re-selected
    reselect_terminated: bool,
    /// Some(w): the literal's type (result type / switch selector type) is declared as a signed w-bit integer first and
    /// the 32-bit literal arguments have all their high bits set (a sign-extended negative narrow value)
    narrow: Option<u32>,
    /// Some((from_begin, k)): the block holds two instructions and the call inserts at FromBegin(k) / FromEnd(k)
    ip: Option<(bool, usize)>,
    /// the block is opened with begin_block_no_label
    no_label: bool,
    /// the instruction emitted directly in front of the measured call (in the same block): 1 = OpSelectionMerge, 2 = OpLoopMerge, 3 = OpLine, 4 = OpNoLine
    pred: u8,
    /// string arguments with multi-byte characters
    wide: bool,
    /// k > 0: every string argument ends in SUFFIXES[k] (line ends, tabs, blanks, the replacement character, a quote or a
    /// backslash behind a multi-byte character)
    suffix: u8,
    /// 1: the function's result type id is DECLARED as a 32-bit int; 2: declared as void; 3: the function was ended and
    /// re-selected, the call goes into a block begun afterwards; 4: an EARLIER function exists whose blocks carry as
    /// labels every id the measured call passes (ids of another function's blocks are just ids); 5: an earlier, finished
    /// function named "main" exists and is switched to BY NAME while the block of the second function is still open: no
    /// block of "main" is open, so every block-level call must fail and change nothing; 6 / 7: the function's type id is
    /// declared as an OpTypeFunction returning a declared 32-bit int / void
    /// 1000 + k: the function's id is declared as an ENTRY POINT of the k-th execution model before the function is begun
    fn_kind: u32,
    /// a second, terminated block exists behind the one the call is made into (with reselect_terminated: the FIRST block is re-selected)
    two_blocks: bool,
}

const SUFFIXES: [&str; 9] = ["", "\n", "\r\n", "\t", " ", "\u{fffd}", "\u{e9}\"", "\u{65e5}\\", "\u{1}"];

fn needs_block(site: &CallSite) -> bool {
    matches!(site.file, "autogen_norm_insts.rs" | "autogen_terminator.rs") || site.name == "ext_inst"
}

fn where_expected(site: &CallSite, in_block: bool) -> String {
    let g = golden();
    if in_block {
        return "f0.b0".to_string();
    }
    match vcheck::universe::class_of(site.opcode) {
        vcheck::universe::Class::Module(s) => SECTIONS[s].to_string(),
        _ => {
            let _ = g;
            SECTIONS[10].to_string()
        }
    }
}

struct SiteResult {
    viols: Vec<Viol>,
    c16: Vec<Viol>,
    outcome: &'static str,
}

fn check_site(site: &CallSite, cfg: &Cfg) -> SiteResult {
    let g = golden();
    let mut args = Args::new(site.params);
    args.opt_upto = cfg.opt_upto;
    args.list_len = cfg.list_len;
    args.choice_at = cfg.choice_at;
    args.choice = 0;
    args.insert_at_begin = cfg.insert_begin;
    if cfg.narrow.is_some() {
        args.u32_base = 0xFFFF_F000;
    }
    args.ip_override = cfg.ip;
    args.wide_strings = cfg.wide;
    args.string_suffix = SUFFIXES[cfg.suffix as usize % SUFFIXES.len()];
    args.lit64_pairs = cfg.narrow == Some(64);
    // ids are taken from the builder: a pool of 320 is reserved up front and the arguments are drawn from it
    args.word_base = 1;
    args.word_step = 16;
    const EXPLICIT: u32 = 321;
    if cfg.explicit_id {
        args.result_id = Some(EXPLICIT);
    }
    let cfg_s = format!("{:?}", cfg);
    let rep = json!({"kind": "builder-call", "method": site.name, "config": cfg_s, "cfg": {
        "explicit_id": cfg.explicit_id, "opt_upto": if cfg.opt_upto == usize::MAX { -1i64 } else { cfg.opt_upto as i64 }, "list_len": cfg.list_len,
        "choice_at": cfg.choice_at.map(|(a, b)| vec![a, b]), "in_block": cfg.in_block, "insert_begin": cfg.insert_begin,
        "version_late": cfg.version_late, "prior_identical": cfg.prior_identical, "reselect_terminated": cfg.reselect_terminated, "narrow": cfg.narrow, "ip": cfg.ip.map(|(a, b)| json!([a, b])), "no_label": cfg.no_label, "two_blocks": cfg.two_blocks, "pred": cfg.pred, "wide": cfg.wide, "suffix": cfg.suffix, "fn_kind": cfg.fn_kind}});
    let mut out = SiteResult { viols: vec![], c16: vec![], outcome: "checked" };
    // a parameterised mask whose parameters cannot be expressed through this method's signature: the single
    // `additional_params` list comes after a LATER value parameter, so the grammar order is not reachable
    if let Some((p, _)) = cfg.choice_at {
        if let Ty::Val(k) | Ty::OptVal(k) = site.params[p].ty {
            let has_params = g.params.contains_key(k) && !(if g.is_mask_kind(k) { g.mask_params(k, args.val_num(p, k)) } else { g.enum_params(k, args.val_num(p, k)) }).is_empty();
            let later_value = site.params[p + 1..].iter().enumerate().any(|(o, q)| match q.ty {
                Ty::Val(_) => true,
                Ty::OptVal(_) => args.opt_present(p + 1 + o),
                _ => false,
            });
            if has_params && later_value {
                out.outcome = "not-expressible";
                return out;
            }
        }
    }
    let block_ctx = needs_block(site) || cfg.in_block;
    let r = guarded(|| -> Result<(), (String, String)> {
        let mut b = Builder::new();
        if !cfg.version_late {
            b.set_version(1, 3);
        }
        for _ in 0..320 {
            b.id();
        }
        let explicit = b.id();
        assert_eq!(explicit, EXPLICIT);
        let (fid, fty, lid, rty) = (b.id(), b.id(), b.id(), b.id());
        // a 64-bit literal needs a declared 64-bit type in front of it to be grammar-conforming
        if let Some(rt) = site.params.iter().position(|p| p.name == "result_type") {
            if site.params.iter().any(|p| p.ty == Ty::U64) {
                b.type_int_id(Some(args.word(rt)), 64, 0);
            }
        }
        if let Some(w) = cfg.narrow {
            if site.name == "switch" {
                // selector: an OpUndef of a signed w-bit type at module scope
                let t = b.id();
                b.type_int_id(Some(t), w, 1);
                b.undef(t, Some(args.word(0)));
            } else if let Some(rt) = site.params.iter().position(|p| p.name == "result_type") {
                b.type_int_id(Some(args.word(rt)), w, 1);
            }
        }
        if block_ctx {
            if cfg.fn_kind == 4 || cfg.fn_kind == 5 {
                let f0 = b.id();
                b.begin_function(rty, Some(f0), spirv::FunctionControl::NONE, fty).map_err(|e| ("setup".to_string(), format!("{:?}", e)))?;
                let mut labels: Vec<u32> = vec![];
                if cfg.fn_kind == 4 {
                    for (i, p) in site.params.iter().enumerate() {
                        if p.ty == Ty::InsertPoint || is_result_id_param(p) {
                            continue;
                        }
                        for a in args.passed(i) {
                            if let Arg::IdRef(x) | Arg::IdScope(x) | Arg::IdMemSem(x) = a {
                                if !labels.contains(&x) {
                                    labels.push(x);
                                }
                            }
                        }
                    }
                }
                if labels.is_empty() {
                    labels.push(b.id());
                }
                for l in labels {
                    b.begin_block(Some(l)).map_err(|e| ("setup".to_string(), format!("{:?}", e)))?;
                    b.ret().map_err(|e| ("setup".to_string(), format!("{:?}", e)))?;
                }
                b.end_function().map_err(|e| ("setup".to_string(), format!("{:?}", e)))?;
                b.name(f0, "main");
                b.name(fid, "helper");
            }
            if cfg.fn_kind >= 1000 {
                let models = &g.enums["ExecutionModel"].variants;
                let m = models[(cfg.fn_kind - 1000) as usize % models.len()].1;
                if let Some(model) = spirv::ExecutionModel::from_u32(m) {
                    b.entry_point(model, fid, "main", vec![]);
                    b.execution_mode(fid, spirv::ExecutionMode::LocalSize, vec![1, 1, 1]);
                }
            }
            match cfg.fn_kind {
                1 => {
                    b.type_int_id(Some(rty), 32, 0);
                }
                6 => {
                    b.type_int_id(Some(rty), 32, 0);
                    b.type_function_id(Some(fty), rty, vec![]);
                }
                7 => {
                    b.type_void_id(Some(rty));
                    b.type_function_id(Some(fty), rty, vec![rty]);
                }
                2 => {
                    b.type_void_id(Some(rty));
                }
                _ => {}
            }
            b.begin_function(rty, Some(fid), spirv::FunctionControl::NONE, fty).map_err(|e| ("setup".to_string(), format!("{:?}", e)))?;
            if cfg.fn_kind == 3 {
                let l0 = b.id();
                b.begin_block(Some(l0)).map_err(|e| ("setup".to_string(), format!("{:?}", e)))?;
                b.ret().map_err(|e| ("setup".to_string(), format!("{:?}", e)))?;
                b.end_function().map_err(|e| ("setup".to_string(), format!("{:?}", e)))?;
                b.select_function(Some(0)).map_err(|e| ("setup".to_string(), format!("{:?}", e)))?;
            }
            if cfg.no_label {
                b.begin_block_no_label(Some(lid)).map_err(|e| ("setup".to_string(), format!("{:?}", e)))?;
            } else {
                b.begin_block(Some(lid)).map_err(|e| ("setup".to_string(), format!("{:?}", e)))?;
            }
            if cfg.two_blocks {
                // a second, complete block behind the first one; then back into the first
                b.ret().map_err(|e| ("setup".to_string(), format!("{:?}", e)))?;
                let l2 = b.id();
                b.begin_block(Some(l2)).map_err(|e| ("setup".to_string(), format!("{:?}", e)))?;
                b.ret().map_err(|e| ("setup".to_string(), format!("{:?}", e)))?;
                b.select_block(Some(0)).map_err(|e| ("setup".to_string(), format!("{:?}", e)))?;
                if !cfg.reselect_terminated {
                    b.pop_instruction().map_err(|e| ("setup".to_string(), format!("{:?}", e)))?;
                }
            }
            if cfg.ip.is_some() {
                for _ in 0..2 {
                    let uid = b.id();
                    b.undef(rty, Some(uid));
                }
            }
            match cfg.pred {
                1 => b.selection_merge(9001, spirv::SelectionControl::NONE).map_err(|e| ("setup".to_string(), format!("{:?}", e)))?,
                2 => b.loop_merge(9001, 9002, spirv::LoopControl::NONE, vec![]).map_err(|e| ("setup".to_string(), format!("{:?}", e)))?,
                3 => b.line(9003, 7, 8),
                4 => b.no_line(),
                _ => {}
            }
            if cfg.insert_begin {
                // an instruction no measured call can emit identically (its result id is one no call receives)
                let uid = b.id();
                b.undef(rty, Some(uid));
            }
            if cfg.reselect_terminated && !cfg.two_blocks {
                b.ret().map_err(|e| ("setup".to_string(), format!("{:?}", e)))?;
                b.select_block(Some(0)).map_err(|e| ("setup".to_string(), format!("{:?}", e)))?;
            }
        }
        if cfg.prior_identical {
            let mut first = args.clone();
            first.result_id = None;
            let _ = (site.call)(&mut b, &first);
            if block_ctx && b.selected_block().is_none() {
                // the first call was a terminator: open another block for the measured call
                let l2 = b.id();
                b.begin_block(Some(l2)).map_err(|e| ("setup".to_string(), format!("{:?}", e)))?;
            }
        }
        if block_ctx && cfg.fn_kind == 5 {
            // switch to the finished function by name while this function's block is open
            b.select_function_by_name("main").map_err(|e| ("setup".to_string(), format!("select_function_by_name: {:?}", e)))?;
            let before = snap(b.module_ref());
            let ret = (site.call)(&mut b, &args);
            let failed = matches!(ret, Out::ResWord(Err(_)) | Out::ResUnit(Err(_)));
            let fallible = matches!(ret, Out::ResWord(_) | Out::ResUnit(_));
            if fallible && needs_block(site) {
                let after = snap(b.module_ref());
                if !failed || after != before {
                    let gi = g.inst(site.opcode);
                    out.c16.push(viol(
                        format!("C16:builder-ends-block:after-switch-by-name:{}", if g.in_class("terminator", site.opcode) { "terminator" } else { "instruction" }),
                        format!("after select_function_by_name moved to a finished function (no block of it is open) Builder::{} (Op{}) {} and the module {}", site.name, gi.name, if failed { "failed" } else { "was accepted" }, if after != before { "changed: a block that is not under construction was extended / ended" } else { "did not change" }),
                        json!({"kind": "builder-call", "method": site.name}),
                    ));
                }
            }
            return Ok(());
        }
        let before = flatten(&snap(b.module_ref()));
        let ret = (site.call)(&mut b, &args);
        let (ok, ret_id) = match ret {
            Out::Unit => (true, None),
            Out::Word(w) => (true, Some(w)),
            Out::ResWord(Ok(w)) => (true, Some(w)),
            Out::ResUnit(Ok(())) => (true, None),
            Out::ResWord(Err(e)) | Out::ResUnit(Err(e)) => return Err(("call-failed".into(), format!("returned Err({}) in a context where the instruction is legal", e))),
        };
        let _ = ok;
        let gi = g.inst(site.opcode);
        let module_level_method = matches!(site.name, "capability" | "extension" | "ext_inst_import" | "memory_model" | "entry_point" | "execution_mode" | "execution_mode_id" | "decoration_group" | "string" | "type_forward_pointer" | "type_pointer" | "type_opaque" | "constant_bit32" | "constant_bit64" | "spec_constant_bit32" | "spec_constant_bit64")
            || matches!(site.file, "autogen_type.rs" | "autogen_constant.rs" | "autogen_annotation.rs" | "autogen_debug.rs");
        let in_blk = block_ctx && !module_level_method;
        // ---- C16 (Builder half), decided as soon as the call has returned (whatever else the call did): the block is
        //      ended exactly for the opcodes the terminator predicate accepts
        if in_blk {
            let op = spirv::Op::from_u32(gi.opcode as u32).unwrap();
            let is_term_pred = rspirv::grammar::reflect::is_block_terminator(op);
            let cleared = b.selected_block().is_none();
            if cleared != is_term_pred {
                out.c16.push(viol(
                    format!("C16:builder-ends-block:{}", site.opcode),
                    format!("Builder::{} {} the block but is_block_terminator(Op{}) = {} ({:?})", site.name, if cleared { "ends" } else { "does not end" }, site.opcode, is_term_pred, cfg),
                    json!({"kind": "builder-call", "method": site.name}),
                ));
            }
        }
        let after = flatten(&snap(b.module_ref()));
        // the emitted instruction: exactly one new instruction
        if after.len() != before.len() + 1 {
            return Err(("emitted-count".into(), format!("{} instructions before the call, {} after", before.len(), after.len())));
        }
        let pos = (0..before.len()).find(|&i| before[i] != after[i]).unwrap_or(before.len());
        let mut rest = after.clone();
        let (path, emitted) = rest.remove(pos);
        if rest != before {
            return Err(("emitted-count".into(), "the call changed more than one instruction".into()));
        }
        // expected instruction: the method's opcode, arguments in grammar order
        let mut passed: Vec<Arg> = vec![];
        let mut rtype = None;
        for (i, p) in site.params.iter().enumerate() {
            if p.ty == Ty::InsertPoint || is_result_id_param(p) {
                continue;
            }
            if p.name == "result_type" && gi.has_rtype() {
                rtype = Some(args.word(i));
                continue;
            }
            passed.extend(args.passed(i));
        }
        let exp_rid = if gi.has_rid() { if cfg.explicit_id && site.params.iter().any(is_result_id_param) { Some(EXPLICIT) } else { ret_id } } else { None };
        let expected = Inst { opcode: gi.opcode, rtype, rid: exp_rid, args: model::rekind_ids(gi.opcode, passed) };
        if emitted.opcode != expected.opcode {
            return Err(("opcode".into(), format!("emitted Op{}, the method's opcode is Op{}", emitted.name(), site.opcode)));
        }
        if emitted.rtype != expected.rtype || emitted.rid != expected.rid {
            return Err(("result".into(), format!("emitted result type/id {:?}/{:?}, the grammar and the call give {:?}/{:?} ({})", emitted.rtype, emitted.rid, expected.rtype, expected.rid, emitted.short())));
        }
        if emitted.args != expected.args {
            return Err(("operands".into(), format!("emitted {} ; the call's arguments in grammar order are {}", emitted.short(), expected.short())));
        }
        // the block that was selected when the measured call was made, and its length then (insertion at the end)
        let cur_block = if cfg.two_blocks || cfg.fn_kind == 4 { 0 } else { before.iter().filter(|x| x.0.ends_with(".label")).count().saturating_sub(1) };
        let want_path = if in_blk { format!("f{}.b{}", if cfg.fn_kind == 4 { 1 } else { 0 }, cur_block) } else { where_expected(site, false) };
        if path != want_path {
            return Err(("placement".into(), format!("emitted into {}, expected {}", path, want_path)));
        }
        if in_blk {
            let idx_in_block = after[..pos].iter().filter(|x| x.0 == want_path).count();
            let has_ip = site.params.iter().any(|p| p.ty == Ty::InsertPoint);
            let at_end = before.iter().filter(|x| x.0 == want_path).count();
            // InsertPoint::Begin: in front of the one instruction (OpUndef) the setup put into the block
            let want_idx = match (cfg.ip, has_ip) {
                (Some((true, k)), true) => k,
                (Some((false, k)), true) => at_end - k,
                _ => if cfg.insert_begin && has_ip { at_end - 1 } else { at_end },
            };
            if idx_in_block != want_idx {
                return Err(("placement".into(), format!("emitted at index {} of the block, expected {}", idx_in_block, want_idx)));
            }
        }
        // ---- C16 (Builder half): the block is ended exactly for the opcodes the terminator predicate accepts
        let mut recovered = false;
        if in_blk {
            let cleared = b.selected_block().is_none();
            // complete the history: each begun block is ended by a terminator call
            if cleared && !g.in_class("terminator", site.opcode) {
                b.select_block(Some(cur_block)).map_err(|e| ("setup".to_string(), format!("{:?}", e)))?;
                recovered = true;
            }
        }
        let _ = recovered;
        if b.selected_block().is_some() {
            b.ret().map_err(|e| ("setup".to_string(), format!("{:?}", e)))?;
        }
        // a terminator inserted in front of other instructions leaves a block the loader would split differently:
        // the round trip is only meaningful when the terminator is last
        let terminator_not_last = in_blk && (cfg.no_label || cfg.two_blocks || cfg.fn_kind == 3) || in_blk && cfg.ip.map_or(false, |(fb, k)| g.in_class("terminator", site.opcode) && site.params.iter().any(|p| p.ty == Ty::InsertPoint) && !(fb && k == 2 || !fb && k == 0)) || in_blk && cfg.reselect_terminated || in_blk && cfg.insert_begin && g.in_class("terminator", site.opcode) && site.params.iter().any(|p| p.ty == Ty::InsertPoint);
        if b.selected_function().is_some() {
            b.end_function().map_err(|e| ("setup".to_string(), format!("{:?}", e)))?;
        }
        if cfg.version_late {
            b.set_version(1, 3);
        }
        let m = b.module();
        let built = snap(&m);
        let h = m.header.clone().ok_or(("header".to_string(), "module() has no header".to_string()))?;
        if h.version() != (1, 3) {
            return Err(("version".into(), format!("version {:?}, set_version(1, 3) was called", h.version())));
        }
        if let Some(mx) = built.all_ids().into_iter().max() {
            if h.bound <= mx {
                return Err(("bound".into(), format!("bound {} does not exceed the largest id used {}", h.bound, mx)));
            }
        }
        if cfg.list_len > 10_000 {
            // not encodable: the round trip through the binary form is not defined for it
            return Ok(());
        }
        let words = m.assemble();
        if terminator_not_last {
            return Ok(());
        }
        match dr::load_words(&words) {
            Err(e) => return Err(("load-fails".into(), format!("the assembled module does not load: {} ({})", e, emitted.short()))),
            Ok(m2) => {
                let loaded = snap(&m2);
                if loaded != built {
                    let (a, b2) = (flatten(&built), flatten(&loaded));
                    let d = (0..a.len().min(b2.len())).find(|&i| a[i] != b2[i]);
                    return Err((
                        "roundtrip".into(),
                        match d {
                            Some(i) => format!("built [{}] {} ; loaded [{}] {}", a[i].0, a[i].1.short(), b2[i].0, b2[i].1.short()),
                            None => format!("built {} instructions, loaded {}", a.len(), b2.len()),
                        },
                    ));
                }
                if m2.header.as_ref().map(|x| (x.version, x.bound)) != Some((h.version, h.bound)) {
                    return Err(("header".into(), "loaded header differs in version/bound".into()));
                }
            }
        }
        Ok(())
    });
    match r {
        Err(p) => {
            out.viols.push(viol(format!("C06:{}:panic", site.name), format!("Builder::{} {}: panic {}", site.name, cfg_s, p), rep));
            out.outcome = "panic";
        }
        Ok(Err((what, why))) => {
            if what == "setup" {
                out.viols.push(viol(format!("C06:{}:setup", site.name), format!("Builder::{}: harness setup failed: {}", site.name, why), rep));
            } else {
                out.viols.push(viol(format!("C06:{}:{}", site.name, what), format!("Builder::{} {}: {}", site.name, cfg_s, why), rep));
            }
            out.outcome = "violation";
        }
        Ok(Ok(())) => {}
    }
    out
}

fn configs(site: &CallSite, tier: Tier) -> Vec<Cfg> {
    let base = Cfg { explicit_id: false, opt_upto: usize::MAX, list_len: 2, choice_at: None, in_block: false, insert_begin: false, version_late: false, prior_identical: false, reselect_terminated: false, narrow: None, ip: None, no_label: false, two_blocks: false, pred: 0, wide: false, suffix: 0, fn_kind: 0 };
    let mut v = vec![base.clone(), Cfg { version_late: true, ..base.clone() }];
    let has_id = site.params.iter().any(is_result_id_param);
    let has_ip = site.params.iter().any(|p| p.ty == Ty::InsertPoint);
    if has_id {
        v.push(Cfg { explicit_id: true, ..base.clone() });
        v.push(Cfg { explicit_id: true, prior_identical: true, ..base.clone() });
    }
    // optional trailing runs: every prefix of the optional parameters present
    let opt_pos: Vec<usize> = site.params.iter().enumerate().filter(|(_, p)| matches!(p.ty, Ty::OptWord | Ty::OptVal(_) | Ty::OptStr) && !is_result_id_param(p)).map(|(i, _)| i).collect();
    for (k, &p) in opt_pos.iter().enumerate() {
        let _ = k;
        v.push(Cfg { opt_upto: p, ..base.clone() });
    }
    if site.params.iter().any(|p| matches!(p.ty, Ty::Words | Ty::U32s | Ty::PairsWW | Ty::PairsWU | Ty::PairsOW)) {
        v.push(Cfg { list_len: 0, ..base.clone() });
        v.push(Cfg { list_len: 1, ..base.clone() });
        v.push(Cfg { list_len: 7, ..base.clone() });
        if needs_block(site) {
            // operand lists far beyond what one instruction can encode (the Builder builds data, it does not encode)
            v.push(Cfg { list_len: 70_000, ..base.clone() });
        }
    }
    if matches!(site.name, "variable" | "undef" | "line" | "no_line") {
        v.push(Cfg { in_block: true, ..base.clone() });
    }
    if matches!(site.name, "constant_bit32" | "spec_constant_bit32" | "switch") {
        for w in [8, 16, 32] {
            v.push(Cfg { narrow: Some(w), ..base.clone() });
        }
        if site.name == "switch" {
            // a 64-bit selector defined by an instruction that has no operands (OpUndef), 64-bit case literals
            v.push(Cfg { narrow: Some(64), ..base.clone() });
        }
    }
    if has_ip || needs_block(site) {
        v.push(Cfg { insert_begin: true, ..base.clone() });
        v.push(Cfg { reselect_terminated: true, ..base.clone() });
        v.push(Cfg { no_label: true, ..base.clone() });
        v.push(Cfg { two_blocks: true, ..base.clone() });
        v.push(Cfg { two_blocks: true, reselect_terminated: true, ..base.clone() });
    }
    if needs_block(site) {
        for fn_kind in 1..=7 {
            v.push(Cfg { fn_kind, ..base.clone() });
        }
        for pred in 1..=4 {
            v.push(Cfg { pred, ..base.clone() });
        }
        for k in 0..golden().enums["ExecutionModel"].variants.len() as u32 {
            v.push(Cfg { fn_kind: 1000 + k, ..base.clone() });
        }
    }
    if site.params.iter().any(|p| matches!(p.ty, Ty::Str | Ty::OptStr)) {
        v.push(Cfg { wide: true, ..base.clone() });
        for suffix in 1..SUFFIXES.len() as u8 {
            v.push(Cfg { suffix, ..base.clone() });
        }
    }
    if has_ip {
        for ip in [(true, 0), (true, 1), (true, 2), (false, 0), (false, 1), (false, 2)] {
            v.push(Cfg { ip: Some(ip), ..base.clone() });
        }
    }
    // every enumerant / mask variation of each value parameter, one position at a time (quick: a strided subset)
    for (i, p) in site.params.iter().enumerate() {
        let kind = match p.ty {
            Ty::Val(k) | Ty::OptVal(k) => k,
            _ => continue,
        };
        let n = Args::n_choices(kind);
        let stride = 1;
        let _ = tier;
        let mut c = 1;
        while c < n {
            // optionals after the varied position are absent, so that its parameters directly follow it
            v.push(Cfg { choice_at: Some((i, c)), opt_upto: i + 1, ..base.clone() });
            c += stride;
        }
    }
    v
}

// ------------------------------------------------------------------ part 2: complete histories

#[derive(Clone, Copy, Debug, PartialEq, Eq, Hash)]
enum HOp {
    Capability,
    ExtInstImport,
    MemoryModel,
    EntryPoint,
    ExecutionMode,
    DebugString,
    Name,
    ModuleProcessed,
    Decorate,
    TypeVoid,
    TypeInt64,
    Constant64,
    Variable,
    Line,
    NoLine,
    /// switch on the module-scope 64-bit constant with two 64-bit case literals
    Switch64,
    /// id(): reserve an id now ...
    ReserveId,
    /// ... and give it later to an OpUndef of the 64-bit type inside the open block
    UndefReserved,
    /// switch on that late-defined, low-numbered value
    SwitchReserved,
    BeginFunction,
    Parameter,
    BeginBlock,
    IAdd,
    Ret,
    Kill,
    EndFunction,
    SetVersion,
    /// select_function(None) while a function is open and no block is: the function stays unfinished for now
    SelectNone,
    /// select_function(Some(0)) / select_function(Some(last)): back into an earlier / the latest function
    SelectFirst,
    SelectLast,
    /// name(<id of the first / the last function>, "f"): two functions may carry the same name
    NameFirst,
    NameLast,
    /// select_function_by_name("f"): the function the FIRST such OpName targets (only when that function is still open)
    SelectByName,
    /// module() -> Builder::new_from_module: a second session on the same module (only with nothing selected)
    Continue,
}

const HOPS: [HOp; 34] = [
    HOp::Capability, HOp::ExtInstImport, HOp::MemoryModel, HOp::EntryPoint, HOp::ExecutionMode, HOp::DebugString, HOp::Name, HOp::ModuleProcessed,
    HOp::Decorate, HOp::TypeVoid, HOp::TypeInt64, HOp::Constant64, HOp::Variable, HOp::Line, HOp::NoLine, HOp::Switch64, HOp::ReserveId, HOp::UndefReserved, HOp::SwitchReserved, HOp::BeginFunction, HOp::Parameter, HOp::BeginBlock,
    HOp::IAdd, HOp::Ret, HOp::Kill, HOp::EndFunction, HOp::SetVersion, HOp::SelectNone, HOp::SelectFirst, HOp::SelectLast, HOp::NameFirst, HOp::NameLast, HOp::SelectByName, HOp::Continue,
];

/// applies one call; false = the call failed (state unchanged) or is not enabled
#[derive(Default)]
struct HState {
    /// id of the declared 64-bit int type
    t64: Option<u32>,
    /// id of the most recent 64-bit module-scope constant
    c64: Option<u32>,
    /// an id reserved with id() early and given to a 64-bit OpUndef later (a value whose id is smaller than ids defined before it)
    reserved: Option<u32>,
    late: Option<u32>,
    /// model of the function brackets: open[i] = function i has been begun and not ended; sel = the selected function
    open: Vec<bool>,
    sel: Option<usize>,
    /// function indices in the order in which they were given the name "f"
    named: Vec<usize>,
    continued: bool,
}

fn apply(b: &mut Builder, o: HOp, st: &mut HState) -> bool {
    let t64 = &mut st.t64;
    match o {
        HOp::Capability => b.capability(spirv::Capability::Shader),
        HOp::ExtInstImport => {
            b.ext_inst_import("GLSL.std.450");
        }
        HOp::MemoryModel => {
            if b.module_ref().memory_model.is_some() {
                return false; // a second OpMemoryModel replaces the first: not a new state worth exploring
            }
            b.memory_model(spirv::AddressingModel::Logical, spirv::MemoryModel::GLSL450)
        }
        HOp::EntryPoint => b.entry_point(spirv::ExecutionModel::Fragment, 5, "main", vec![6, 7]),
        HOp::ExecutionMode => b.execution_mode(5, spirv::ExecutionMode::LocalSize, vec![1, 2, 3]),
        HOp::DebugString => {
            b.string("file");
        }
        HOp::Name => b.name(5, "n"),
        HOp::ModuleProcessed => b.module_processed("p"),
        HOp::Decorate => b.decorate(5, spirv::Decoration::SpecId, vec![dr::Operand::LiteralBit32(9)]),
        HOp::TypeVoid => {
            b.type_void();
        }
        HOp::TypeInt64 => {
            *t64 = Some(b.type_int(64, 1));
        }
        HOp::Constant64 => match *t64 {
            Some(t) => {
                st.c64 = Some(b.constant_bit64(t, 0xFFFF_FFFF_0000_0001));
            }
            None => return false,
        },
        HOp::Variable => {
            b.variable(50, None, spirv::StorageClass::Private, None);
        }
        HOp::Line => {
            // with no block selected (even between two blocks of a function) the documentation sends it to
            // types_global_values: the built module then has it there, and so must the loaded one
            b.line(3, 1, 2)
        }
        HOp::NoLine => b.no_line(),
        HOp::Switch64 => match st.c64 {
            Some(c) => return b.switch(c, 60, vec![(dr::Operand::LiteralBit64(0x8000_0000_0000_0001), 61), (dr::Operand::LiteralBit64(2), 62)]).is_ok(),
            None => return false,
        },
        HOp::ReserveId => {
            if st.reserved.is_some() {
                return false;
            }
            st.reserved = Some(b.id());
        }
        HOp::UndefReserved => match (st.reserved, st.t64, st.late) {
            (Some(r), Some(t), None) if b.selected_block().is_some() => {
                b.undef(t, Some(r));
                st.late = Some(r);
            }
            _ => return false,
        },
        HOp::SwitchReserved => match st.late {
            Some(r) => return b.switch(r, 60, vec![(dr::Operand::LiteralBit64(0x8000_0000_0000_0003), 61), (dr::Operand::LiteralBit64(4), 62)]).is_ok(),
            None => return false,
        },
        HOp::SetVersion => {
            if b.version() == Some((1, 4)) {
                return false; // idempotent: not a new state
            }
            b.set_version(1, 4)
        }
        HOp::BeginFunction => {
            if b.begin_function(50, None, spirv::FunctionControl::INLINE, 51).is_err() {
                return false;
            }
            st.open.push(true);
            st.sel = Some(st.open.len() - 1);
        }
        HOp::NameFirst | HOp::NameLast => {
            let n = b.module_ref().functions.len();
            if n == 0 || st.named.len() >= 2 {
                return false;
            }
            let idx = if o == HOp::NameFirst { 0 } else { n - 1 };
            if st.named.contains(&idx) {
                return false;
            }
            let Some(id) = b.module_ref().functions[idx].def_id() else { return false };
            b.name(id, "f");
            st.named.push(idx);
        }
        HOp::SelectByName => {
            let Some(&idx) = st.named.first() else { return false };
            if b.selected_block().is_some() || b.selected_function() == Some(idx) || !st.open.get(idx).copied().unwrap_or(false) {
                return false;
            }
            if b.select_function_by_name("f").is_err() {
                return false;
            }
            st.sel = Some(idx);
        }
        HOp::Continue => {
            if st.continued || b.selected_function().is_some() || b.selected_block().is_some() || st.open.iter().any(|o| *o) {
                return false;
            }
            let old = std::mem::replace(b, Builder::new());
            *b = Builder::new_from_module(old.module());
            st.continued = true;
        }
        HOp::SelectNone => {
            if b.selected_function().is_none() || b.selected_block().is_some() {
                return false;
            }
            if b.select_function(None).is_err() {
                return false;
            }
            st.sel = None;
        }
        HOp::SelectFirst | HOp::SelectLast => {
            let n = b.module_ref().functions.len();
            if n == 0 || b.selected_block().is_some() {
                return false;
            }
            let idx = if o == HOp::SelectFirst { 0 } else { n - 1 };
            // only functions that are still open are re-entered (a finished function is not continued here)
            if b.selected_function() == Some(idx) || !st.open.get(idx).copied().unwrap_or(false) {
                return false;
            }
            if b.select_function(Some(idx)).is_err() {
                return false;
            }
            st.sel = Some(idx);
        }
        HOp::Parameter => {
            // parameters after the first block would be assembled before it: only before any block
            if b.selected_function().map_or(true, |f| !b.module_ref().functions[f].blocks.is_empty()) {
                return false;
            }
            return b.function_parameter(50).is_ok();
        }
        HOp::BeginBlock => return b.begin_block(None).is_ok(),
        HOp::IAdd => return b.i_add(50, None, 6, 7).is_ok(),
        HOp::Ret => return b.ret().is_ok(),
        HOp::Kill => return b.kill().is_ok(),
        HOp::EndFunction => {
            // a function is ended only when its last block is terminated (complete histories)
            if b.selected_block().is_some() {
                return false;
            }
            if b.end_function().is_err() {
                return false;
            }
            if let Some(i) = st.sel {
                st.open[i] = false;
            }
            st.sel = None;
        }
    }
    true
}

fn build(h: &[HOp]) -> Option<(Builder, HState)> {
    let mut b = Builder::new();
    let mut t64 = HState::default();
    for o in h {
        if !apply(&mut b, *o, &mut t64) {
            return None;
        }
    }
    Some((b, t64))
}

fn check_history(h: &[HOp]) -> (Option<Viol>, bool, Option<u64>) {
    let rep = json!({"kind": "builder-history", "history": h.iter().map(|o| format!("{:?}", o)).collect::<Vec<_>>()});
    let r = guarded(|| -> Result<(bool, Option<u64>), String> {
        let Some((b, st)) = build(h) else { return Ok((false, None)) };
        // complete: nothing selected AND (by the bracket model) every function that was begun has been ended
        let complete = b.selected_function().is_none() && b.selected_block().is_none() && st.open.iter().all(|o| !*o);
        use std::hash::{Hash, Hasher};
        let s = snap(b.module_ref());
        let mut hs = std::collections::hash_map::DefaultHasher::new();
        s.hash(&mut hs);
        (b.selected_function(), b.selected_block(), b.version(), &st.open, &st.named, st.continued, st.reserved).hash(&mut hs);
        // every result id of a module whose ids all came from the builder is carried by ONE instruction
        {
            let mut ids: Vec<u32> = b.module_ref().all_inst_iter().filter_map(|i| i.result_id).collect();
            let n = ids.len();
            ids.sort();
            ids.dedup();
            if ids.len() != n {
                return Err("duplicate-result-id: two instructions of the module under construction carry the same result id although every id was taken from the builder".to_string());
            }
            if let Some(r) = st.reserved {
                if st.late.is_none() && ids.contains(&r) {
                    return Err(format!("duplicate-result-id: the id {} reserved with id() was handed out again to an instruction", r));
                }
            }
        }
        let key = hs.finish();
        if !complete {
            return Ok((false, Some(key)));
        }
        let m = b.module();
        let built = snap(&m);
        let hd = m.header.clone().ok_or("no header")?;
        let want_version = if h.contains(&HOp::SetVersion) { (1, 4) } else { (spirv::MAJOR_VERSION, spirv::MINOR_VERSION) };
        if hd.version() != want_version {
            return Err(format!("version {:?} instead of {:?}", hd.version(), want_version));
        }
        if let Some(mx) = built.all_ids().into_iter().max() {
            if hd.bound <= mx {
                return Err(format!("bound {} does not exceed id {}", hd.bound, mx));
            }
        }
        let m2 = dr::load_words(m.assemble()).map_err(|e| format!("the assembled module does not load: {}", e))?;
        let loaded = snap(&m2);
        if loaded != built {
            return Err(format!("loaded module {} differs from the built one {}", loaded.brief(), built.brief()));
        }
        Ok((true, Some(key)))
    });
    match r {
        Err(p) => (Some(viol("C06:history:panic", format!("history {:?} panics: {}", h, p), rep)), false, None),
        Ok(Err(why)) => {
            let class = why.split(':').next().unwrap_or("").split(' ').take(4).collect::<Vec<_>>().join("-");
            (Some(viol(format!("C06:history:{}", class), format!("history {:?}: {}", h, why), rep)), false, None)
        }
        Ok(Ok((complete, key))) => (None, complete, key),
    }
}

fn histories(depth: usize, run: &mut Run) -> (u64, u64, u64) {
    histories_from(&[], depth, run)
}

/// the same closure started from a prebuilt history (a non-initial state)
fn histories_from(root: &[HOp], depth: usize, run: &mut Run) -> (u64, u64, u64) {
    // BFS closure on the full builder state; complete states go through assemble -> load
    let mut seen: HashSet<u64> = HashSet::new();
    let mut frontier: Vec<Vec<HOp>> = vec![root.to_vec()];
    let mut states = 0u64;
    let mut trans = 0u64;
    let mut complete = 0u64;
    for _d in 1..=depth {
        let res: Vec<(Vec<HOp>, (Option<Viol>, bool, Option<u64>))> = frontier
            .par_iter()
            .flat_map_iter(|h| {
                HOPS.iter().map(move |o| {
                    let mut h2 = h.clone();
                    h2.push(*o);
                    h2
                })
            })
            .map(|h2| {
                let r = check_history(&h2);
                (h2, r)
            })
            .collect();
        let mut next = vec![];
        for (h, (v, c, key)) in res {
            trans += 1;
            if let Some(v) = v {
                run.add(v);
                continue;
            }
            if let Some(k) = key {
                if seen.insert(k) {
                    states += 1;
                    if c {
                        complete += 1;
                    }
                    next.push(h);
                }
            }
        }
        frontier = next;
        if frontier.is_empty() {
            break;
        }
    }
    (states, trans, complete)
}

/// C12, per method: every instruction-emitting method that needs a block, called (a) with no function open and
/// (b) with a function open but no block selected, must return Err, leave every instruction of the module and the
/// selection exactly as they were, and not panic; module-level methods never fail and never touch the selection.
fn c12_sweep(sites: &[&CallSite]) -> (u64, Vec<Viol>) {
    let res: Vec<Vec<Viol>> = sites
        .par_iter()
        .map(|site| {
            let mut out = vec![];
            for ctx in 0..13 {
                // 0: nothing open; 1: function open, no block; 2: block open and then closed by a terminator;
                // 3: block open (holding one instruction): the call succeeds, appends exactly one instruction to that
                //    block, and closes the block iff the opcode is a block-termination instruction of the specification
                let mut args = Args::new(site.params);
                args.word_base = 1;
                args.word_step = 16;
                if ctx == 12 {
                    // context 12: as 3, with operand lists of 70 000 elements (only methods that take a list)
                    if !site.params.iter().any(|p| matches!(p.ty, Ty::Words | Ty::U32s | Ty::PairsWW | Ty::PairsWU | Ty::PairsOW)) {
                        continue;
                    }
                    args.list_len = 70_000;
                }
                let rep = json!({"kind": "builder-call", "method": site.name, "context": ctx});
                let r = guarded(|| -> Result<(), String> {
                    let mut b = Builder::new();
                    for _ in 0..320 {
                        b.id();
                    }
                    b.capability(spirv::Capability::Shader);
                    // contexts 8..11: as 3, but the function's result type and function type are DECLARED: the function
                    // returns a 32-bit int / void / a float / a bool (whether a block instruction or terminator is accepted
                    // depends on the selection only, never on what the function is declared to return)
                    match ctx {
                        8 => {
                            b.type_int_id(Some(1), 32, 0);
                        }
                        9 => {
                            b.type_void_id(Some(1));
                        }
                        10 => {
                            b.type_float_id(Some(1), 32, None);
                        }
                        11 => {
                            b.type_bool_id(Some(1));
                        }
                        _ => {}
                    }
                    if ctx >= 8 {
                        b.type_function_id(Some(2), 1, vec![]);
                    }
                    if ctx >= 1 {
                        b.begin_function(1, None, spirv::FunctionControl::NONE, 2).map_err(|e| format!("{:?}", e))?;
                    }
                    if ctx == 2 {
                        b.begin_block(None).map_err(|e| format!("{:?}", e))?;
                        b.nop().map_err(|e| format!("{:?}", e))?;
                        b.ret().map_err(|e| format!("{:?}", e))?;
                    }
                    if ctx >= 3 {
                        // contexts 3..7: the block's last instruction is OpNop / OpSelectionMerge / OpLoopMerge / OpLine / OpNoLine
                        b.begin_block(None).map_err(|e| format!("{:?}", e))?;
                        match ctx {
                            3 | 8..=12 => b.nop().map_err(|e| format!("{:?}", e))?,
                            4 => b.selection_merge(9001, spirv::SelectionControl::NONE).map_err(|e| format!("{:?}", e))?,
                            5 => b.loop_merge(9001, 9002, spirv::LoopControl::NONE, vec![]).map_err(|e| format!("{:?}", e))?,
                            6 => b.line(9003, 7, 8),
                            _ => b.no_line(),
                        }
                    }
                    let before = snap(b.module_ref());
                    let sel = (b.selected_function(), b.selected_block());
                    let ret = (site.call)(&mut b, &args);
                    let after = snap(b.module_ref());
                    let sel2 = (b.selected_function(), b.selected_block());
                    let failed = matches!(ret, Out::ResWord(Err(_)) | Out::ResUnit(Err(_)));
                    let fallible = matches!(ret, Out::ResWord(_) | Out::ResUnit(_));
                    if ctx >= 3 {
                        if !needs_block(site) {
                            if sel2 != sel {
                                return Err(format!("a module-level method changed the selection from {:?} to {:?}", sel, sel2));
                            }
                            return Ok(());
                        }
                        if failed {
                            return Err("returned Err although a block is selected".into());
                        }
                        let g = golden();
                        let (fb, fa) = (flatten(&before), flatten(&after));
                        let in_block = |v: &[(String, Inst)]| v.iter().filter(|x| x.0 == "f0.b0").count();
                        if fa.len() != fb.len() + 1 || in_block(&fa) != in_block(&fb) + 1 {
                            return Err(format!("did not append exactly one instruction to the selected block: {} -> {}", before.brief(), after.brief()));
                        }
                        let must = g.in_class("terminator", site.opcode);
                        let either = g.in_class("either", site.opcode);
                        let closed = sel2.1.is_none();
                        if sel2.0 != sel.0 {
                            return Err(format!("changed the selected function from {:?} to {:?}", sel.0, sel2.0));
                        }
                        if !either && closed != must {
                            return Err(format!("{} the block, but Op{} is {}a block-termination instruction", if closed { "closed" } else { "did not close" }, site.opcode, if must { "" } else { "not " }));
                        }
                        if !closed && sel2 != sel {
                            return Err(format!("changed the selection from {:?} to {:?}", sel, sel2));
                        }
                        return Ok(());
                    }
                    if needs_block(site) {
                        if !failed {
                            return Err(format!("returned Ok with no block selected (selection {:?})", sel));
                        }
                        if after != before {
                            return Err(format!("returned Err but the module changed: {} -> {}", before.brief(), after.brief()));
                        }
                        if sel2 != sel {
                            return Err(format!("returned Err but the selection changed from {:?} to {:?}", sel, sel2));
                        }
                    } else {
                        if fallible && failed {
                            return Err("a module-level method returned Err".into());
                        }
                        if sel2 != sel {
                            return Err(format!("a module-level method changed the selection from {:?} to {:?}", sel, sel2));
                        }
                        if flatten(&after).len() != flatten(&before).len() + 1 && !matches!(site.name, "memory_model") {
                            return Err(format!("a module-level method emitted {} instructions", flatten(&after).len() as i64 - flatten(&before).len() as i64));
                        }
                    }
                    Ok(())
                });
                match r {
                    Err(p) => out.push(viol(format!("C12:method-panic:{}", site.name), format!("Builder::{} with no block selected (context {}) panics: {}", site.name, ctx, p), rep)),
                    Ok(Err(why)) => out.push(viol(format!("C12:method:{}", site.name), format!("Builder::{} (context {}): {}", site.name, ctx, why), rep)),
                    Ok(Ok(())) => {}
                }
            }
            out
        })
        .collect();
    let mut all = vec![];
    for v in res {
        all.extend(v);
    }
    (sites.len() as u64 * 13, all)
}

fn main() {
    let args: Vec<String> = std::env::args().collect();
    let mode = args.get(1).map(|s| s.as_str()).unwrap_or("C06");
    let tier = if args.iter().any(|a| a == "thorough") || std::env::var("VERIF_TIER").as_deref() == Ok("thorough") && !args.iter().any(|a| a == "quick") { Tier::Thorough } else { Tier::Quick };
    install_panic_hook();
    let sites: Vec<&CallSite> = gen::CALLS.iter().filter(|s| !STRUCTURAL.contains(&s.name)).collect();
    if mode == "--replay" {
        // vcalls --replay <file>: re-executes one builder-call / builder-history artefact, twice
        let doc: serde_json::Value = serde_json::from_str(&std::fs::read_to_string(&args[2]).expect("replay file")).expect("json");
        println!("key:      {}\nrecorded: {}", doc["key"], doc["what"]);
        let r = &doc["replay"];
        let run_once = || -> Option<Vec<String>> {
            if r["kind"] == "builder-call" {
                let site = gen::CALLS.iter().find(|s| s.name == r["method"].as_str().unwrap_or(""))?;
                let c = &r["cfg"];
                let cfg = Cfg {
                    explicit_id: c["explicit_id"].as_bool()?,
                    opt_upto: match c["opt_upto"].as_i64()? { -1 => usize::MAX, x => x as usize },
                    list_len: c["list_len"].as_u64()? as usize,
                    choice_at: c["choice_at"].as_array().map(|a| (a[0].as_u64().unwrap() as usize, a[1].as_u64().unwrap() as usize)),
                    in_block: c["in_block"].as_bool()?,
                    insert_begin: c["insert_begin"].as_bool()?,
                    version_late: c["version_late"].as_bool()?,
                    prior_identical: c["prior_identical"].as_bool()?,
                    reselect_terminated: c["reselect_terminated"].as_bool().unwrap_or(false),
                    narrow: c["narrow"].as_u64().map(|x| x as u32),
                    ip: c["ip"].as_array().and_then(|a| Some((a.first()?.as_bool()?, a.get(1)?.as_u64()? as usize))),
                    no_label: c["no_label"].as_bool().unwrap_or(false),
                    two_blocks: c["two_blocks"].as_bool().unwrap_or(false),
                    pred: c["pred"].as_u64().unwrap_or(0) as u8,
                    wide: c["wide"].as_bool().unwrap_or(false),
                    suffix: c["suffix"].as_u64().unwrap_or(0) as u8,
                    fn_kind: c["fn_kind"].as_u64().unwrap_or(0) as u32,
                };
                let res = check_site(site, &cfg);
                Some(res.viols.iter().chain(res.c16.iter()).map(|v| v.what.clone()).collect())
            } else if r["kind"] == "builder-history" {
                let h: Option<Vec<HOp>> = r["history"].as_array()?.iter().map(|x| HOPS.iter().copied().find(|o| format!("{:?}", o) == x.as_str().unwrap_or(""))).collect();
                let (v, _, _) = check_history(&h?);
                Some(v.into_iter().map(|v| v.what).collect())
            } else {
                None
            }
        };
        let (a, b) = (run_once(), run_once());
        match (a, b) {
            (Some(x), Some(y)) if x == y => {
                if x.is_empty() {
                    println!("=> no violation on the current tree");
                    std::process::exit(0)
                }
                for l in &x {
                    println!("observed: {}", l);
                }
                println!("=> the violation REPRODUCES");
                std::process::exit(1)
            }
            (Some(_), Some(_)) => {
                println!("MACHINERY-ERROR: two executions of the same artefact differ");
                std::process::exit(2)
            }
            _ => {
                println!("replay payload: {}\n(no dedicated re-executor for this kind)", r);
                std::process::exit(2)
            }
        }
    }
    if mode == "--c12" {
        let (n, vs) = c12_sweep(&sites);
        let mut seen = HashSet::new();
        let arr: Vec<_> = vs.iter().filter(|v| seen.insert(v.key.clone())).map(|v| json!({"key": v.key, "what": v.what, "replay": v.replay})).collect();
        println!("{}", json!({"methods": sites.len(), "calls": n, "violations": arr}));
        return;
    }
    let work: Vec<(&CallSite, Cfg)> = sites.iter().flat_map(|s| configs(s, tier).into_iter().map(move |c| (*s, c))).collect();
    let res: Vec<SiteResult> = work.par_iter().map(|(s, c)| check_site(s, c)).collect();
    if mode == "--c16" {
        // machine-readable output for vcheck C16
        let mut vs = vec![];
        let mut seen = HashSet::new();
        for ((site, _cfg), r) in work.iter().zip(res.iter()) {
            for v in &r.c16 {
                if seen.insert(v.key.clone()) {
                    vs.push(json!({"key": v.key, "what": v.what, "replay": v.replay}));
                }
            }
            // a termination instruction that is refused, put into another block or not emitted did not END the block it
            // was called on either
            if golden().in_class("terminator", site.opcode) {
                for v in &r.viols {
                    let class = v.key.rsplit(':').next().unwrap_or("");
                    if matches!(class, "placement" | "call-failed" | "emitted-count") {
                        let key = format!("C16:builder-ends-block:{}:{}", site.opcode, class);
                        if seen.insert(key.clone()) {
                            vs.push(json!({"key": key, "what": format!("(a termination instruction must end the block it is called on) {}", v.what), "replay": v.replay}));
                        }
                    }
                }
            }
        }
        println!("{}", json!({"methods": sites.len(), "calls": work.len(), "violations": vs}));
        return;
    }
    let mut run = Run::new("C06", tier, "exploration");
    let mut oc: BTreeMap<&'static str, u64> = BTreeMap::new();
    for r in res {
        run.add_all(r.viols);
        *oc.entry(r.outcome).or_insert(0) += 1;
    }
    for (k, n) in oc {
        run.outcome(k, n);
    }
    let (mut states, mut trans, mut complete) = histories(tier.pick(6, 7), &mut run);
    // non-initial states: a module that already has a 64-bit type, a 64-bit constant and one complete function (and a
    // reserved id); every continuation of depth 5 / 6
    for root in [
        vec![HOp::TypeInt64, HOp::Constant64, HOp::BeginFunction, HOp::BeginBlock, HOp::Ret, HOp::EndFunction],
        vec![HOp::TypeInt64, HOp::ReserveId, HOp::Constant64, HOp::BeginFunction, HOp::BeginBlock, HOp::IAdd, HOp::IAdd],
        vec![HOp::TypeInt64, HOp::Constant64, HOp::BeginFunction, HOp::BeginBlock, HOp::Ret, HOp::EndFunction, HOp::BeginFunction, HOp::BeginBlock],
        // two sessions: an id reserved at the end of the first, then new_from_module
        vec![HOp::TypeInt64, HOp::ReserveId, HOp::Continue],
        // two open functions carrying the same name, given last-first
        vec![HOp::BeginFunction, HOp::SelectNone, HOp::BeginFunction, HOp::SelectNone, HOp::NameLast, HOp::NameFirst],
        // headers first, bodies later: two functions begun one after the other, neither ended yet
        vec![HOp::BeginFunction, HOp::SelectNone, HOp::BeginFunction],
        vec![HOp::BeginFunction, HOp::Parameter, HOp::SelectNone, HOp::BeginFunction, HOp::SelectNone, HOp::BeginFunction],
    ] {
        let (s2, t2, c2) = histories_from(&root, tier.pick(5, 6), &mut run);
        states += s2;
        trans += t2;
        complete += c2;
    }
    // ---- extended instructions through imports: for every set name (the two sets the grammar knows, non-semantic and
    //      debug-info sets, prefixes of them, an unknown one) x every instruction number 0..=210 (+ extremes) x operand
    //      lists of 0 / 5 small / 6 larger ids: import, second import, function, block, ext_inst, ret -> assemble -> load ->
    //      the same module, the instruction in the same block with the same operands
    {
        let names = ["OpenCL.std", "GLSL.std.450", "NonSemantic.Shader.DebugInfo.100", "NonSemantic.Shader.DebugInfo.", "NonSemantic.DebugPrintf", "OpenCL.DebugInfo.100", "DebugInfo", "NonSemantic.", "x", ""];
        let work2: Vec<(usize, u32, usize)> = (0..names.len()).flat_map(|ni| (0..=210u32).chain([255, 256, 1000, 0x7FFF_FFFF, 0xFFFF_FFFF]).flat_map(move |n| (0..3usize).map(move |v| (ni, n, v)))).collect();
        let res2: Vec<Option<Viol>> = work2
            .par_iter()
            .map(|&(ni, n, v)| {
                let rep = json!({"kind": "builder-ext-inst", "set": names[ni], "number": n, "operands": v});
                let r = guarded(|| -> Result<(), String> {
                    let mut b = Builder::new();
                    b.set_version(1, 5);
                    b.capability(spirv::Capability::Shader);
                    let other = b.ext_inst_import(if ni == 0 { "GLSL.std.450" } else { "OpenCL.std" });
                    let set = b.ext_inst_import(names[ni]);
                    b.memory_model(spirv::AddressingModel::Logical, spirv::MemoryModel::GLSL450);
                    let void = b.type_void();
                    let fty = b.type_function(void, vec![]);
                    b.begin_function(void, None, spirv::FunctionControl::NONE, fty).map_err(|e| format!("{:?}", e))?;
                    b.begin_block(None).map_err(|e| format!("{:?}", e))?;
                    let ops: Vec<dr::Operand> = match v {
                        0 => vec![],
                        1 => (1..=5u32).map(dr::Operand::IdRef).collect(),
                        _ => (0..6u32).map(|k| dr::Operand::IdRef(set + 9 + k)).collect(),
                    };
                    b.ext_inst(void, None, set, n, ops.clone()).map_err(|e| format!("{:?}", e))?;
                    b.ext_inst(void, None, other, n, ops).map_err(|e| format!("{:?}", e))?;
                    b.ret().map_err(|e| format!("{:?}", e))?;
                    b.end_function().map_err(|e| format!("{:?}", e))?;
                    let m = b.module();
                    let built = snap(&m);
                    let m2 = dr::load_words(m.assemble()).map_err(|e| format!("the assembled module does not load: {}", e))?;
                    let loaded = snap(&m2);
                    if loaded != built {
                        return Err(format!("loaded module {} differs from the built one {}", loaded.brief(), built.brief()));
                    }
                    Ok(())
                });
                match r {
                    Err(p) => Some(viol("C06:ext-inst:panic", format!("ext_inst {} of set {:?}: panic {}", n, names[ni], p), rep)),
                    Ok(Err(why)) => Some(viol(format!("C06:ext-inst:{}", why.split(':').next().unwrap_or("").split(' ').take(4).collect::<Vec<_>>().join("-")), format!("ext_inst number {} on an import of {:?} with operand list {}: {}", n, names[ni], v, why), rep)),
                    Ok(Ok(())) => None,
                }
            })
            .collect();
        run.outcome("ext_inst_through_imports", work2.len() as u64);
        for v in res2.into_iter().flatten() {
            run.add(v);
        }
    }
    run.outcome("history_states", states);
    run.outcome("complete_histories_roundtripped", complete);
    run.set("evaluations", json!(work.len() as u64 + trans));
    run.set("distinct_nontrivial", json!(work.len() as u64 + complete));
    run.set("methods", json!(sites.len()));
    run.set("rule", json!("part 1: one frozen call site per public instruction-emitting Builder method (1149 of 1153; the 4 structural ones are driven by part 2), each called in its legal context with positional arguments all distinct, for: implicit and explicit result id, every trailing run of optional parameters, list lengths 0/1/2, insertion at the beginning, module-level and in-block placement where both exist, every enumerant / mask value of each value parameter with its grammar parameters; the emitted instruction must have the method's opcode, result type/id and the arguments in grammar order, sit in the right section, and the finished module must assemble, load and compare equal operand for operand, with the version set and a bound above every id. part 2: BFS closure over 21 Builder calls to depth d, every complete state through assemble -> load -> compare. non-trivial = call configurations + complete histories"));
    run.set("exhaustive", json!(true));
    run.set("bounds", json!({"call_configurations": work.len(), "history_depth": tier.pick(6, 7), "history_alphabet": HOPS.len(), "history_states": states, "history_transitions": trans}));
    run.set("samples", json!(work.iter().step_by(work.len() / 5 + 1).map(|(s, c)| json!({"method": s.name, "config": format!("{:?}", c)})).collect::<Vec<_>>()));
    run.assume("arguments conforming to the grammar: optionals only as a trailing run, parameters of a parameterised enumerant with the kinds the golden lists, strings without NUL, a nested OpSpecConstantOp opcode without operands");
    run.require_outcome("checked");
    run.require_outcome("complete_histories_roundtripped");
    let _: Option<&P> = None;
    std::process::exit(run.finish());
}
