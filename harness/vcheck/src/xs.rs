//! `xs` — explicit-state explorer over REAL objects.
//!
//! A state is the history that reaches it (nothing in rspirv that matters is Clone); a successor is
//! produced by replaying `history + op` on a fresh real object in lock-step with a reference model.
//! Two modes, both exhaustive within their bound and both deterministic (shortlex order, results merged
//! in index order):
//!   (a) `enumerate`: every operation sequence up to depth d — no abstraction at all;
//!   (b) `closure`:   breadth-first closure on a canonical key up to depth D / a state cap.
use crate::report::Viol;
use rayon::prelude::*;
use std::collections::{BTreeMap, HashSet};

const CHUNK: usize = 20_000;

pub struct Step {
    /// canonical key of the state reached; None = do not expand (the run hit a violation that ends the history)
    pub key: Option<String>,
    pub viols: Vec<Viol>,
    pub outcomes: Vec<String>,
}

#[derive(Default, Debug)]
pub struct Stats {
    pub states: u64,
    pub transitions: u64,
    pub histories_replayed: u64,
    pub max_depth: usize,
    pub depth_completed: usize,
    pub caps_hit: Vec<String>,
    pub viols: Vec<Viol>,
    pub outcomes: BTreeMap<String, u64>,
    pub sample_histories: Vec<String>,
    pub per_depth_states: Vec<u64>,
}

impl Stats {
    fn absorb(&mut self, s: Step) -> Option<String> {
        for o in s.outcomes {
            *self.outcomes.entry(o).or_insert(0) += 1;
        }
        // keep the first (shortlex-least) instance of each key only
        for v in s.viols {
            if !self.viols.iter().any(|x| x.key == v.key) {
                self.viols.push(v);
            }
        }
        s.key
    }
}

/// (a) full enumeration of every sequence over `alphabet` of length 1..=depth (plus the empty one).
pub fn enumerate<O: Clone + Send + Sync + std::fmt::Debug>(
    alphabet: &[O],
    depth: usize,
    run: &(dyn Fn(&[O]) -> Step + Sync),
) -> Stats {
    let mut st = Stats::default();
    let mut keys: HashSet<String> = HashSet::new();
    let root = run(&[]);
    st.histories_replayed += 1;
    if let Some(k) = st.absorb(root) {
        keys.insert(k);
    }
    // frontier = all live histories of the previous length
    let mut frontier: Vec<Vec<u8>> = vec![vec![]];
    for d in 1..=depth {
        let mut next = vec![];
        for chunk in frontier.chunks(CHUNK) {
            let results: Vec<(Vec<u8>, Step)> = chunk
                .par_iter()
                .flat_map_iter(|h| {
                    (0..alphabet.len()).map(move |a| {
                        let mut h2 = h.clone();
                        h2.push(a as u8);
                        h2
                    })
                })
                .map(|h2| {
                    let ops: Vec<O> = h2.iter().map(|&i| alphabet[i as usize].clone()).collect();
                    let s = run(&ops);
                    (h2, s)
                })
                .collect();
            for (h, s) in results {
                st.transitions += 1;
                st.histories_replayed += 1;
                if st.sample_histories.len() < 3 || (d == depth && st.sample_histories.len() < 6) {
                    st.sample_histories.push(format!("{:?}", h.iter().map(|&i| &alphabet[i as usize]).collect::<Vec<_>>()));
                }
                if let Some(k) = st.absorb(s) {
                    keys.insert(k);
                    if d < depth {
                        next.push(h);
                    }
                }
            }
        }
        st.max_depth = d;
        st.depth_completed = d;
        st.per_depth_states.push(keys.len() as u64);
        frontier = next;
        if frontier.is_empty() {
            break;
        }
    }
    st.states = keys.len() as u64;
    st
}

/// (b) breadth-first closure on the canonical key.
pub fn closure<O: Clone + Send + Sync + std::fmt::Debug>(
    alphabet: &[O],
    max_depth: usize,
    state_cap: usize,
    run: &(dyn Fn(&[O]) -> Step + Sync),
) -> Stats {
    let mut st = Stats::default();
    let mut seen: HashSet<String> = HashSet::new();
    let root = run(&[]);
    st.histories_replayed += 1;
    let mut frontier: Vec<Vec<u8>> = vec![];
    if let Some(k) = st.absorb(root) {
        seen.insert(k);
        frontier.push(vec![]);
    }
    for d in 1..=max_depth {
        let mut next = vec![];
        for chunk in frontier.chunks(CHUNK) {
            let results: Vec<(Vec<u8>, Step)> = chunk
                .par_iter()
                .flat_map_iter(|h| {
                    (0..alphabet.len()).map(move |a| {
                        let mut h2 = h.clone();
                        h2.push(a as u8);
                        h2
                    })
                })
                .map(|h2| {
                    let ops: Vec<O> = h2.iter().map(|&i| alphabet[i as usize].clone()).collect();
                    let s = run(&ops);
                    (h2, s)
                })
                .collect();
            for (h, s) in results {
                st.transitions += 1;
                st.histories_replayed += 1;
                if let Some(k) = st.absorb(s) {
                    if !seen.contains(&k) {
                        if seen.len() >= state_cap {
                            if st.caps_hit.is_empty() {
                                st.caps_hit.push(format!("state cap {} reached at depth {}", state_cap, d));
                            }
                            continue;
                        }
                        seen.insert(k);
                        if st.sample_histories.len() < 3 || d == max_depth && st.sample_histories.len() < 6 {
                            st.sample_histories.push(format!("{:?}", h.iter().map(|&i| &alphabet[i as usize]).collect::<Vec<_>>()));
                        }
                        next.push(h);
                    }
                }
            }
        }
        st.max_depth = d;
        st.per_depth_states.push(seen.len() as u64);
        if st.caps_hit.is_empty() {
            st.depth_completed = d;
        }
        frontier = next;
        if frontier.is_empty() {
            // fixpoint: the closure is complete at ANY depth
            st.depth_completed = usize::MAX;
            break;
        }
    }
    st.states = seen.len() as u64;
    st
}

#[cfg(test)]
mod tests {
    use super::*;
    use crate::report::viol;
    use serde_json::json;

    /// toy: a counter mod 5 with ops +1 / +2 and a planted bug when the history is exactly [+2,+2,+1,+2]
    fn toy(h: &[u8]) -> Step {
        let mut v = vec![];
        if h == [2, 2, 1, 2] {
            v.push(viol("toy:bug", "planted", json!(null)));
        }
        let s: u32 = h.iter().map(|&x| x as u32).sum();
        Step { key: Some(format!("{}", s % 5)), viols: v, outcomes: vec![] }
    }

    #[test]
    fn enumeration_finds_planted_bug_at_its_depth() {
        let st = enumerate(&[1u8, 2u8], 3, &toy);
        assert!(st.viols.is_empty());
        let st = enumerate(&[1u8, 2u8], 4, &toy);
        assert_eq!(st.viols.len(), 1);
        assert_eq!(st.transitions, 2 + 4 + 8 + 16);
        assert_eq!(st.states, 5);
    }

    #[test]
    fn closure_and_enumeration_agree_on_reachable_states() {
        let a = enumerate(&[1u8, 2u8], 6, &toy);
        let b = closure(&[1u8, 2u8], 6, 1000, &toy);
        assert_eq!(a.states, b.states);
        assert_eq!(b.depth_completed, usize::MAX); // fixpoint
    }
}
