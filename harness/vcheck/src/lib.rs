//! Verification harness for gfx-rs/rspirv (model-checking family): see /verif/DESIGN.md.
include!("../../../reference/gen_types.rs");
pub mod golden;
pub mod model;
pub mod report;
pub mod util;
pub mod callargs;
pub mod bsys;
pub mod universe;
pub mod acceptor;
pub mod mutate;
pub mod pcompare;
pub mod disasm_ref;
pub mod xs;
pub mod checks;
pub mod replay;
