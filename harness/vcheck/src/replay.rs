//! `vcheck <Cxx> --replay <file>`: re-executes one artefact without any explorer and prints what is observed.
use serde_json::Value;

pub fn replay(prop: &str, path: &str) -> i32 {
    let s = match std::fs::read_to_string(path) {
        Ok(s) => s,
        Err(e) => {
            eprintln!("cannot read {}: {}", path, e);
            return 2;
        }
    };
    let doc: Value = serde_json::from_str(&s).expect("replay file is JSON");
    println!("property: {}", doc["property"]);
    println!("key:      {}", doc["key"]);
    println!("what:     {}", doc["what"]);
    let r = &doc["replay"];
    let kind = r["kind"].as_str().unwrap_or("");
    let _ = prop;
    match kind {
        _ => {
            println!("replay payload: {}", r);
            println!("(no dedicated re-executor for kind {:?}; the payload above names the exact input)", kind);
        }
    }
    0
}
