//! `vcheck <Cxx> --replay <file>`: re-executes one artefact WITHOUT any explorer, twice, and prints what is observed.
//! Exit 1 if the violation reproduces, 0 if the artefact no longer violates, 2 if the two executions differ
//! (uncontrolled nondeterminism: a machinery error) or the artefact kind has no dedicated re-executor.
use crate::bsys::{self, BOp, Ip};
use crate::checks::{c11, c19};
use crate::model;
use crate::pcompare;
use crate::report::{guarded, unhex};
use rspirv::binary::{Assemble, Disassemble};
use serde_json::Value;

fn words_of(r: &Value) -> Option<Vec<u8>> {
    if let Some(h) = r["bytes"].as_str() {
        return Some(unhex(h));
    }
    if let Some(ws) = r["words"].as_array() {
        let w: Vec<u32> = ws.iter().map(|x| x.as_u64().unwrap_or(0) as u32).collect();
        return Some(model::words_to_bytes(&w));
    }
    None
}

/// everything observable about one binary, as text
fn observe_bytes(prop: &str, bytes: &[u8]) -> (String, bool) {
    let mut out = String::new();
    let mut bad = false;
    let o = pcompare::compare(bytes);
    out += &format!("parser vs reference acceptor: {}\n", match &o.disagreement { None => format!("agree ({})", o.label), Some((c, d)) => { bad = true; format!("DISAGREE [{}] {}", c, d) } });
    match guarded(|| rspirv::dr::load_bytes(bytes)) {
        Err(p) => {
            bad = true;
            out += &format!("load_bytes: PANIC {}\n", p)
        }
        Ok(Err(e)) => out += &format!("load_bytes: Err({})\n", e),
        Ok(Ok(m)) => {
            out += "load_bytes: Ok\n";
            match guarded(|| (m.assemble(), m.disassemble())) {
                Err(p) => {
                    bad = true;
                    out += &format!("assemble/disassemble: PANIC {}\n", p)
                }
                Ok((a, d)) => {
                    out += &format!("assemble: {} words\ndisassemble:\n{}\n", a.len(), d);
                    let input: Vec<u32> = bytes.chunks_exact(4).map(|c| u32::from_le_bytes([c[0], c[1], c[2], c[3]])).collect();
                    if input.len() > 5 && a.len() > 5 && input[5..] != a[5..] {
                        out += "note: assembled body differs from the input body (legitimate if the input was not in layout order)\n";
                    }
                    // C01: loading the output again gives an equal module
                    match guarded(|| rspirv::dr::load_words(&a)) {
                        Ok(Ok(m2)) => {
                            if crate::bsys::snap(&m2) == crate::bsys::snap(&m) {
                                out += "reload of the assembled output: equal module\n"
                            } else {
                                out += "reload of the assembled output: a DIFFERENT module\n";
                                bad |= prop == "C01";
                            }
                        }
                        Ok(Err(e)) => {
                            out += &format!("reload of the assembled output FAILS: {}\n", e);
                            bad |= prop == "C01";
                        }
                        Err(p) => {
                            out += &format!("reload of the assembled output PANICS: {}\n", p);
                            bad = true;
                        }
                    }
                    match crate::disasm_ref::read(&d) {
                        Ok(w) if a.len() >= 5 && w == a[5..] => out += "reference reader: reads back to the assembled stream\n",
                        Ok(_) => out += "reference reader: reads back to DIFFERENT words\n",
                        Err(e) => out += &format!("reference reader: {}\n", e),
                    }
                }
            }
        }
    }
    (out, bad)
}

fn parse_req(s: &str) -> Option<c11::Req> {
    Some(match s {
        "word" => c11::Req::Word,
        "string" => c11::Req::Str,
        "bit32" => c11::Req::Bit32,
        "bit64" => c11::Req::Bit64,
        "id" => c11::Req::Id,
        "ext_inst_integer" => c11::Req::ExtInst,
        "source_language" => c11::Req::SourceLanguage,
        "memory_access" => c11::Req::MemoryAccess,
        "clear_limit" => c11::Req::ClearLimit,
        "words(MAX)" => c11::Req::Words(usize::MAX),
        "set_limit(MAX)" => c11::Req::SetLimit(usize::MAX),
        "words(MAX/4)" => c11::Req::Words(usize::MAX / 4),
        "words(MAX/4-1)" => c11::Req::Words(usize::MAX / 4 - 1),
        x if x.starts_with("words(") => c11::Req::Words(x[6..x.len() - 1].parse().ok()?),
        x if x.starts_with("set_limit(") => c11::Req::SetLimit(x[10..x.len() - 1].parse().ok()?),
        _ => return None,
    })
}

fn known_bops() -> Vec<BOp> {
    let mut v = crate::checks::c12::alphabet();
    v.extend([BOp::Reload, BOp::Id, BOp::ExtInst, BOp::ExtInstExplicit(2), BOp::IAddExplicit(2), BOp::BeginBlockId(3), BOp::InsertRet(Ip::FromBegin1), BOp::InsertRet(Ip::FromEnd1)]);
    for e in [None, Some(2u32), Some(40)] {
        for k in 0..4 {
            v.push(BOp::TypePointer(e, k));
        }
    }
    for (si, _) in bsys::type_calls().iter().enumerate() {
        for e in [None, Some(1u32), Some(41), Some(77)] {
            for k in 0..2 {
                v.push(BOp::TypeCall(si, e, k));
            }
        }
    }
    v
}

pub fn replay(prop: &str, path: &str) -> i32 {
    let s = match std::fs::read_to_string(path) {
        Ok(s) => s,
        Err(e) => {
            eprintln!("cannot read {}: {}", path, e);
            return 2;
        }
    };
    let doc: Value = serde_json::from_str(&s).expect("replay file is JSON");
    println!("property: {}", doc["property"]);
    println!("key:      {}", doc["key"]);
    println!("recorded: {}", doc["what"]);
    let r = &doc["replay"];
    let kind = r["kind"].as_str().unwrap_or("");
    let run_once = || -> Option<(String, bool)> {
        match kind {
            "bytes" | "words" | "c02" | "loader-seq" => {
                let bytes = if kind == "c02" {
                    let mut w = model::header(0x0001_0600, 0, 4096);
                    w.extend(r["reference_words"].as_array()?.iter().map(|x| x.as_u64().unwrap_or(0) as u32));
                    model::words_to_bytes(&w)
                } else {
                    words_of(r)?
                };
                Some(observe_bytes(prop, &bytes))
            }
            "c11" => {
                let buf = unhex(r["buffer"].as_str()?);
                let reqs: Option<Vec<c11::Req>> = r["requests"].as_str()?.split(',').filter(|x| !x.is_empty()).map(parse_req).collect();
                let st = c11::run_hist(&buf, &reqs?);
                let bad = !st.viols.is_empty();
                Some((st.viols.iter().map(|v| v.what.clone()).collect::<Vec<_>>().join("\n") + if bad { "" } else { "decoder agrees with the reference model on this request sequence" }, bad))
            }
            "builder" => {
                let known = known_bops();
                let h: Option<Vec<BOp>> = r["history"].as_array()?.iter().map(|x| known.iter().find(|k| bsys::op_str(k) == x.as_str().unwrap_or("")).cloned()).collect();
                let h = h?;
                let st = bsys::to_step(prop, &h, bsys::replay(&h));
                let bad = !st.viols.is_empty();
                Some((st.viols.iter().map(|v| v.what.clone()).collect::<Vec<_>>().join("\n") + if bad { "" } else { "Builder agrees with the reference model on this history" }, bad))
            }
            "c19" => {
                let _ = c19::run; // the history string is self-describing; re-run through the check's own executor
                None
            }
            "c10-pair" => {
                let a = unhex(r["first"].as_str()?);
                let b = unhex(r["second"].as_str()?);
                let alone = format!("{:?}", crate::util::parse_collect(&b).0.map_err(|e| crate::util::state_name(&e)));
                let _ = crate::util::parse_collect(&a);
                let after = format!("{:?}", crate::util::parse_collect(&b).0.map_err(|e| crate::util::state_name(&e)));
                Some((format!("second binary alone: {} ; after the first: {}", alone, after), alone != after))
            }
            _ => None,
        }
    };
    let a = run_once();
    let b = run_once();
    match (a, b) {
        (Some((ta, ba)), Some((tb, bb))) => {
            if ta != tb || ba != bb {
                println!("MACHINERY-ERROR: two executions of the same artefact differ (uncontrolled nondeterminism)");
                return 2;
            }
            println!("observed (identical on two executions):\n{}", ta);
            if ba {
                println!("=> the violation REPRODUCES");
                1
            } else {
                println!("=> no violation on the current tree");
                0
            }
        }
        _ => {
            println!("replay payload: {}", r);
            println!("(no dedicated re-executor for kind {:?}; the payload above names the exact input)", kind);
            2
        }
    }
}
