use vcheck::report::{install_panic_hook, Tier};

fn usage() -> ! {
    eprintln!("usage: vcheck <C01..C20> [--tier quick|thorough] [--replay <file>]");
    std::process::exit(2)
}

fn main() {
    let args: Vec<String> = std::env::args().collect();
    if args.len() < 2 {
        usage()
    }
    let prop = args[1].clone();
    if prop == "--c09-first-use" {
        // a fresh process whose very first grammar lookups are made by 16 threads at once (see checks/c09.rs)
        vcheck::checks::c09::first_use_probe();
        return;
    }
    let mut tier = match std::env::var("VERIF_TIER").as_deref() {
        Ok("thorough") => Tier::Thorough,
        _ => Tier::Quick,
    };
    let mut replay: Option<String> = None;
    let mut i = 2;
    while i < args.len() {
        match args[i].as_str() {
            "--tier" => {
                i += 1;
                tier = match args.get(i).map(|s| s.as_str()) {
                    Some("quick") => Tier::Quick,
                    Some("thorough") => Tier::Thorough,
                    _ => usage(),
                }
            }
            "--replay" => {
                i += 1;
                replay = Some(args.get(i).cloned().unwrap_or_else(|| usage()));
            }
            _ => usage(),
        }
        i += 1;
    }
    install_panic_hook();
    if let Some(path) = replay {
        std::process::exit(vcheck::replay::replay(&prop, &path));
    }
    let p2 = prop.clone();
    let code = vcheck::report::run_top(&p2, move || match prop.as_str() {
        "C01" => vcheck::checks::c01::run(tier),
        "C02" => vcheck::checks::c02::run(tier),
        "C03" => vcheck::checks::c03::run(tier),
        "C04" => vcheck::checks::c04::run(tier),
        "C05" => vcheck::checks::c05::run(tier),
        "C07" => vcheck::checks::c07::run(tier),
        "C08" => vcheck::checks::c08::run(tier),
        "C09" => vcheck::checks::c09::run(tier),
        "C10" => vcheck::checks::c10::run(tier),
        "C11" => vcheck::checks::c11::run(tier),
        "C12" => vcheck::checks::c12::run(tier),
        "C13" => vcheck::checks::c13::run(tier),
        "C14" => vcheck::checks::c14::run(tier),
        "C15" => vcheck::checks::c15::run(tier),
        "C16" => vcheck::checks::c16::run(tier),
        "C17" => vcheck::checks::c17::run(tier),
        "C18" => vcheck::checks::c18::run(tier),
        "C19" => vcheck::checks::c19::run(tier),
        "C20" => vcheck::checks::c20::run(tier),
        _ => {
            eprintln!("no check for {}", prop);
            std::process::exit(2)
        }
    });
    std::process::exit(code);
}
