//! U-mut: every single-point corruption of a seed binary (deviation bound k = 1; k = 2 by composition),
//! and U-hostile: small raw binaries over an alphabet of framing shortcuts.
use crate::golden::golden;
use crate::model::{self, enc, Inst};

#[derive(Clone, Debug)]
pub struct Seed {
    pub id: String,
    /// complete module: header + prefix instructions + target + suffix
    pub words: Vec<u32>,
    /// word index (in `words`) of the target instruction's first word, and its true word count
    pub target: usize,
    pub target_wc: usize,
}

pub fn seed(id: &str, prefix: &[Inst], target: &Inst, suffix: &[Inst]) -> Seed {
    let mut words = model::header(0x0001_0600, 0x000f_0000, 4096);
    for i in prefix {
        words.extend(enc(i));
    }
    let t = words.len();
    let tw = enc(target);
    let n = tw.len();
    words.extend(tw);
    for i in suffix {
        words.extend(enc(i));
    }
    Seed { id: id.to_string(), words, target: t, target_wc: n }
}

#[derive(Clone, Debug)]
pub struct Mutant {
    pub what: String,
    pub bytes: Vec<u8>,
}

/// the last two: "ab\0X" (a non-zero byte after the terminator inside its word) and "ab\x01\0" (a 0x01 byte next to
/// the terminator: exact-zero-byte tricks misfire there); before them: 'A', 0xC3 (the first byte of a two-byte UTF-8 sequence), NUL: a string cut inside a character
pub const SUBST: [u32; 12] = [0, 1, 2, 0xFFFF_FFFF, 0x7FFF_FFFE, 0x4000_0000, 0x0041_4141, 0x4141_4141, 0x0001_0000, 0x0000_C341, 0x5800_6261, 0x0001_6261];

pub const HOSTILE_OPCODES: [u16; 10] = [0, 9, 0xFFFF, 43, 50, 52, 251, 7, 12, 5];

#[derive(Clone, Copy, PartialEq, Eq, Debug)]
pub enum Level {
    /// truncations at word boundaries and +-1 byte, word counts, deletions
    Framing,
    /// Framing + every operand word substituted + opcode substitutions + duplication + header faults
    Full,
    /// for very long instructions: the unmodified seed, word count +-1, cuts at the last byte / last word / half,
    /// the whole instruction twice
    Scale,
}

/// all single-point corruptions of `s` (k = 0, the unmodified seed, is included as the first element)
pub fn mutants(s: &Seed, level: Level) -> Vec<Mutant> {
    let mut out = vec![];
    let bytes = model::words_to_bytes(&s.words);
    out.push(Mutant { what: "k0:unmodified".into(), bytes: bytes.clone() });
    let t = s.target;
    let n = s.target_wc;
    let first = s.words[t];
    let opcode = first & 0xFFFF;
    // the whole target instruction twice in a row, and once more after its successor (A A .. / A B A): a consumer of
    // the stream that merges or skips a repeated instruction is seen
    {
        let mut w = s.words.clone();
        let copy: Vec<u32> = s.words[t..t + n].to_vec();
        w.splice(t + n..t + n, copy.iter().copied());
        out.push(Mutant { what: "dup-inst".into(), bytes: model::words_to_bytes(&w) });
        if t + n < s.words.len() {
            let next_n = ((s.words[t + n] >> 16) as usize).max(1).min(s.words.len() - t - n);
            let mut w = s.words.clone();
            w.splice(t + n + next_n..t + n + next_n, copy.iter().copied());
            out.push(Mutant { what: "dup-inst-after-next".into(), bytes: model::words_to_bytes(&w) });
        }
    }
    // two distant faults together: another header version word AND an unknown opcode / a zero word count at the target
    for v in [0x0001_0700u32, 0x0002_0000, 0xFFFF_FFFF, 0].into_iter().filter(|_| s.id.ends_with(":min:1st") || s.id.ends_with(":full:3rd")) {
        let mut w = s.words.clone();
        w[1] = v;
        out.push(Mutant { what: format!("version={:#x}", v), bytes: model::words_to_bytes(&w) });
        w[t] = (first & 0xFFFF_0000) | 9;
        out.push(Mutant { what: format!("version={:#x}&opcode=9", v), bytes: model::words_to_bytes(&w) });
        w[t] = opcode;
        out.push(Mutant { what: format!("version={:#x}&wc=0", v), bytes: model::words_to_bytes(&w) });
        let mut w = s.words.clone();
        w[1] = v;
        w.insert(t + n, 0x0000_0777);
        w[t] = (((n + 1) as u32) << 16) | opcode;
        out.push(Mutant { what: format!("version={:#x}&surplus+wc", v), bytes: model::words_to_bytes(&w) });
    }
    // the same with the other header words: every registered generator tool id (and two unregistered ones) / the id bound
    // 0, 1, the target's own word count, 2^32-1 / a non-zero schema word, each together with a surplus ZERO word, a
    // surplus non-zero word, and a dropped last word at the target: what an instruction's extent is does not depend on the header
    if s.id.ends_with(":min:1st") || s.id.ends_with(":full:3rd") {
        let mut hdrs: Vec<(usize, u32, String)> = (0u32..=45).chain([0x7FFF, 0xFFFF]).map(|tool| (2usize, (tool << 16) | 1, format!("generator={:#x}", (tool << 16) | 1))).collect();
        for b in [0u32, 1, n as u32, 0xFFFF_FFFF] {
            hdrs.push((3, b, format!("bound={:#x}", b)));
        }
        hdrs.push((4, 1, "schema=1".into()));
        for (idx, val, name) in hdrs {
            for (vn, extra) in [("surplus0", Some(0u32)), ("surplus", Some(0x0000_0777)), ("short", None)] {
                let mut w = s.words.clone();
                w[idx] = val;
                match extra {
                    Some(x) => {
                        w.insert(t + n, x);
                        w[t] = (((n + 1) as u32) << 16) | opcode;
                    }
                    None => {
                        if n < 2 {
                            continue;
                        }
                        w.remove(t + n - 1);
                        w[t] = (((n - 1) as u32) << 16) | opcode;
                    }
                }
                out.push(Mutant { what: format!("{}&{}+wc", name, vn), bytes: model::words_to_bytes(&w) });
            }
        }
    }
    // a string that is not terminated inside its instruction: every word of the target that contains a zero byte is
    // replaced by text, so that the next NUL lies in a LATER instruction
    {
        let mut w = s.words.clone();
        let mut changed = false;
        for j in 1..n {
            if w[t + j].to_le_bytes().iter().any(|b| *b == 0) && w[t + j] != 0 && j + 1 == n {
                w[t + j] = 0x4141_4141;
                changed = true;
            }
        }
        if changed {
            out.push(Mutant { what: "unterminate".into(), bytes: model::words_to_bytes(&w) });
        }
    }
    // the whole target instruction N times in a row (a counter or heuristic that only changes behaviour after many
    // repetitions); only for targets of at most 8 words, so the binaries stay small
    if n <= 8 && (s.id.contains(":min:") || s.id.contains(":full:")) {
        for reps in [3usize, 33, 257] {
            let mut w = s.words.clone();
            let copy: Vec<u32> = s.words[t..t + n].to_vec();
            let mut many = Vec::with_capacity(n * reps);
            for _ in 0..reps - 1 {
                many.extend(copy.iter().copied());
            }
            w.splice(t + n..t + n, many);
            out.push(Mutant { what: format!("repeat-inst-x{}", reps), bytes: model::words_to_bytes(&w) });
        }
    }
    if level == Level::Scale {
        for cut in [bytes.len() - 1, bytes.len() - 4, 4 * t + 2 * n, 4 * t + 4] {
            out.push(Mutant { what: format!("truncate@{}", cut), bytes: bytes[..cut.min(bytes.len())].to_vec() });
        }
        for wc in [n as u32 - 1, n as u32 + 1] {
            if wc == 0 || wc > 0xFFFF {
                continue;
            }
            let mut w = s.words.clone();
            w[t] = (wc << 16) | opcode;
            out.push(Mutant { what: format!("wc={}", wc), bytes: model::words_to_bytes(&w) });
        }
        return out;
    }
    // truncate at every byte from the start of the target on (earlier truncations hit the prefix, covered by its own seeds),
    // and at every byte of the header
    let from = if level == Level::Full { 4 * t } else { 4 * t };
    for cut in from..bytes.len() {
        if level == Level::Framing && cut % 4 > 1 {
            continue;
        }
        out.push(Mutant { what: format!("truncate@{}", cut), bytes: bytes[..cut].to_vec() });
    }
    // word count of the target := every value 0..=true+2 and 0xFFFF
    let mut wcs: Vec<u32> = (0..=(n as u32 + 2)).collect();
    wcs.extend([0xFFFF, 0xFFFE, 0x8000, 0x7FFF, 0x4000, 0x1000, 0x0100, 0x00FF]);
    for wc in wcs {
        if wc as usize == n {
            continue;
        }
        let mut w = s.words.clone();
        w[t] = (wc << 16) | opcode;
        out.push(Mutant { what: format!("wc={}", wc), bytes: model::words_to_bytes(&w) });
    }
    // delete one operand word (with and without fixing the word count)
    for j in 1..n {
        let mut w = s.words.clone();
        w.remove(t + j);
        out.push(Mutant { what: format!("delete@{}", j), bytes: model::words_to_bytes(&w) });
        w[t] = (((n - 1) as u32) << 16) | opcode;
        out.push(Mutant { what: format!("delete@{}+wc", j), bytes: model::words_to_bytes(&w) });
    }
    // one surplus word inside the instruction
    {
        let mut w = s.words.clone();
        w.insert(t + n, 0x0000_0777);
        w[t] = (((n + 1) as u32) << 16) | opcode;
        out.push(Mutant { what: "surplus+wc".into(), bytes: model::words_to_bytes(&w) });
    }
    if level == Level::Full {
        for j in 1..n {
            for v in SUBST {
                if s.words[t + j] == v {
                    continue;
                }
                let mut w = s.words.clone();
                w[t + j] = v;
                out.push(Mutant { what: format!("subst@{}={:#x}", j, v), bytes: model::words_to_bytes(&w) });
            }
            let mut w = s.words.clone();
            w.insert(t + j, s.words[t + j]);
            out.push(Mutant { what: format!("dup@{}", j), bytes: model::words_to_bytes(&w) });
            w[t] = (((n + 1) as u32) << 16) | opcode;
            out.push(Mutant { what: format!("dup@{}+wc", j), bytes: model::words_to_bytes(&w) });
        }
        for o in HOSTILE_OPCODES {
            if o as u32 == opcode {
                continue;
            }
            let mut w = s.words.clone();
            w[t] = (first & 0xFFFF_0000) | o as u32;
            out.push(Mutant { what: format!("opcode={}", o), bytes: model::words_to_bytes(&w) });
        }
        // header faults
        let mut w = s.words.clone();
        w.insert(5, 0x0000_0777);
        out.push(Mutant { what: "junk-after-header".into(), bytes: model::words_to_bytes(&w) });
        let mut w = s.words.clone();
        w.insert(0, 0x0000_0777);
        out.push(Mutant { what: "junk-before-header".into(), bytes: model::words_to_bytes(&w) });
        let mut w = s.words.clone();
        w[0] = w[0].swap_bytes();
        out.push(Mutant { what: "swapped-magic".into(), bytes: model::words_to_bytes(&w) });
        for d in 0..5 {
            let mut w = s.words.clone();
            w.remove(d);
            out.push(Mutant { what: format!("drop-header-word-{}", d), bytes: model::words_to_bytes(&w) });
        }
        for cut in 0..20 {
            out.push(Mutant { what: format!("truncate@{}", cut), bytes: bytes[..cut].to_vec() });
        }
    }
    out
}

/// every opcode number with word count 1 after a valid header
pub fn all_opcode_numbers() -> Vec<Mutant> {
    (0..=0xFFFFu32)
        .map(|o| {
            let mut w = model::header(0x0001_0600, 0, 8);
            w.push((1 << 16) | o);
            Mutant { what: format!("opcode-number={}", o), bytes: model::words_to_bytes(&w) }
        })
        .collect()
}

/// the U-hostile alphabet: first words with every framing shortcut visible in parser.rs / decoder.rs, plus payload words
pub fn hostile_alphabet() -> Vec<u32> {
    let g = golden();
    let op = |n: &str| g.opcode(n) as u32;
    let mut alpha: Vec<u32> = vec![];
    for name in ["Nop", "String", "Source", "Constant", "SpecConstantOp", "Switch", "TypeInt"] {
        for wc in [1u32, 2, 3, 4] {
            alpha.push((wc << 16) | op(name));
        }
    }
    alpha.retain(|w| {
        let wc = w >> 16;
        let o = w & 0xFFFF;
        !(o == op("Nop") && wc > 2) && !(o == op("TypeInt") && wc < 3)
    });
    alpha.extend([0u32, 1, 43, 52, 251, 64, 0x4141_4141, 0x0000_0041, 0xFFFF_FFFF, (0xFFFF << 16) | op("String"), op("Nop")]);
    // a second module glued behind the first: the magic number and this universe's own version word at an
    // instruction boundary
    alpha.extend([0x0723_0203, 0x0001_0600]);
    alpha
}

/// U-hostile: every word string of length 1..=`max_len` over the hostile alphabet that starts with `prefix`
/// (so callers can parallelise over prefixes without materialising the whole universe); `f` is called per binary.
pub fn hostile_each(prefix: &[u32], max_len: usize, with_trailing_bytes: bool, f: &mut dyn FnMut(&Mutant)) {
    let alpha = hostile_alphabet();
    let hdr = model::header(0x0001_0600, 0, 8);
    fn rec(cur: &mut Vec<u32>, alpha: &[u32], hdr: &[u32], max_len: usize, trailing: bool, f: &mut dyn FnMut(&Mutant)) {
        if !cur.is_empty() {
            let mut w = hdr.to_vec();
            w.extend(cur.iter());
            let b = model::words_to_bytes(&w);
            f(&Mutant { what: format!("hostile{:x?}", cur), bytes: b.clone() });
            if trailing && cur.len() <= 2 {
                for extra in 1..=3 {
                    let mut b2 = b.clone();
                    b2.extend(std::iter::repeat(0x41).take(extra));
                    f(&Mutant { what: format!("hostile{:x?}+{}B", cur, extra), bytes: b2 });
                }
            }
        }
        if cur.len() < max_len {
            for &a in alpha {
                cur.push(a);
                rec(cur, alpha, hdr, max_len, trailing, f);
                cur.pop();
            }
        }
    }
    let mut cur = prefix.to_vec();
    rec(&mut cur, &alpha, &hdr, max_len, with_trailing_bytes, f);
}
