//! The pinned grammar snapshot (reference/grammar.json), loaded once. Nothing here touches rspirv.
use serde_json::Value;
use std::collections::{BTreeMap, BTreeSet, HashMap};
use std::sync::OnceLock;

pub const GRAMMAR_JSON: &str = include_str!("../../../reference/grammar.json");

#[derive(Clone, Copy, Debug, PartialEq, Eq, Hash, PartialOrd, Ord)]
pub enum Quant {
    One,
    ZeroOrOne,
    ZeroOrMore,
}

#[derive(Clone, Debug)]
pub struct GInst {
    pub name: String,
    pub opcode: u16,
    pub caps: Vec<String>,
    pub exts: Vec<String>,
    pub operands: Vec<(String, Quant)>,
}

impl GInst {
    pub fn has_rtype(&self) -> bool {
        self.operands.iter().any(|(k, _)| k == "IdResultType")
    }
    pub fn has_rid(&self) -> bool {
        self.operands.iter().any(|(k, _)| k == "IdResult")
    }
    /// operands without result type / result id
    pub fn value_operands(&self) -> Vec<(String, Quant)> {
        self.operands
            .iter()
            .filter(|(k, _)| k != "IdResultType" && k != "IdResult")
            .cloned()
            .collect()
    }
}

#[derive(Clone, Debug)]
pub struct GExt {
    pub name: String,
    pub opcode: u32,
    pub caps: Vec<String>,
    pub exts: Vec<String>,
    pub operands: Vec<(String, Quant)>,
}

#[derive(Clone, Debug)]
pub struct GEnum {
    pub variants: Vec<(String, u32)>,
    pub aliases: Vec<(String, String)>,
    pub fromstr: bool,
}

impl GEnum {
    pub fn declared(&self) -> BTreeSet<u32> {
        self.variants.iter().map(|v| v.1).collect()
    }
    pub fn name_of(&self, n: u32) -> Option<&str> {
        self.variants.iter().find(|v| v.1 == n).map(|v| v.0.as_str())
    }
    pub fn value_of(&self, name: &str) -> Option<u32> {
        if let Some(v) = self.variants.iter().find(|v| v.0 == name) {
            return Some(v.1);
        }
        let a = self.aliases.iter().find(|a| a.0 == name)?;
        self.variants.iter().find(|v| v.0 == a.1).map(|v| v.1)
    }
}

#[derive(Clone, Debug)]
pub struct GMask {
    /// (rust constant name, value, specification spelling)
    pub bits: Vec<(String, u32, String)>,
}

impl GMask {
    pub fn all(&self) -> u32 {
        self.bits.iter().fold(0, |a, b| a | b.1)
    }
    pub fn nonzero(&self) -> Vec<&(String, u32, String)> {
        self.bits.iter().filter(|b| b.1 != 0).collect()
    }
}

pub struct Golden {
    pub magic: u32,
    pub major: u8,
    pub minor: u8,
    pub kinds: Vec<String>,
    pub enums: BTreeMap<String, GEnum>,
    pub masks: BTreeMap<String, GMask>,
    pub insts: Vec<GInst>,
    pub by_opcode: HashMap<u16, usize>,
    pub by_name: HashMap<String, usize>,
    pub glsl: Vec<GExt>,
    pub opencl: Vec<GExt>,
    /// kind -> enumerant/bit name -> parameter kinds as dr::Operand variant names
    pub params: BTreeMap<String, BTreeMap<String, Vec<String>>>,
    /// kind -> enumerant/bit name -> OperandKind names (from Operand::additional_operands at pin time)
    pub additional: BTreeMap<String, BTreeMap<String, Vec<String>>>,
    pub caps: BTreeMap<String, BTreeMap<String, Vec<String>>>,
    pub exts: BTreeMap<String, BTreeMap<String, Vec<String>>>,
    pub classes: BTreeMap<String, BTreeSet<String>>,
    pub sha256: String,
}

fn quant(s: &str) -> Quant {
    match s {
        "One" => Quant::One,
        "ZeroOrOne" => Quant::ZeroOrOne,
        "ZeroOrMore" => Quant::ZeroOrMore,
        _ => panic!("bad quantifier {s}"),
    }
}

fn strs(v: &Value) -> Vec<String> {
    v.as_array().unwrap().iter().map(|x| x.as_str().unwrap().to_string()).collect()
}

fn ops(v: &Value) -> Vec<(String, Quant)> {
    v.as_array()
        .unwrap()
        .iter()
        .map(|p| (p[0].as_str().unwrap().to_string(), quant(p[1].as_str().unwrap())))
        .collect()
}

fn nested(v: &Value) -> BTreeMap<String, BTreeMap<String, Vec<String>>> {
    let mut out = BTreeMap::new();
    if let Some(o) = v.as_object() {
        for (k, d) in o {
            let mut m = BTreeMap::new();
            for (e, l) in d.as_object().unwrap() {
                m.insert(e.clone(), strs(l));
            }
            out.insert(k.clone(), m);
        }
    }
    out
}

pub fn sha256_hex(data: &[u8]) -> String {
    // small self-contained SHA-256 (no crate available offline for it is needed elsewhere)
    const K: [u32; 64] = [
        0x428a2f98, 0x71374491, 0xb5c0fbcf, 0xe9b5dba5, 0x3956c25b, 0x59f111f1, 0x923f82a4, 0xab1c5ed5, 0xd807aa98,
        0x12835b01, 0x243185be, 0x550c7dc3, 0x72be5d74, 0x80deb1fe, 0x9bdc06a7, 0xc19bf174, 0xe49b69c1, 0xefbe4786,
        0x0fc19dc6, 0x240ca1cc, 0x2de92c6f, 0x4a7484aa, 0x5cb0a9dc, 0x76f988da, 0x983e5152, 0xa831c66d, 0xb00327c8,
        0xbf597fc7, 0xc6e00bf3, 0xd5a79147, 0x06ca6351, 0x14292967, 0x27b70a85, 0x2e1b2138, 0x4d2c6dfc, 0x53380d13,
        0x650a7354, 0x766a0abb, 0x81c2c92e, 0x92722c85, 0xa2bfe8a1, 0xa81a664b, 0xc24b8b70, 0xc76c51a3, 0xd192e819,
        0xd6990624, 0xf40e3585, 0x106aa070, 0x19a4c116, 0x1e376c08, 0x2748774c, 0x34b0bcb5, 0x391c0cb3, 0x4ed8aa4a,
        0x5b9cca4f, 0x682e6ff3, 0x748f82ee, 0x78a5636f, 0x84c87814, 0x8cc70208, 0x90befffa, 0xa4506ceb, 0xbef9a3f7,
        0xc67178f2,
    ];
    let mut h: [u32; 8] =
        [0x6a09e667, 0xbb67ae85, 0x3c6ef372, 0xa54ff53a, 0x510e527f, 0x9b05688c, 0x1f83d9ab, 0x5be0cd19];
    let mut msg = data.to_vec();
    let bitlen = (data.len() as u64).wrapping_mul(8);
    msg.push(0x80);
    while msg.len() % 64 != 56 {
        msg.push(0);
    }
    msg.extend_from_slice(&bitlen.to_be_bytes());
    for chunk in msg.chunks(64) {
        let mut w = [0u32; 64];
        for i in 0..16 {
            w[i] = u32::from_be_bytes([chunk[4 * i], chunk[4 * i + 1], chunk[4 * i + 2], chunk[4 * i + 3]]);
        }
        for i in 16..64 {
            let s0 = w[i - 15].rotate_right(7) ^ w[i - 15].rotate_right(18) ^ (w[i - 15] >> 3);
            let s1 = w[i - 2].rotate_right(17) ^ w[i - 2].rotate_right(19) ^ (w[i - 2] >> 10);
            w[i] = w[i - 16].wrapping_add(s0).wrapping_add(w[i - 7]).wrapping_add(s1);
        }
        let mut v = h;
        for i in 0..64 {
            let s1 = v[4].rotate_right(6) ^ v[4].rotate_right(11) ^ v[4].rotate_right(25);
            let ch = (v[4] & v[5]) ^ (!v[4] & v[6]);
            let t1 = v[7].wrapping_add(s1).wrapping_add(ch).wrapping_add(K[i]).wrapping_add(w[i]);
            let s0 = v[0].rotate_right(2) ^ v[0].rotate_right(13) ^ v[0].rotate_right(22);
            let maj = (v[0] & v[1]) ^ (v[0] & v[2]) ^ (v[1] & v[2]);
            let t2 = s0.wrapping_add(maj);
            v[7] = v[6];
            v[6] = v[5];
            v[5] = v[4];
            v[4] = v[3].wrapping_add(t1);
            v[3] = v[2];
            v[2] = v[1];
            v[1] = v[0];
            v[0] = t1.wrapping_add(t2);
        }
        for i in 0..8 {
            h[i] = h[i].wrapping_add(v[i]);
        }
    }
    h.iter().map(|x| format!("{:08x}", x)).collect()
}

pub fn golden() -> &'static Golden {
    static G: OnceLock<Golden> = OnceLock::new();
    G.get_or_init(|| {
        let v: Value = serde_json::from_str(GRAMMAR_JSON).expect("grammar.json");
        let mut enums = BTreeMap::new();
        for (k, e) in v["enums"].as_object().unwrap() {
            enums.insert(
                k.clone(),
                GEnum {
                    variants: e["variants"]
                        .as_array()
                        .unwrap()
                        .iter()
                        .map(|p| (p[0].as_str().unwrap().to_string(), p[1].as_u64().unwrap() as u32))
                        .collect(),
                    aliases: e["aliases"]
                        .as_array()
                        .unwrap()
                        .iter()
                        .map(|p| (p[0].as_str().unwrap().to_string(), p[1].as_str().unwrap().to_string()))
                        .collect(),
                    fromstr: e["fromstr"].as_bool().unwrap(),
                },
            );
        }
        let mut masks = BTreeMap::new();
        for (k, m) in v["masks"].as_object().unwrap() {
            masks.insert(
                k.clone(),
                GMask {
                    bits: m
                        .as_array()
                        .unwrap()
                        .iter()
                        .map(|p| {
                            (
                                p[0].as_str().unwrap().to_string(),
                                p[1].as_u64().unwrap() as u32,
                                p[2].as_str().unwrap_or("").to_string(),
                            )
                        })
                        .collect(),
                },
            );
        }
        let insts: Vec<GInst> = v["instructions"]
            .as_array()
            .unwrap()
            .iter()
            .map(|i| GInst {
                name: i["name"].as_str().unwrap().to_string(),
                opcode: i["opcode"].as_u64().unwrap() as u16,
                caps: strs(&i["caps"]),
                exts: strs(&i["exts"]),
                operands: ops(&i["operands"]),
            })
            .collect();
        let ext = |key: &str| -> Vec<GExt> {
            v[key]
                .as_array()
                .unwrap()
                .iter()
                .map(|i| GExt {
                    name: i["name"].as_str().unwrap().to_string(),
                    opcode: i["opcode"].as_u64().unwrap() as u32,
                    caps: strs(&i["caps"]),
                    exts: strs(&i["exts"]),
                    operands: ops(&i["operands"]),
                })
                .collect()
        };
        let mut classes = BTreeMap::new();
        for (k, l) in v["classes"].as_object().unwrap() {
            classes.insert(k.clone(), strs(l).into_iter().collect::<BTreeSet<_>>());
        }
        let by_opcode = insts.iter().enumerate().map(|(i, g)| (g.opcode, i)).collect();
        let by_name = insts.iter().enumerate().map(|(i, g)| (g.name.clone(), i)).collect();
        Golden {
            magic: v["meta"]["magic"].as_u64().unwrap() as u32,
            major: v["meta"]["major"].as_u64().unwrap() as u8,
            minor: v["meta"]["minor"].as_u64().unwrap() as u8,
            kinds: strs(&v["kinds"]),
            enums,
            masks,
            by_opcode,
            by_name,
            insts,
            glsl: ext("glsl"),
            opencl: ext("opencl"),
            params: nested(&v["params"]),
            additional: nested(&v["additional"]),
            caps: nested(&v["caps"]),
            exts: nested(&v["exts"]),
            classes,
            sha256: sha256_hex(GRAMMAR_JSON.as_bytes()),
        }
    })
}

impl Golden {
    pub fn inst(&self, name: &str) -> &GInst {
        &self.insts[*self.by_name.get(name).unwrap_or_else(|| panic!("golden has no Op{name}"))]
    }
    pub fn lookup(&self, opcode: u16) -> Option<&GInst> {
        self.by_opcode.get(&opcode).map(|&i| &self.insts[i])
    }
    pub fn opcode(&self, name: &str) -> u16 {
        self.inst(name).opcode
    }
    pub fn is_enum_kind(&self, k: &str) -> bool {
        self.enums.contains_key(k) && !matches!(k, "Op" | "GLOp" | "CLOp" | "DebugPrintFOp")
    }
    pub fn is_mask_kind(&self, k: &str) -> bool {
        self.masks.contains_key(k)
    }
    /// parameter kinds (dr::Operand variant names) following enumerant number `n` of enum kind `k`
    pub fn enum_params(&self, k: &str, n: u32) -> Vec<String> {
        let Some(p) = self.params.get(k) else { return vec![] };
        let Some(name) = self.enums[k].name_of(n) else { return vec![] };
        p.get(name).cloned().unwrap_or_default()
    }
    /// parameter kinds following mask value `bits` of mask kind `k` (ascending bit order)
    pub fn mask_params(&self, k: &str, bits: u32) -> Vec<String> {
        let Some(p) = self.params.get(k) else { return vec![] };
        let mut out = vec![];
        let mut bs: Vec<&(String, u32, String)> = self.masks[k].nonzero();
        bs.sort_by_key(|b| b.1);
        for b in bs {
            if bits & b.1 != 0 {
                if let Some(l) = p.get(&b.0) {
                    out.extend(l.iter().cloned());
                }
            }
        }
        out
    }
    pub fn class(&self, c: &str) -> &BTreeSet<String> {
        &self.classes[c]
    }
    pub fn in_class(&self, c: &str, op: &str) -> bool {
        self.classes.get(c).map_or(false, |s| s.contains(op))
    }
}
