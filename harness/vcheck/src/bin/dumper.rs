//! One-off: dumps what is only reachable at run time from the *pinned* tree (tables as compiled,
//! additional_operands / required_capabilities / required_extensions per enumerant and single bit).
//! Its output feeds reference/extract.py --runtime; it is never run by a check.
use rspirv::dr;
use rspirv::grammar as g;
use serde_json::{json, Map, Value};
use vcheck::golden::golden;
use vcheck::model::{enum_operand, mask_operand};

fn lo(l: &[g::LogicalOperand]) -> Vec<Value> {
    l.iter().map(|o| json!([format!("{:?}", o.kind), format!("{:?}", o.quantifier)])).collect()
}

fn main() {
    let gd = golden();
    let insts: Vec<Value> = g::CoreInstructionTable::iter()
        .map(|i| {
            json!({"name": i.opname, "opcode": i.opcode as u32,
            "caps": i.capabilities.iter().map(|c| format!("{:?}", c)).collect::<Vec<_>>(),
            "exts": i.extensions, "operands": lo(i.operands)})
        })
        .collect();
    let mut additional = Map::new();
    let mut caps = Map::new();
    let mut exts = Map::new();
    let mut each = |kind: &str, name: &str, o: dr::Operand| {
        let a: Vec<String> = o.additional_operands().iter().map(|x| format!("{:?}", x.kind)).collect();
        let c: Vec<String> = o.required_capabilities().iter().map(|x| format!("{:?}", x)).collect();
        let e: Vec<String> = o.required_extensions().iter().map(|x| x.to_string()).collect();
        for (m, v) in [(&mut additional, json!(a)), (&mut caps, json!(c)), (&mut exts, json!(e))] {
            m.entry(kind.to_string()).or_insert_with(|| Value::Object(Map::new())).as_object_mut().unwrap().insert(name.to_string(), v);
        }
    };
    for (k, e) in &gd.enums {
        if !gd.is_enum_kind(k) {
            continue;
        }
        for (name, n) in &e.variants {
            each(k, name, enum_operand(k, *n).expect("declared enumerant constructible"));
        }
    }
    for (k, m) in &gd.masks {
        for (name, n, _) in &m.bits {
            each(k, name, mask_operand(k, *n).expect("declared bit constructible"));
        }
    }
    // keep only kinds with at least one non-empty list for `additional`
    let additional: Map<String, Value> = additional
        .into_iter()
        .filter(|(_, d)| d.as_object().unwrap().values().any(|l| !l.as_array().unwrap().is_empty()))
        .collect();
    println!("{}", serde_json::to_string(&json!({"instructions": insts, "additional": additional, "caps": caps, "exts": exts})).unwrap());
}
