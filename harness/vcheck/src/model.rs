//! A.1 instruction model, A.2 reference encoder, and the bridge to rspirv values.
//! The model and the encoder depend on the golden only; the bridge uses rspirv's public constructors.
use crate::golden::{golden, Quant};
use rspirv::dr;
use rspirv::spirv;

#[derive(Clone, Debug, PartialEq, Eq, Hash, PartialOrd, Ord)]
pub enum Arg {
    /// value enum kind name + number
    Enum(&'static str, u32),
    /// mask kind name + bits
    Mask(&'static str, u32),
    IdRef(u32),
    IdScope(u32),
    IdMemSem(u32),
    Lit32(u32),
    Lit64(u64),
    ExtInstNo(u32),
    SpecOp(u16),
    Str(String),
}

#[derive(Clone, Debug, PartialEq, Eq, Hash, PartialOrd, Ord)]
pub struct Inst {
    pub opcode: u16,
    pub rtype: Option<u32>,
    pub rid: Option<u32>,
    pub args: Vec<Arg>,
}

pub fn kind_static(k: &str) -> &'static str {
    let g = golden();
    g.kinds.iter().find(|x| x.as_str() == k).map(|s| s.as_str()).unwrap_or_else(|| panic!("unknown kind {k}"))
}

impl Arg {
    pub fn kind_name(&self) -> &'static str {
        match self {
            Arg::Enum(k, _) | Arg::Mask(k, _) => k,
            Arg::IdRef(_) => "IdRef",
            Arg::IdScope(_) => "IdScope",
            Arg::IdMemSem(_) => "IdMemorySemantics",
            Arg::Lit32(_) => "LiteralBit32",
            Arg::Lit64(_) => "LiteralBit64",
            Arg::ExtInstNo(_) => "LiteralExtInstInteger",
            Arg::SpecOp(_) => "LiteralSpecConstantOpInteger",
            Arg::Str(_) => "LiteralString",
        }
    }
}

pub fn enc_str(s: &str, out: &mut Vec<u32>) {
    let mut b = s.as_bytes().to_vec();
    b.push(0);
    while b.len() % 4 != 0 {
        b.push(0);
    }
    for c in b.chunks(4) {
        out.push(u32::from_le_bytes([c[0], c[1], c[2], c[3]]));
    }
}

pub fn enc_arg(a: &Arg, out: &mut Vec<u32>) {
    match a {
        Arg::Enum(_, n) | Arg::Mask(_, n) | Arg::IdRef(n) | Arg::IdScope(n) | Arg::IdMemSem(n) | Arg::Lit32(n) | Arg::ExtInstNo(n) => {
            out.push(*n)
        }
        Arg::SpecOp(n) => out.push(*n as u32),
        Arg::Lit64(v) => {
            out.push(*v as u32);
            out.push((*v >> 32) as u32)
        }
        Arg::Str(s) => enc_str(s, out),
    }
}

/// A.2: the reference encoding of one instruction. Defined only when the length fits in 16 bits.
pub fn enc(i: &Inst) -> Vec<u32> {
    let mut out = vec![0u32];
    if let Some(t) = i.rtype {
        out.push(t)
    }
    if let Some(r) = i.rid {
        out.push(r)
    }
    for a in &i.args {
        enc_arg(a, &mut out)
    }
    assert!(out.len() <= 0xFFFF, "instruction too long for the format");
    out[0] = ((out.len() as u32) << 16) | i.opcode as u32;
    out
}

pub fn header(version: u32, generator: u32, bound: u32) -> Vec<u32> {
    vec![golden().magic, version, generator, bound, 0]
}

pub fn words_to_bytes(w: &[u32]) -> Vec<u8> {
    w.iter().flat_map(|x| x.to_le_bytes()).collect()
}

// ------------------------------------------------------------------ bridge

macro_rules! mk_enum_bridge { ($($k:ident),*) => {
    /// Builds the operand of value-enum kind `kind` with number `n` via the public `from_u32`.
    pub fn enum_operand(kind: &str, n: u32) -> Option<dr::Operand> {
        match kind { $( stringify!($k) => spirv::$k::from_u32(n).map(dr::Operand::$k), )* _ => None }
    }
    fn enum_of_operand(o: &dr::Operand) -> Option<(&'static str, u32)> {
        match o { $( dr::Operand::$k(v) => Some((stringify!($k), *v as u32)), )* _ => None }
    }
}}
for_each_enum_kind!(mk_enum_bridge);

macro_rules! mk_mask_bridge { ($($k:ident),*) => {
    /// Builds the operand of mask kind `kind` with bits `n` via the public `from_bits`.
    pub fn mask_operand(kind: &str, n: u32) -> Option<dr::Operand> {
        match kind { $( stringify!($k) => spirv::$k::from_bits(n).map(dr::Operand::$k), )* _ => None }
    }
    fn mask_of_operand(o: &dr::Operand) -> Option<(&'static str, u32)> {
        match o { $( dr::Operand::$k(v) => Some((stringify!($k), v.bits())), )* _ => None }
    }
}}
for_each_mask_kind!(mk_mask_bridge);

pub fn to_operand(a: &Arg) -> Option<dr::Operand> {
    Some(match a {
        Arg::Enum(k, n) => enum_operand(k, *n)?,
        Arg::Mask(k, n) => mask_operand(k, *n)?,
        Arg::IdRef(n) => dr::Operand::IdRef(*n),
        Arg::IdScope(n) => dr::Operand::IdScope(*n),
        Arg::IdMemSem(n) => dr::Operand::IdMemorySemantics(*n),
        Arg::Lit32(n) => dr::Operand::LiteralBit32(*n),
        Arg::Lit64(n) => dr::Operand::LiteralBit64(*n),
        Arg::ExtInstNo(n) => dr::Operand::LiteralExtInstInteger(*n),
        Arg::SpecOp(n) => dr::Operand::LiteralSpecConstantOpInteger(spirv::Op::from_u32(*n as u32)?),
        Arg::Str(s) => dr::Operand::LiteralString(s.clone()),
    })
}

pub fn from_operand(o: &dr::Operand) -> Arg {
    if let Some((k, n)) = enum_of_operand(o) {
        return Arg::Enum(kind_static(k), n);
    }
    if let Some((k, n)) = mask_of_operand(o) {
        return Arg::Mask(kind_static(k), n);
    }
    match o {
        dr::Operand::IdRef(n) => Arg::IdRef(*n),
        dr::Operand::IdScope(n) => Arg::IdScope(*n),
        dr::Operand::IdMemorySemantics(n) => Arg::IdMemSem(*n),
        dr::Operand::LiteralBit32(n) => Arg::Lit32(*n),
        dr::Operand::LiteralBit64(n) => Arg::Lit64(*n),
        dr::Operand::LiteralExtInstInteger(n) => Arg::ExtInstNo(*n),
        dr::Operand::LiteralSpecConstantOpInteger(op) => Arg::SpecOp(*op as u32 as u16),
        dr::Operand::LiteralString(s) => Arg::Str(s.clone()),
        other => panic!("bridge: operand variant not in the golden kind list: {:?}", other),
    }
}

/// Model -> rspirv instruction through public constructors only. `None` if some payload is not
/// constructible (undeclared enumerant / bit / opcode): such models are outside the grammar.
pub fn to_dr(i: &Inst) -> Option<dr::Instruction> {
    let op = spirv::Op::from_u32(i.opcode as u32)?;
    let mut ops = Vec::with_capacity(i.args.len());
    for a in &i.args {
        ops.push(to_operand(a)?);
    }
    Some(dr::Instruction::new(op, i.rtype, i.rid, ops))
}

pub fn from_dr(i: &dr::Instruction) -> Inst {
    Inst {
        opcode: i.class.opcode as u32 as u16,
        rtype: i.result_type,
        rid: i.result_id,
        args: i.operands.iter().map(from_operand).collect(),
    }
}

pub fn opname(opcode: u16) -> String {
    golden().lookup(opcode).map(|g| g.name.clone()).unwrap_or_else(|| format!("#{}", opcode))
}

impl Inst {
    pub fn new(name: &str, rtype: Option<u32>, rid: Option<u32>, args: Vec<Arg>) -> Inst {
        Inst { opcode: golden().opcode(name), rtype, rid, args }
    }
    pub fn name(&self) -> String {
        opname(self.opcode)
    }
    pub fn short(&self) -> String {
        let mut s = String::new();
        if let Some(r) = self.rid {
            s += &format!("%{} = ", r);
        }
        s += &format!("Op{}", self.name());
        if let Some(t) = self.rtype {
            s += &format!(" %{}", t);
        }
        for a in &self.args {
            s += &match a {
                Arg::Enum(k, n) => format!(" {}:{}", k, n),
                Arg::Mask(k, n) => format!(" {}:{:#x}", k, n),
                Arg::IdRef(n) => format!(" %{}", n),
                Arg::IdScope(n) => format!(" scope%{}", n),
                Arg::IdMemSem(n) => format!(" sem%{}", n),
                Arg::Lit32(n) => format!(" {}", n),
                Arg::Lit64(n) => format!(" {}u64", n),
                Arg::ExtInstNo(n) => format!(" ext#{}", n),
                Arg::SpecOp(n) => format!(" Op{}", opname(*n)),
                Arg::Str(s) => format!(" {:?}", s),
            };
        }
        s
    }
}

/// Expected quantifier-respecting operand kinds etc. are in `universe.rs`; this helper maps a parameter
/// kind name as the golden `params` lists it (dr::Operand variant names) to a default Arg with payload `v`.
pub fn arg_of_param_kind(k: &str, v: u32) -> Arg {
    let g = golden();
    match k {
        "IdRef" => Arg::IdRef(v),
        "IdScope" => Arg::IdScope(v),
        "IdMemorySemantics" => Arg::IdMemSem(v),
        "LiteralBit32" => Arg::Lit32(v),
        "LiteralString" => Arg::Str(format!("p{}", v)),
        k if g.is_enum_kind(k) => Arg::Enum(kind_static(k), g.enums[k].variants[0].1),
        k if g.is_mask_kind(k) => Arg::Mask(kind_static(k), 0),
        _ => panic!("parameter kind {k}"),
    }
}

pub fn quant_of(q: Quant) -> &'static str {
    match q {
        Quant::One => "",
        Quant::ZeroOrOne => "?",
        Quant::ZeroOrMore => "*",
    }
}

/// Re-kinds id arguments positionally by the golden grammar of `opcode` (a Builder parameter of type
/// `spirv::Word` is an IdRef, IdScope or IdMemorySemantics depending on the operand slot it fills).
pub fn rekind_ids(opcode: u16, args: Vec<Arg>) -> Vec<Arg> {
    let g = golden();
    let Some(gi) = g.lookup(opcode) else { return args };
    let mut out = Vec::with_capacity(args.len());
    let mut i = 0usize;
    let id_payload = |a: &Arg| match a {
        Arg::IdRef(v) | Arg::IdScope(v) | Arg::IdMemSem(v) => Some(*v),
        _ => None,
    };
    for (kind, q) in gi.value_operands() {
        loop {
            if i >= args.len() {
                break;
            }
            match kind.as_str() {
                "IdScope" => {
                    out.push(id_payload(&args[i]).map(Arg::IdScope).unwrap_or_else(|| args[i].clone()));
                    i += 1;
                }
                "IdMemorySemantics" => {
                    out.push(id_payload(&args[i]).map(Arg::IdMemSem).unwrap_or_else(|| args[i].clone()));
                    i += 1;
                }
                k if k.starts_with("Pair") => {
                    out.push(args[i].clone());
                    i += 1;
                    if i < args.len() {
                        out.push(args[i].clone());
                        i += 1;
                    }
                }
                k if g.params.contains_key(k) => {
                    let ps: Vec<String> = match &args[i] {
                        Arg::Enum(_, n) => g.enum_params(k, *n),
                        Arg::Mask(_, n) => g.mask_params(k, *n),
                        _ => vec![],
                    };
                    out.push(args[i].clone());
                    i += 1;
                    // parameters take the kind the grammar lists for them (a u32 parameter may be an id or a literal)
                    for p in &ps {
                        if i < args.len() {
                            let payload = match &args[i] {
                                Arg::IdRef(v) | Arg::IdScope(v) | Arg::IdMemSem(v) | Arg::Lit32(v) => Some(*v),
                                _ => None,
                            };
                            out.push(match (p.as_str(), payload) {
                                ("IdRef", Some(v)) => Arg::IdRef(v),
                                ("IdScope", Some(v)) => Arg::IdScope(v),
                                ("IdMemorySemantics", Some(v)) => Arg::IdMemSem(v),
                                ("LiteralBit32", Some(v)) => Arg::Lit32(v),
                                (pk, Some(v)) if g.is_enum_kind(pk) => Arg::Enum(kind_static(pk), v),
                                _ => args[i].clone(),
                            });
                            i += 1;
                        }
                    }
                }
                "LiteralExtInstInteger" => {
                    out.push(match &args[i] {
                        Arg::IdRef(v) | Arg::Lit32(v) => Arg::ExtInstNo(*v),
                        other => other.clone(),
                    });
                    i += 1;
                }
                _ => {
                    out.push(args[i].clone());
                    i += 1;
                }
            }
            if q != Quant::ZeroOrMore {
                break;
            }
        }
    }
    while i < args.len() {
        out.push(args[i].clone());
        i += 1;
    }
    out
}

/// The same instruction with every id (result type, result id, every id operand) renamed by `f`.
/// With an injective `f` applied to a whole instruction sequence, conformance to the grammar is preserved.
pub fn remap_ids(i: &Inst, f: &dyn Fn(u32) -> u32) -> Inst {
    Inst {
        opcode: i.opcode,
        rtype: i.rtype.map(f),
        rid: i.rid.map(f),
        args: i
            .args
            .iter()
            .map(|a| match a {
                Arg::IdRef(x) => Arg::IdRef(f(*x)),
                Arg::IdScope(x) => Arg::IdScope(f(*x)),
                Arg::IdMemSem(x) => Arg::IdMemSem(f(*x)),
                other => other.clone(),
            })
            .collect(),
    }
}

/// id relabelling schemes, injective on ids below 6000: descending; scattered (out of order, around 4096); across
/// 2^16; across 2^22; just below 2^32; numbers with another meaning (magic number, opcode numbers, first words)
pub const RELABELLINGS: usize = 6;
pub fn relabel(scheme: usize, id: u32) -> u32 {
    match scheme {
        0 => 6000 - id,
        1 => (id * 37) % 8191 + 1,
        2 => id + 0xFFF0,
        3 => id + 0x003F_FFF0,
        4 => 0xFFFF_E000 + id,
        // numbers that mean something else elsewhere: the magic number, opcode numbers, plausible first words
        _ => [0x0723_0203u32, 54, 56, 248, 253, 17, 14, 59, 19, 21, 22, 43, 50, 52, 0x0002_0011, 0x0004_002B][id as usize % 16] + 0x0010_0000 * (id / 16),
    }
}
