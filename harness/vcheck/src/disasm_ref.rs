//! C07 oracles: an independent reference renderer (instruction model -> expected tokens) and an independent
//! reference reader (disassembly text -> words), both written from the property text and the golden names.
use crate::acceptor::TTy;
use crate::golden::{golden, Quant};
use crate::model::{self, Arg, Inst};
use std::collections::BTreeMap;

// ------------------------------------------------------------------ tokens

/// splits a line into tokens: runs of blanks outside string literals separate tokens
pub fn tokenize(line: &str) -> Vec<String> {
    let mut out = vec![];
    let mut cur = String::new();
    let mut chars = line.chars().peekable();
    while let Some(c) = chars.next() {
        if c == '"' {
            cur.push(c);
            // string literal: up to the next unescaped quote
            while let Some(d) = chars.next() {
                cur.push(d);
                if d == '\\' {
                    if let Some(e) = chars.next() {
                        cur.push(e);
                    }
                } else if d == '"' {
                    break;
                }
            }
        } else if c == ' ' || c == '\t' {
            if !cur.is_empty() {
                out.push(std::mem::take(&mut cur));
            }
        } else {
            cur.push(c);
        }
    }
    if !cur.is_empty() {
        out.push(cur);
    }
    out
}

/// undoes Rust's `escape_debug` quoting; None if the token is not a well-formed quoted string
pub fn unquote(tok: &str) -> Option<String> {
    let inner = tok.strip_prefix('"')?.strip_suffix('"')?;
    let mut out = String::new();
    let mut it = inner.chars();
    while let Some(c) = it.next() {
        if c == '"' {
            return None;
        }
        if c != '\\' {
            out.push(c);
            continue;
        }
        match it.next()? {
            'n' => out.push('\n'),
            'r' => out.push('\r'),
            't' => out.push('\t'),
            '0' => out.push('\0'),
            '\\' => out.push('\\'),
            '\'' => out.push('\''),
            '"' => out.push('"'),
            'u' => {
                if it.next()? != '{' {
                    return None;
                }
                let mut hex = String::new();
                loop {
                    let h = it.next()?;
                    if h == '}' {
                        break;
                    }
                    hex.push(h);
                }
                out.push(char::from_u32(u32::from_str_radix(&hex, 16).ok()?)?);
            }
            _ => return None,
        }
    }
    Some(out)
}

// ------------------------------------------------------------------ names

pub fn enum_name(kind: &str, n: u32) -> Option<String> {
    let g = golden();
    let name = g.enums.get(kind)?.name_of(n)?;
    Some(if kind == "Dim" { name.strip_prefix("Dim").unwrap_or(name).to_string() } else { name.to_string() })
}

pub fn enum_value(kind: &str, tok: &str) -> Option<u32> {
    let g = golden();
    let e = g.enums.get(kind)?;
    let full = if kind == "Dim" { format!("Dim{}", tok) } else { tok.to_string() };
    e.variants.iter().find(|v| v.0 == full).map(|v| v.1)
}

pub fn mask_text(kind: &str, bits: u32) -> String {
    let g = golden();
    if bits == 0 {
        return "None".to_string();
    }
    let mut nz: Vec<&(String, u32, String)> = g.masks[kind].nonzero();
    nz.sort_by_key(|b| b.1);
    nz.iter().filter(|b| bits & b.1 != 0).map(|b| b.2.as_str()).collect::<Vec<_>>().join("|")
}

pub fn mask_value(kind: &str, tok: &str) -> Option<u32> {
    let g = golden();
    if tok == "None" {
        return Some(0);
    }
    let mut bits = 0;
    for part in tok.split('|') {
        let b = g.masks[kind].nonzero().into_iter().find(|b| b.2 == part)?;
        if bits & b.1 != 0 {
            return None;
        }
        bits |= b.1;
    }
    Some(bits)
}

pub const GENERATORS: [&str; 16] = [
    "The Khronos Group", "LunarG", "Valve", "Codeplay", "NVIDIA", "ARM", "LLVM/SPIR-V Translator", "SPIR-V Tools Assembler", "Glslang", "Qualcomm", "AMD",
    "Intel", "Imagination", "Shaderc", "spiregg", "rspirv",
];

pub fn header_lines(version: u32, generator: u32, bound: u32) -> Vec<String> {
    let major = (version >> 16) & 0xFF;
    let minor = (version >> 8) & 0xFF;
    let tool = (generator >> 16) as usize;
    vec![
        "; SPIR-V".to_string(),
        format!("; Version: {}.{}", major, minor),
        format!("; Generator: {}", GENERATORS.get(tool).copied().unwrap_or("Unknown")),
        format!("; Bound: {}", bound),
    ]
}

// ------------------------------------------------------------------ context (trackers the text depends on)

#[derive(Clone, Copy, Debug, PartialEq, Eq)]
pub enum RTy {
    Int(u32, bool),
    Float(u32),
}

#[derive(Clone, Debug, PartialEq, Eq)]
pub enum ExtSet {
    Glsl,
    OpenCl,
}

#[derive(Default, Clone, Debug)]
pub struct Ctx {
    /// the disassembler's view: types tracked over the whole types/global-values section, in order
    pub render_types: BTreeMap<u32, RTy>,
    pub ext_sets: BTreeMap<u32, ExtSet>,
}

pub fn track_render(map: &mut BTreeMap<u32, RTy>, i: &Inst) {
    let g = golden();
    let Some(rid) = i.rid else { return };
    let name = i.name();
    if name == "TypeInt" {
        if let (Some(Arg::Lit32(w)), Some(Arg::Lit32(s))) = (i.args.first(), i.args.get(1)) {
            map.insert(rid, RTy::Int(*w, *s == 1));
        }
    } else if name == "TypeFloat" {
        if let Some(Arg::Lit32(w)) = i.args.first() {
            map.insert(rid, RTy::Float(*w));
        }
    } else if g.in_class("type", &name) || (g.in_class("either", &name) && name.starts_with("Type")) {
    } else if let Some(t) = i.rtype {
        if let Some(ty) = map.get(&t).copied() {
            map.insert(rid, ty);
        }
    }
}

pub fn ctx_of(ext_imports: &[Inst], global_values: &[Inst]) -> Ctx {
    let mut c = Ctx::default();
    for i in ext_imports {
        if i.name() == "ExtInstImport" {
            if let (Some(rid), Some(Arg::Str(s))) = (i.rid, i.args.first()) {
                if s == "GLSL.std.450" {
                    c.ext_sets.insert(rid, ExtSet::Glsl);
                } else if s == "OpenCL.std" {
                    c.ext_sets.insert(rid, ExtSet::OpenCl);
                }
            }
        }
    }
    for i in global_values {
        track_render(&mut c.render_types, i);
    }
    c
}

fn ext_name(set: &ExtSet, n: u32) -> Option<String> {
    let g = golden();
    let t = match set {
        ExtSet::Glsl => &g.glsl,
        ExtSet::OpenCl => &g.opencl,
    };
    t.iter().find(|e| e.opcode == n).map(|e| e.name.clone())
}
fn ext_number(set: &ExtSet, name: &str) -> Option<u32> {
    let g = golden();
    let t = match set {
        ExtSet::Glsl => &g.glsl,
        ExtSet::OpenCl => &g.opencl,
    };
    t.iter().find(|e| e.name == name).map(|e| e.opcode)
}

// ------------------------------------------------------------------ oracle 1: renderer

#[derive(Clone, Debug, PartialEq)]
pub enum Tok {
    Exact(String),
    /// a quoted, escaped rendering of this string
    Str(String),
    /// any numeric token: how 8/16-bit constant literals are spelled is not fixed by the statement (only injectivity is)
    AnyNumber,
    /// a float literal that reads back to these bits (any NaN for a NaN)
    F32(u32),
    F64(u64),
}

pub fn tok_matches(exp: &Tok, got: &str) -> bool {
    match exp {
        Tok::Exact(s) => s == got,
        Tok::Str(s) => unquote(got).as_deref() == Some(s.as_str()),
        Tok::AnyNumber => got.parse::<f64>().is_ok(),
        Tok::F32(bits) => match got.parse::<f32>() {
            Ok(v) => v.to_bits() == *bits || (v.is_nan() && f32::from_bits(*bits).is_nan()),
            Err(_) => false,
        },
        Tok::F64(bits) => match got.parse::<f64>() {
            Ok(v) => v.to_bits() == *bits || (v.is_nan() && f64::from_bits(*bits).is_nan()),
            Err(_) => false,
        },
    }
}

/// expected tokens of one instruction line. `global`: the instruction sits in a module-level section
/// (OpConstant literals are typed there); `in_block`: ext-inst names are resolved there.
pub fn expected_tokens(i: &Inst, ctx: &Ctx, global: bool, in_block: bool) -> Vec<Tok> {
    let mut t = vec![];
    if let Some(r) = i.rid {
        t.push(Tok::Exact(format!("%{}", r)));
        t.push(Tok::Exact("=".into()));
    }
    let name = i.name();
    t.push(Tok::Exact(format!("Op{}", name)));
    if let Some(rt) = i.rtype {
        t.push(Tok::Exact(format!("%{}", rt)));
    }
    // typed constant literal
    if global && name == "Constant" && i.args.len() == 1 {
        if let Some(ty) = i.rtype.and_then(|t| ctx.render_types.get(&t).copied()) {
            match (&i.args[0], ty) {
                (Arg::Lit32(_), RTy::Int(w, _)) | (Arg::Lit32(_), RTy::Float(w)) if w < 32 => {
                    t.push(Tok::AnyNumber);
                    return t;
                }
                (Arg::Lit32(v), RTy::Int(_, true)) => {
                    t.push(Tok::Exact((*v as i32).to_string()));
                    return t;
                }
                (Arg::Lit32(v), RTy::Int(_, false)) => {
                    t.push(Tok::Exact(v.to_string()));
                    return t;
                }
                (Arg::Lit32(v), RTy::Float(_)) => {
                    t.push(Tok::F32(*v));
                    return t;
                }
                (Arg::Lit64(v), RTy::Int(_, true)) => {
                    t.push(Tok::Exact((*v as i64).to_string()));
                    return t;
                }
                (Arg::Lit64(v), RTy::Int(_, false)) => {
                    t.push(Tok::Exact(v.to_string()));
                    return t;
                }
                (Arg::Lit64(v), RTy::Float(_)) => {
                    t.push(Tok::F64(*v));
                    return t;
                }
                _ => {}
            }
        }
    }
    let ext = if in_block && name == "ExtInst" {
        match (i.args.first(), i.args.get(1)) {
            (Some(Arg::IdRef(set)), Some(Arg::ExtInstNo(n))) => ctx.ext_sets.get(set).and_then(|s| ext_name(s, *n)),
            _ => None,
        }
    } else {
        None
    };
    for (idx, a) in i.args.iter().enumerate() {
        t.push(match a {
            Arg::Enum(k, n) => Tok::Exact(enum_name(k, *n).unwrap_or_else(|| format!("<undeclared {}>", n))),
            Arg::Mask(k, b) => Tok::Exact(mask_text(k, *b)),
            Arg::IdRef(v) | Arg::IdScope(v) | Arg::IdMemSem(v) => Tok::Exact(format!("%{}", v)),
            Arg::Lit32(v) => Tok::Exact(v.to_string()),
            Arg::Lit64(v) => Tok::Exact(v.to_string()),
            Arg::ExtInstNo(v) => match (&ext, idx) {
                (Some(nm), 1) => Tok::Exact(nm.clone()),
                _ => Tok::Exact(v.to_string()),
            },
            Arg::SpecOp(o) => Tok::Exact(model::opname(*o)),
            Arg::Str(s) => Tok::Str(s.clone()),
        });
    }
    t
}

// ------------------------------------------------------------------ oracle 2: reader (text -> words)

pub struct Reader {
    /// in-order literal widths, as the parser's tracker sees them (A.6)
    width: crate::acceptor::Tracker,
    /// whole-section rendering types (prepass), as the disassembler sees them
    render: BTreeMap<u32, RTy>,
    ext_sets: BTreeMap<u32, ExtSet>,
    in_function: bool,
    in_block: bool,
}

fn id_of(tok: &str) -> Option<u32> {
    tok.strip_prefix('%')?.parse::<u32>().ok()
}

struct Toks<'a> {
    t: &'a [String],
    i: usize,
}
impl<'a> Toks<'a> {
    fn more(&self) -> bool {
        self.i < self.t.len()
    }
    fn next(&mut self) -> Result<&'a str, String> {
        let x = self.t.get(self.i).ok_or_else(|| "missing token".to_string())?;
        self.i += 1;
        Ok(x)
    }
}

impl Reader {
    fn params(&self, toks: &mut Toks, ps: &[String], out: &mut Vec<Arg>) -> Result<(), String> {
        let g = golden();
        for p in ps {
            match p.as_str() {
                "IdRef" => out.push(Arg::IdRef(id_of(toks.next()?).ok_or("id expected")?)),
                "IdScope" => out.push(Arg::IdScope(id_of(toks.next()?).ok_or("id expected")?)),
                "IdMemorySemantics" => out.push(Arg::IdMemSem(id_of(toks.next()?).ok_or("id expected")?)),
                "LiteralBit32" => out.push(Arg::Lit32(toks.next()?.parse::<u32>().map_err(|e| e.to_string())?)),
                "LiteralString" => out.push(Arg::Str(unquote(toks.next()?).ok_or("string expected")?)),
                k if g.is_enum_kind(k) => {
                    let tk = toks.next()?;
                    let n = enum_value(k, tk).ok_or_else(|| format!("unknown {} enumerant {:?}", k, tk))?;
                    out.push(Arg::Enum(model::kind_static(k), n));
                    self.params(toks, &g.enum_params(k, n), out)?;
                }
                k if g.is_mask_kind(k) => {
                    let tk = toks.next()?;
                    let n = mask_value(k, tk).ok_or_else(|| format!("unknown {} mask {:?}", k, tk))?;
                    out.push(Arg::Mask(model::kind_static(k), n));
                    self.params(toks, &g.mask_params(k, n), out)?;
                }
                other => return Err(format!("parameter kind {}", other)),
            }
        }
        Ok(())
    }

    fn int_literal(tok: &str, words: usize) -> Result<Arg, String> {
        if words == 2 {
            Ok(Arg::Lit64(tok.parse::<u64>().map_err(|e| format!("{}: {:?}", e, tok))?))
        } else {
            Ok(Arg::Lit32(tok.parse::<u32>().map_err(|e| format!("{}: {:?}", e, tok))?))
        }
    }

    fn operand(&self, toks: &mut Toks, kind: &str, opname: &str, rtype: Option<u32>, so_far: &[Arg], nested: bool, out: &mut Vec<Arg>) -> Result<(), String> {
        let g = golden();
        match kind {
            "IdRef" | "IdScope" | "IdMemorySemantics" | "LiteralString" => self.params(toks, &[kind.to_string()], out)?,
            "LiteralInteger" | "LiteralFloat" => out.push(Arg::Lit32(toks.next()?.parse::<u32>().map_err(|e| e.to_string())?)),
            "LiteralExtInstInteger" => {
                let tk = toks.next()?;
                let set = match so_far.first() {
                    Some(Arg::IdRef(s)) if self.in_block && opname == "ExtInst" => self.ext_sets.get(s),
                    _ => None,
                };
                let n = match tk.parse::<u32>() {
                    Ok(n) => n,
                    Err(_) => set.and_then(|s| ext_number(s, tk)).ok_or_else(|| format!("unknown extended instruction {:?}", tk))?,
                };
                out.push(Arg::ExtInstNo(n));
            }
            "LiteralContextDependentNumber" => {
                if nested {
                    return Err("context literal cannot be nested".into());
                }
                let tk = toks.next()?;
                let words = rtype.and_then(|t| self.width.literal_words(t)).ok_or("unsupported literal width")?;
                let rty = if opname == "Constant" && !self.in_function { rtype.and_then(|t| self.render.get(&t).copied()) } else { None };
                out.push(match rty {
                    None => Self::int_literal(tk, words)?,
                    Some(RTy::Int(_, false)) => Self::int_literal(tk, words)?,
                    Some(RTy::Int(_, true)) => {
                        if words == 2 {
                            Arg::Lit64(tk.parse::<i64>().map_err(|e| e.to_string())? as u64)
                        } else {
                            Arg::Lit32(tk.parse::<i32>().map_err(|e| e.to_string())? as u32)
                        }
                    }
                    Some(RTy::Float(_)) => {
                        if words == 2 {
                            Arg::Lit64(tk.parse::<f64>().map_err(|e| e.to_string())?.to_bits())
                        } else {
                            Arg::Lit32(tk.parse::<f32>().map_err(|e| e.to_string())?.to_bits())
                        }
                    }
                });
            }
            "PairLiteralIntegerIdRef" => {
                let sel = match so_far.first() {
                    Some(Arg::IdRef(s)) => *s,
                    _ => 0,
                };
                let words = self.width.literal_words(sel).ok_or("unsupported selector width")?;
                out.push(Self::int_literal(toks.next()?, words)?);
                out.push(Arg::IdRef(id_of(toks.next()?).ok_or("id expected")?));
            }
            "PairIdRefLiteralInteger" => {
                out.push(Arg::IdRef(id_of(toks.next()?).ok_or("id expected")?));
                out.push(Arg::Lit32(toks.next()?.parse::<u32>().map_err(|e| e.to_string())?));
            }
            "PairIdRefIdRef" => {
                out.push(Arg::IdRef(id_of(toks.next()?).ok_or("id expected")?));
                out.push(Arg::IdRef(id_of(toks.next()?).ok_or("id expected")?));
            }
            "LiteralSpecConstantOpInteger" => {
                let tk = toks.next()?;
                let ni = g.by_name.get(tk).map(|&i| &g.insts[i]).ok_or_else(|| format!("unknown nested opcode {:?}", tk))?;
                out.push(Arg::SpecOp(ni.opcode));
                let mut inner = vec![];
                self.operands(toks, &ni.value_operands(), &ni.name, None, true, &mut inner)?;
                out.extend(inner);
            }
            k if g.is_enum_kind(k) || g.is_mask_kind(k) => self.params(toks, &[k.to_string()], out)?,
            other => return Err(format!("operand kind {}", other)),
        }
        Ok(())
    }

    fn operands(&self, toks: &mut Toks, ops: &[(String, Quant)], opname: &str, rtype: Option<u32>, nested: bool, out: &mut Vec<Arg>) -> Result<(), String> {
        for (kind, q) in ops {
            match q {
                Quant::One => {
                    let sf: Vec<Arg> = out.first().cloned().into_iter().collect(); // only the first operand is ever consulted
                    self.operand(toks, kind, opname, rtype, &sf, nested, out)?
                }
                Quant::ZeroOrOne => {
                    if toks.more() {
                        let sf: Vec<Arg> = out.first().cloned().into_iter().collect(); // only the first operand is ever consulted
                        self.operand(toks, kind, opname, rtype, &sf, nested, out)?
                    }
                }
                Quant::ZeroOrMore => {
                    while toks.more() {
                        let sf: Vec<Arg> = out.first().cloned().into_iter().collect(); // only the first operand is ever consulted
                        self.operand(toks, kind, opname, rtype, &sf, nested, out)?
                    }
                }
            }
        }
        Ok(())
    }

    fn line(&mut self, line: &str) -> Result<Inst, String> {
        let g = golden();
        let t = tokenize(line);
        let mut toks = Toks { t: &t, i: 0 };
        let mut rid = None;
        if t.len() >= 2 && t[1] == "=" {
            rid = Some(id_of(&t[0]).ok_or("result id expected")?);
            toks.i = 2;
        }
        let op = toks.next()?;
        let name = op.strip_prefix("Op").ok_or_else(|| format!("Op<name> expected, found {:?}", op))?;
        let gi = g.by_name.get(name).map(|&i| &g.insts[i]).ok_or_else(|| format!("unknown opcode {:?}", name))?;
        if gi.has_rid() != rid.is_some() {
            return Err(format!("Op{}: result id presence does not match the grammar", name));
        }
        let mut rtype = None;
        if gi.has_rtype() {
            rtype = Some(id_of(toks.next()?).ok_or("result type expected")?);
        }
        // structure tracking (ext-inst names are only printed inside blocks; constants are typed at module scope)
        match name {
            "Function" => self.in_function = true,
            "FunctionEnd" => {
                self.in_function = false;
                self.in_block = false
            }
            "Label" => self.in_block = true,
            _ => {}
        }
        let mut args = vec![];
        self.operands(&mut toks, &gi.value_operands(), name, rtype, false, &mut args)?;
        if toks.more() {
            return Err(format!("Op{}: tokens left over: {:?}", name, &t[toks.i..]));
        }
        let inst = Inst { opcode: gi.opcode, rtype, rid, args };
        if g.in_class("terminator", name) {
            self.in_block = false;
        }
        self.width.track(&inst);
        if name == "ExtInstImport" {
            if let (Some(r), Some(Arg::Str(s))) = (inst.rid, inst.args.first()) {
                if s == "GLSL.std.450" {
                    self.ext_sets.insert(r, ExtSet::Glsl);
                } else if s == "OpenCL.std" {
                    self.ext_sets.insert(r, ExtSet::OpenCl);
                }
            }
        }
        Ok(inst)
    }
}

/// Reads a whole disassembly back into the instruction stream (reference encoding). Err names the line.
pub fn read(text: &str) -> Result<Vec<u32>, String> {
    let lines: Vec<&str> = text.split('\n').collect();
    let body: Vec<&str> = lines.iter().copied().filter(|l| !l.starts_with(';')).collect();
    // prepass: rendering types over the module-scope lines (everything before the first OpFunction), in order.
    // Only self-describing lines are needed: OpTypeInt / OpTypeFloat declarations and result-type propagation.
    let mut render: BTreeMap<u32, RTy> = BTreeMap::new();
    for l in &body {
        let t = tokenize(l);
        if t.len() >= 3 && t[1] == "=" {
            if t[2] == "OpFunction" {
                break;
            }
            let Some(rid) = id_of(&t[0]) else { continue };
            if t[2] == "OpTypeInt" && t.len() >= 5 {
                if let (Ok(w), Ok(s)) = (t[3].parse::<u32>(), t[4].parse::<u32>()) {
                    render.insert(rid, RTy::Int(w, s == 1));
                }
            } else if t[2] == "OpTypeFloat" && t.len() >= 4 {
                if let Ok(w) = t[3].parse::<u32>() {
                    render.insert(rid, RTy::Float(w));
                }
            } else if t[2].starts_with("OpType") {
            } else if t.len() >= 4 {
                let name = &t[2][2..];
                let g = golden();
                if g.by_name.get(name).map_or(false, |&i| g.insts[i].has_rtype()) {
                    if let Some(ty) = id_of(&t[3]).and_then(|x| render.get(&x).copied()) {
                        render.insert(rid, ty);
                    }
                }
            }
        }
    }
    let mut r = Reader { width: Default::default(), render, ext_sets: BTreeMap::new(), in_function: false, in_block: false };
    let mut words = vec![];
    for (n, l) in body.iter().enumerate() {
        let inst = r.line(l).map_err(|e| format!("line {} {:?}: {}", n + 1, l, e))?;
        words.extend(model::enc(&inst));
    }
    Ok(words)
}

pub fn tty_to_rty(t: TTy, signed: bool) -> RTy {
    match t {
        TTy::Int(w) => RTy::Int(w, signed),
        TTy::Float(w) => RTy::Float(w),
    }
}
