//! Small shared helpers around the real rspirv API.
use rspirv::binary::{Consumer, ParseAction, ParseState};
use rspirv::dr;

#[derive(Default)]
pub struct Collector {
    pub header: Option<dr::ModuleHeader>,
    pub insts: Vec<dr::Instruction>,
    pub initialized: u32,
    pub finalized: u32,
    pub headers: u32,
}

impl Consumer for Collector {
    fn initialize(&mut self) -> ParseAction {
        self.initialized += 1;
        ParseAction::Continue
    }
    fn finalize(&mut self) -> ParseAction {
        self.finalized += 1;
        ParseAction::Continue
    }
    fn consume_header(&mut self, h: dr::ModuleHeader) -> ParseAction {
        self.headers += 1;
        self.header = Some(h);
        ParseAction::Continue
    }
    fn consume_instruction(&mut self, i: dr::Instruction) -> ParseAction {
        self.insts.push(i);
        ParseAction::Continue
    }
}

pub fn parse_collect(bytes: &[u8]) -> (Result<(), ParseState>, Collector) {
    let mut c = Collector::default();
    let r = rspirv::binary::parse_bytes(bytes, &mut c);
    (r, c)
}

pub fn parse_collect_words(words: &[u32]) -> (Result<(), ParseState>, Collector) {
    let mut c = Collector::default();
    let r = rspirv::binary::parse_words(words, &mut c);
    (r, c)
}

pub fn state_name(s: &ParseState) -> &'static str {
    match s {
        ParseState::Complete => "Complete",
        ParseState::ConsumerStopRequested => "ConsumerStopRequested",
        ParseState::ConsumerError(_) => "ConsumerError",
        ParseState::HeaderIncomplete(_) => "HeaderIncomplete",
        ParseState::HeaderIncorrect => "HeaderIncorrect",
        ParseState::EndiannessUnsupported => "EndiannessUnsupported",
        ParseState::WordCountZero(..) => "WordCountZero",
        ParseState::OpcodeUnknown(..) => "OpcodeUnknown",
        ParseState::OperandExpected(..) => "OperandExpected",
        ParseState::OperandExceeded(..) => "OperandExceeded",
        ParseState::OperandError(_) => "OperandError",
        ParseState::TypeUnsupported(..) => "TypeUnsupported",
        ParseState::SpecConstantOpIntegerIncorrect(..) => "SpecConstantOpIntegerIncorrect",
    }
}

/// all subsets of the set bits of `all`, ascending
pub fn subsets(all: u32) -> impl Iterator<Item = u32> {
    let mut cur: Option<u32> = Some(0);
    std::iter::from_fn(move || {
        let c = cur?;
        cur = if c == all { None } else { Some((c.wrapping_sub(all)) & all) };
        Some(c)
    })
}


/// A consumer that, at its `at`-th callback (0 = initialize, 1 = header, 2.. = instructions), runs a COMPLETE second
/// parse of `inner` into a fresh Collector before it continues (a linker-like consumer that loads what a module refers to).
pub struct Nesting<'a> {
    pub outer: Collector,
    pub inner_bytes: &'a [u8],
    pub at: usize,
    pub calls: usize,
    pub inner: Option<(Result<(), String>, Vec<dr::Instruction>)>,
}

impl<'a> Nesting<'a> {
    fn tick(&mut self) {
        if self.calls == self.at {
            let (r, c) = parse_collect(self.inner_bytes);
            self.inner = Some((r.map_err(|e| state_name(&e).to_string()), c.insts));
        }
        self.calls += 1;
    }
}

impl<'a> Consumer for Nesting<'a> {
    fn initialize(&mut self) -> ParseAction {
        self.tick();
        self.outer.initialize()
    }
    fn finalize(&mut self) -> ParseAction {
        self.tick();
        self.outer.finalize()
    }
    fn consume_header(&mut self, h: dr::ModuleHeader) -> ParseAction {
        self.tick();
        self.outer.consume_header(h)
    }
    fn consume_instruction(&mut self, i: dr::Instruction) -> ParseAction {
        self.tick();
        self.outer.consume_instruction(i)
    }
}

/// Re-entrancy: every ordered pair (outer, inner) of a family of small binaries with typed literals, unknown opcodes
/// and truncations, the inner one parsed from INSIDE the outer parse at every callback position: both results (Ok / error
/// class, delivered instructions) must be what each binary gives when parsed alone. Returns the number of nested parses
/// and descriptions of the differences (a panic counts as one).
pub fn nested_parse_sweep() -> (u64, Vec<(String, serde_json::Value)>) {
    use crate::model::{enc, header, words_to_bytes, Arg, Inst};
    use rayon::prelude::*;
    let mk = |v: Vec<Inst>, cut: usize, extra: &[u32]| -> Vec<u8> {
        let mut w = header(0x0001_0300, 0, 100);
        for i in &v {
            w.extend(enc(i));
        }
        w.extend_from_slice(extra);
        let n = w.len() - cut.min(w.len() - 5);
        words_to_bytes(&w[..n])
    };
    let t64 = Inst::new("TypeInt", None, Some(1), vec![Arg::Lit32(64), Arg::Lit32(0)]);
    let t32 = Inst::new("TypeInt", None, Some(1), vec![Arg::Lit32(32), Arg::Lit32(0)]);
    let t24 = Inst::new("TypeInt", None, Some(1), vec![Arg::Lit32(24), Arg::Lit32(0)]);
    let c64 = Inst::new("Constant", Some(1), Some(2), vec![Arg::Lit64(0x1_0000_0002)]);
    let c32 = Inst::new("Constant", Some(1), Some(2), vec![Arg::Lit32(7)]);
    let und = Inst::new("Undef", Some(1), Some(3), vec![]);
    let sw64 = Inst::new("Switch", None, None, vec![Arg::IdRef(3), Arg::IdRef(9), Arg::Lit64(5), Arg::IdRef(8)]);
    let sw32 = Inst::new("Switch", None, None, vec![Arg::IdRef(3), Arg::IdRef(9), Arg::Lit32(5), Arg::IdRef(8)]);
    let name = Inst::new("Name", None, None, vec![Arg::IdRef(1), Arg::Str("n\u{e9}".into())]);
    let ext = Inst::new("ExtInstImport", None, Some(5), vec![Arg::Str("GLSL.std.450".into())]);
    let family: Vec<Vec<u8>> = vec![
        mk(vec![], 0, &[]),
        mk(vec![t64.clone(), c64.clone()], 0, &[]),
        mk(vec![t32.clone(), c32.clone()], 0, &[]),
        mk(vec![t24.clone(), c32.clone()], 0, &[]),
        mk(vec![c32.clone()], 0, &[]),
        mk(vec![t64.clone(), und.clone(), sw64.clone(), c64.clone()], 0, &[]),
        mk(vec![t32.clone(), und.clone(), sw32.clone()], 0, &[]),
        mk(vec![t64.clone(), c64.clone()], 1, &[]),
        mk(vec![t64.clone(), c64.clone(), name.clone()], 0, &[(1 << 16) | 0x7777]),
        mk(vec![name.clone(), ext.clone(), t64.clone(), und.clone(), sw64.clone()], 0, &[0]),
        mk(vec![t64.clone(), c32.clone()], 0, &[]),
        mk(vec![t32.clone(), c64.clone()], 0, &[]),
    ];
    let alone: Vec<(Result<(), String>, Vec<crate::model::Inst>)> = family
        .iter()
        .map(|b| {
            let (r, c) = parse_collect(b);
            (r.map_err(|e| state_name(&e).to_string()), c.insts.iter().map(crate::model::from_dr).collect())
        })
        .collect();
    let work: Vec<(usize, usize, usize)> = (0..family.len()).flat_map(|o| (0..family.len()).flat_map(move |i| (0..7usize).map(move |at| (o, i, at)))).collect();
    let n = work.len() as u64;
    let bad: Vec<(String, serde_json::Value)> = work
        .par_iter()
        .filter_map(|&(o, i, at)| {
            let rep = serde_json::json!({"kind": "nested-parse", "outer": crate::report::hex(&family[o]), "inner": crate::report::hex(&family[i]), "at_callback": at});
            let r = crate::report::guarded(|| {
                let mut n = Nesting { outer: Collector::default(), inner_bytes: &family[i], at, calls: 0, inner: None };
                let res = rspirv::binary::parse_bytes(&family[o], &mut n);
                (res.map_err(|e| state_name(&e).to_string()), n.outer.insts.iter().map(crate::model::from_dr).collect::<Vec<_>>(), n.inner.map(|(r, v)| (r, v.iter().map(crate::model::from_dr).collect::<Vec<_>>())))
            });
            match r {
                Err(p) => Some((format!("panic: a consumer that parses binary #{} from inside callback {} of the parse of binary #{} makes the parser panic: {}", i, at, o, p), rep)),
                Ok((ro, io, inner)) => {
                    if (ro.clone(), io.clone()) != alone[o] {
                        return Some((format!("outer-differs: binary #{} parsed with a nested parse of #{} at callback {} gives {:?} / {} instructions; alone {:?} / {}", o, i, at, ro, io.len(), alone[o].0, alone[o].1.len()), rep));
                    }
                    if let Some((ri, ii)) = inner {
                        if (ri.clone(), ii.clone()) != alone[i] {
                            return Some((format!("inner-differs: binary #{} parsed from inside callback {} of the parse of #{} gives {:?} / {} instructions; alone {:?} / {}", i, at, o, ri, ii.len(), alone[i].0, alone[i].1.len()), rep));
                        }
                    }
                    None
                }
            }
        })
        .collect();
    (n, bad)
}
