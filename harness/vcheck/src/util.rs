//! Small shared helpers around the real rspirv API.
use rspirv::binary::{Consumer, ParseAction, ParseState};
use rspirv::dr;

#[derive(Default)]
pub struct Collector {
    pub header: Option<dr::ModuleHeader>,
    pub insts: Vec<dr::Instruction>,
    pub initialized: u32,
    pub finalized: u32,
    pub headers: u32,
}

impl Consumer for Collector {
    fn initialize(&mut self) -> ParseAction {
        self.initialized += 1;
        ParseAction::Continue
    }
    fn finalize(&mut self) -> ParseAction {
        self.finalized += 1;
        ParseAction::Continue
    }
    fn consume_header(&mut self, h: dr::ModuleHeader) -> ParseAction {
        self.headers += 1;
        self.header = Some(h);
        ParseAction::Continue
    }
    fn consume_instruction(&mut self, i: dr::Instruction) -> ParseAction {
        self.insts.push(i);
        ParseAction::Continue
    }
}

pub fn parse_collect(bytes: &[u8]) -> (Result<(), ParseState>, Collector) {
    let mut c = Collector::default();
    let r = rspirv::binary::parse_bytes(bytes, &mut c);
    (r, c)
}

pub fn parse_collect_words(words: &[u32]) -> (Result<(), ParseState>, Collector) {
    let mut c = Collector::default();
    let r = rspirv::binary::parse_words(words, &mut c);
    (r, c)
}

pub fn state_name(s: &ParseState) -> &'static str {
    match s {
        ParseState::Complete => "Complete",
        ParseState::ConsumerStopRequested => "ConsumerStopRequested",
        ParseState::ConsumerError(_) => "ConsumerError",
        ParseState::HeaderIncomplete(_) => "HeaderIncomplete",
        ParseState::HeaderIncorrect => "HeaderIncorrect",
        ParseState::EndiannessUnsupported => "EndiannessUnsupported",
        ParseState::WordCountZero(..) => "WordCountZero",
        ParseState::OpcodeUnknown(..) => "OpcodeUnknown",
        ParseState::OperandExpected(..) => "OperandExpected",
        ParseState::OperandExceeded(..) => "OperandExceeded",
        ParseState::OperandError(_) => "OperandError",
        ParseState::TypeUnsupported(..) => "TypeUnsupported",
        ParseState::SpecConstantOpIntegerIncorrect(..) => "SpecConstantOpIntegerIncorrect",
    }
}

/// all subsets of the set bits of `all`, ascending
pub fn subsets(all: u32) -> impl Iterator<Item = u32> {
    let mut cur: Option<u32> = Some(0);
    std::iter::from_fn(move || {
        let c = cur?;
        cur = if c == all { None } else { Some((c.wrapping_sub(all)) & all) };
        Some(c)
    })
}
