//! U-inst: bounded-exhaustive generator of grammar-conforming instruction instances (DESIGN.md section 4),
//! built from the golden grammar only. Every instance is a model value; its reference encoding is `model::enc`.
use crate::golden::{golden, GInst, Quant};
use crate::model::{kind_static, Arg, Inst};
use crate::report::Tier;

pub const STR_CLASSES: [&str; 6] = ["A", "é", "€", "😀", "\"", "\n"];

pub fn is_id_kind(k: &str) -> bool {
    matches!(k, "IdRef" | "IdScope" | "IdMemorySemantics")
}

fn id_arg(kind: &str, v: u32) -> Arg {
    match kind {
        "IdScope" => Arg::IdScope(v),
        "IdMemorySemantics" => Arg::IdMemSem(v),
        _ => Arg::IdRef(v),
    }
}

/// arguments for a parameter list given as dr::Operand variant names (golden `params`)
pub fn param_args(ps: &[String], base: u32) -> Vec<Arg> {
    let g = golden();
    ps.iter()
        .enumerate()
        .map(|(i, p)| {
            let v = base + i as u32;
            match p.as_str() {
                "IdRef" | "IdScope" | "IdMemorySemantics" => id_arg(p, v),
                "LiteralBit32" => Arg::Lit32(v),
                "LiteralString" => Arg::Str(format!("p{}", i)),
                k if g.is_enum_kind(k) => Arg::Enum(kind_static(k), g.enums[k].variants[0].1),
                k if g.is_mask_kind(k) => Arg::Mask(kind_static(k), 0),
                other => panic!("parameter kind {other}"),
            }
        })
        .collect()
}

pub fn enum_with_params(kind: &str, n: u32, base: u32) -> Vec<Arg> {
    let g = golden();
    let mut v = vec![Arg::Enum(kind_static(kind), n)];
    v.extend(param_args(&g.enum_params(kind, n), base));
    v
}

pub fn mask_with_params(kind: &str, bits: u32, base: u32) -> Vec<Arg> {
    let g = golden();
    let mut v = vec![Arg::Mask(kind_static(kind), bits)];
    v.extend(param_args(&g.mask_params(kind, bits), base));
    v
}

/// can `opcode` be nested in OpSpecConstantOp within the grammar-directed operand model
pub fn nestable(gi: &GInst) -> bool {
    !gi.value_operands().iter().any(|(k, _)| matches!(k.as_str(), "LiteralContextDependentNumber" | "LiteralSpecConstantOpInteger" | "PairLiteralIntegerIdRef"))
}

/// the opcodes the SPIR-V specification permits under OpSpecConstantOp (core, Shader/Kernel lists)
pub const SPEC_PERMITTED: &[&str] = &[
    "SConvert", "FConvert", "UConvert", "SNegate", "Not", "IAdd", "ISub", "IMul", "UDiv", "SDiv", "UMod", "SRem", "SMod",
    "ShiftRightLogical", "ShiftRightArithmetic", "ShiftLeftLogical", "BitwiseOr", "BitwiseXor", "BitwiseAnd",
    "VectorShuffle", "CompositeExtract", "CompositeInsert", "LogicalOr", "LogicalAnd", "LogicalNot", "LogicalEqual", "LogicalNotEqual",
    "Select", "IEqual", "INotEqual", "ULessThan", "SLessThan", "UGreaterThan", "SGreaterThan", "ULessThanEqual", "SLessThanEqual",
    "UGreaterThanEqual", "SGreaterThanEqual", "QuantizeToF16", "ConvertFToS", "ConvertSToF", "ConvertFToU", "ConvertUToF",
    "ConvertPtrToU", "ConvertUToPtr", "GenericCastToPtr", "PtrCastToGeneric", "Bitcast", "FNegate", "FAdd", "FSub", "FMul", "FDiv",
    "FRem", "FMod", "AccessChain", "InBoundsAccessChain", "PtrAccessChain", "InBoundsPtrAccessChain",
];

/// default arguments for one occurrence of operand kind `kind` at value-operand position `pos`, repetition `rep`
pub fn default_args(kind: &str, pos: usize, rep: usize) -> Vec<Arg> {
    let g = golden();
    let idv = 2000 + 16 * pos as u32 + rep as u32;
    let lit = 3000 + 16 * pos as u32 + rep as u32;
    match kind {
        "IdRef" | "IdScope" | "IdMemorySemantics" => vec![id_arg(kind, idv)],
        "LiteralInteger" | "LiteralFloat" => vec![Arg::Lit32(lit)],
        "LiteralString" => vec![Arg::Str(format!("s{}", pos))],
        "LiteralContextDependentNumber" => vec![Arg::Lit32(lit)],
        "LiteralExtInstInteger" => vec![Arg::ExtInstNo(1)],
        "LiteralSpecConstantOpInteger" => {
            let mut v = vec![Arg::SpecOp(g.opcode("IAdd"))];
            v.push(Arg::IdRef(idv + 1));
            v.push(Arg::IdRef(idv + 2));
            v
        }
        "PairLiteralIntegerIdRef" => vec![Arg::Lit32(lit), Arg::IdRef(idv)],
        "PairIdRefLiteralInteger" => vec![Arg::IdRef(idv), Arg::Lit32(lit)],
        "PairIdRefIdRef" => vec![Arg::IdRef(idv), Arg::IdRef(idv + 8)],
        k if g.is_enum_kind(k) => enum_with_params(k, g.enums[k].variants[0].1, 500 + 16 * pos as u32),
        k if g.is_mask_kind(k) => mask_with_params(k, 0, 500 + 16 * pos as u32),
        other => panic!("operand kind {other}"),
    }
}

#[derive(Clone, Debug)]
pub struct Shape {
    /// one-line shape id for replay files
    pub id: String,
    pub inst: Inst,
}

fn build(gi: &GInst, n_opt: usize, n_var: usize, over: Option<(usize, usize, Vec<Arg>)>) -> Inst {
    // n_opt: how many optional operands (trailing-run, in order) are present; n_var: repetitions of a variadic operand
    let mut args = vec![];
    let vo = gi.value_operands();
    let mut opt_seen = 0;
    for (pos, (k, q)) in vo.iter().enumerate() {
        let reps = match q {
            Quant::One => 1,
            Quant::ZeroOrOne => {
                opt_seen += 1;
                if opt_seen <= n_opt {
                    1
                } else {
                    0
                }
            }
            Quant::ZeroOrMore => n_var,
        };
        for rep in 0..reps {
            match &over {
                Some((p, r, a)) if *p == pos && *r == rep => args.extend(a.iter().cloned()),
                _ => args.extend(default_args(k, pos, rep)),
            }
        }
    }
    Inst { opcode: gi.opcode, rtype: if gi.has_rtype() { Some(1000) } else { None }, rid: if gi.has_rid() { Some(1001) } else { None }, args }
}

/// the minimal shape of `gi` with every optional operand up to value-operand position `pos` present and the operand
/// at `pos` replaced by `args`
pub fn with_operand(gi: &GInst, pos: usize, args: Vec<Arg>) -> Inst {
    let n_opt = gi.value_operands()[..=pos].iter().filter(|o| o.1 == Quant::ZeroOrOne).count();
    build(gi, n_opt, 0, Some((pos, 0, args)))
}

pub fn n_optional(gi: &GInst) -> usize {
    gi.value_operands().iter().filter(|o| o.1 == Quant::ZeroOrOne).count()
}
pub fn has_variadic(gi: &GInst) -> bool {
    gi.value_operands().iter().any(|o| o.1 == Quant::ZeroOrMore)
}

pub fn minimal(gi: &GInst) -> Inst {
    build(gi, 0, 0, None)
}
pub fn fullest(gi: &GInst) -> Inst {
    build(gi, n_optional(gi), if has_variadic(gi) { 2 } else { 0 }, None)
}

pub fn strings(tier: Tier) -> Vec<String> {
    let maxlen = tier.pick(9, 17);
    let mut out = vec![String::new()];
    for c in STR_CLASSES {
        let mut s = String::new();
        loop {
            s.push_str(c);
            if s.len() > maxlen {
                break;
            }
            out.push(s.clone());
        }
    }
    // mixed
    out.push("A\"é\n€😀".to_string());
    // a byte order mark in front, in the middle, alone
    out.push("\u{FEFF}ab".to_string());
    out.push("a\u{FEFF}b".to_string());
    out.push("\u{FEFF}".to_string());
    out.extend(string_zoo());
    out.sort();
    out.dedup();
    out
}

/// strings chosen for their CONTENT: code points at every UTF-8 encoding boundary and the replacement / non-characters,
/// control characters and blanks at either end, quotes and backslashes next to multi-byte characters, a multi-byte
/// character straddling every byte offset 1..=20, and texts that look like something else (set names, ids, opcodes,
/// numbers, comments, linker remarks)
pub fn string_zoo() -> Vec<String> {
    let mut out: Vec<String> = vec![];
    for c in ['\u{7f}', '\u{80}', '\u{7ff}', '\u{800}', '\u{d7ff}', '\u{e000}', '\u{fffd}', '\u{fffe}', '\u{ffff}', '\u{10000}', '\u{10ffff}', '\u{85}', '\u{a0}', '\u{2028}', '\u{1}', '\u{1b}'] {
        out.push(c.to_string());
        out.push(format!("a{}b", c));
        out.push(format!("x{}", c));
    }
    for t in ["x\n", "x\r\n", "x\t", "\tx", "x ", " x", "\n", " ", "x\n\n", "line1\nline2\n"] {
        out.push(t.to_string());
    }
    for t in ["\u{e9}\"", "\u{65e5}\"\u{672c}\"", "\u{e9}\\", "\\\u{e9}", "\"\"", "\\\\", "\\n", "a\\", "\"", "\\\"", "\u{1f600}\"x"] {
        out.push(t.to_string());
    }
    for k in 0..=20usize {
        out.push(format!("{}\u{65e5}b", "a".repeat(k)));
    }
    for t in ["Linked by x", "OpenCL.std", "GLSL.std.450", "OpenCL.std.100", "GLSL.std.450x", "ext1.\u{65e5}\u{672c}\u{8a9e}.std", "main", "%1", "OpNop", "; comment", "0x10", "-1", "1.5", "true", "SPV_KHR_x", "NonSemantic.Shader.DebugInfo.100"] {
        out.push(t.to_string());
    }
    out
}

/// every shape of one opcode within the tier's bounds
pub fn shapes(gi: &GInst, tier: Tier) -> Vec<Shape> {
    let g = golden();
    let mut out: Vec<Shape> = vec![];
    let name = &gi.name;
    let nopt = n_optional(gi);
    let var = has_variadic(gi);
    let vo = gi.value_operands();
    let max_var = tier.pick(2, 3);
    // optional trailing run x variadic count (variadic only with every optional present: it is the last operand)
    for no in 0..=nopt {
        out.push(Shape { id: format!("{}:opt{}", name, no), inst: build(gi, no, 0, None) });
    }
    if var {
        for nv in 1..=max_var {
            out.push(Shape { id: format!("{}:opt{}:var{}", name, nopt, nv), inst: build(gi, nopt, nv, None) });
        }
    }
    let nv_full = if var { 1 } else { 0 };
    // one position varied at a time, the others at their defaults, every optional present
    for (pos, (k, q)) in vo.iter().enumerate() {
        if *q == Quant::ZeroOrMore && !var {
            continue;
        }
        let kind = k.as_str();
        let mut variants: Vec<(String, Vec<Arg>)> = vec![];
        if g.is_enum_kind(kind) {
            for (vn, n) in &g.enums[kind].variants {
                variants.push((format!("{}={}", kind, vn), enum_with_params(kind, *n, 500 + 16 * pos as u32)));
            }
        } else if g.is_mask_kind(kind) {
            let m = &g.masks[kind];
            let nz = m.nonzero();
            for b in &nz {
                variants.push((format!("{}={}", kind, b.0), mask_with_params(kind, b.1, 500 + 16 * pos as u32)));
            }
            variants.push((format!("{}=ALL", kind), mask_with_params(kind, m.all(), 500 + 16 * pos as u32)));
            if tier == Tier::Thorough {
                for (i, a) in nz.iter().enumerate() {
                    for b in &nz[i + 1..] {
                        variants.push((format!("{}={}|{}", kind, a.0, b.0), mask_with_params(kind, a.1 | b.1, 500 + 16 * pos as u32)));
                    }
                }
            }
        } else if is_id_kind(kind) {
            // 0, 2^32-1, and two numbers that mean something else elsewhere in a binary: the magic number and a
            // plausible first word of an instruction (OpCapability with word count 2)
            for v in [0u32, 0xFFFF_FFFF, 0x0723_0203, 0x0002_0011] {
                variants.push((format!("id={:#x}", v), vec![id_arg(kind, v)]));
            }
        } else if matches!(kind, "LiteralInteger" | "LiteralFloat" | "LiteralExtInstInteger") {
            for v in [0u32, 1, 0x8000_0000, 0xFFFF_FFFF, 0x0723_0203, 0x0002_0011] {
                variants.push((format!("lit={:#x}", v), vec![if kind == "LiteralExtInstInteger" { Arg::ExtInstNo(v) } else { Arg::Lit32(v) }]));
            }
        } else if kind == "LiteralString" {
            for s in strings(tier) {
                variants.push((format!("str={:?}", s), vec![Arg::Str(s)]));
            }
        } else if kind == "LiteralContextDependentNumber" {
            for v in [0u32, 1, 0x8000_0000, 0xFFFF_FFFF, 0x0723_0203, 0x0002_0011] {
                variants.push((format!("ctx32={:#x}", v), vec![Arg::Lit32(v)]));
            }
        } else if kind.starts_with("Pair") {
            for v in [0u32, 0xFFFF_FFFF] {
                let a = match kind {
                    "PairLiteralIntegerIdRef" => vec![Arg::Lit32(v), Arg::IdRef(!v)],
                    "PairIdRefLiteralInteger" => vec![Arg::IdRef(v), Arg::Lit32(!v)],
                    _ => vec![Arg::IdRef(v), Arg::IdRef(!v)],
                };
                variants.push((format!("pair={:#x}", v), a));
            }
        } else if kind == "LiteralSpecConstantOpInteger" {
            for ni in &g.insts {
                if !nestable(ni) {
                    continue;
                }
                // minimal nested operand list; the spec-permitted opcodes additionally with every optional/variadic shape
                let mut nested_shapes = vec![("min".to_string(), build(ni, 0, 0, None))];
                if SPEC_PERMITTED.contains(&ni.name.as_str()) {
                    let no = n_optional(ni);
                    for o in 1..=no {
                        nested_shapes.push((format!("opt{}", o), build(ni, o, 0, None)));
                    }
                    if has_variadic(ni) {
                        for nv in 1..=4 {
                            nested_shapes.push((format!("var{}", nv), build(ni, no, nv, None)));
                        }
                    }
                }
                for (sid, nsh) in nested_shapes {
                    let mut a = vec![Arg::SpecOp(ni.opcode)];
                    a.extend(nsh.args);
                    variants.push((format!("specop={}:{}", ni.name, sid), a));
                }
            }
        }
        for (vid, a) in variants {
            out.push(Shape { id: format!("{}:pos{}:{}", name, pos, vid), inst: build(gi, nopt, nv_full, Some((pos, 0, a))) });
        }
    }
    // result type / result id extremes
    if gi.has_rid() || gi.has_rtype() {
        for v in [0u32, 0xFFFF_FFFF] {
            let mut i = minimal(gi);
            if i.rtype.is_some() {
                i.rtype = Some(v);
            }
            if i.rid.is_some() {
                i.rid = Some(!v);
            }
            out.push(Shape { id: format!("{}:result={:#x}", name, v), inst: i });
        }
    }
    out
}

/// the whole U-inst (context-dependent literal widths are generated by the checks that build a type context)
/// U-scale: sizes, counts and values on both sides of every threshold a counter, a buffer or a cast could have.
///  * every opcode with a literal string: string lengths around 2^6, 2^8, 2^10, 2^12, 2^16 and the longest that fits
///    the 16-bit word count (ASCII and two-byte characters);
///  * two carriers per variadic operand kind: repetition counts around 2^8, 2^10, 2^12 and the largest that fits;
///  * ids (result type, result id, every id operand) at 2^16 - 1, 2^16, 2^24, 2^31 - 1, 2^31, 2^32 - 1.
pub fn scale_shapes(tier: Tier) -> Vec<Shape> {
    let g = golden();
    let mut out = vec![];
    let lens: Vec<usize> = match tier {
        Tier::Quick => vec![63, 64, 255, 256, 257, 1023, 1024, 4096, 65535, 65536],
        Tier::Thorough => vec![61, 62, 63, 64, 65, 127, 128, 129, 255, 256, 257, 511, 512, 1023, 1024, 1025, 4095, 4096, 4097, 16384, 65535, 65536, 65537, 131072],
    };
    for gi in &g.insts {
        let vo = gi.value_operands();
        // strings
        if let Some(pos) = vo.iter().position(|(k, q)| k == "LiteralString" && *q != Quant::ZeroOrMore) {
            let n_opt = vo[..=pos].iter().filter(|o| o.1 == Quant::ZeroOrOne).count();
            let base = build(gi, n_opt, 0, None);
            let fixed_words = crate::model::enc(&base).len();
            let max_bytes = (0xFFFF - fixed_words) * 4; // the longest string that still fits (its NUL takes the spare word)
            let mut ls = lens.clone();
            // max_bytes .. max_bytes + 3 all give a word count of exactly 65535 (the terminator shares the last word)
            ls.extend([max_bytes, max_bytes - 1, max_bytes - 4, max_bytes + 1, max_bytes + 2, max_bytes + 3]);
            for l in ls {
                if l > max_bytes + 3 {
                    continue;
                }
                let ascii: String = (0..l).map(|i| (b'a' + (i % 26) as u8) as char).collect();
                out.push(Shape { id: format!("{}:scale:str{}", gi.name, l), inst: build(gi, n_opt, 0, Some((pos, 0, vec![Arg::Str(ascii)]))) });
                if l % 2 == 0 && (l <= 4096 || l == max_bytes - max_bytes % 2) {
                    let two: String = (0..l / 2).map(|_| 'é').collect();
                    out.push(Shape { id: format!("{}:scale:str{}x2byte", gi.name, l), inst: build(gi, n_opt, 0, Some((pos, 0, vec![Arg::Str(two)]))) });
                }
            }
        }
    }
    // variadic operands: two carriers per kind (the first two opcodes in table order that have it)
    let mut per_kind: std::collections::BTreeMap<String, usize> = std::collections::BTreeMap::new();
    let counts: Vec<usize> = match tier {
        Tier::Quick => vec![255, 256, 257, 1024, 4096],
        Tier::Thorough => vec![127, 128, 254, 255, 256, 257, 511, 512, 1023, 1024, 1025, 4095, 4096, 4097, 16384, 32768],
    };
    for gi in &g.insts {
        let vo = gi.value_operands();
        let Some((k, _)) = vo.iter().find(|o| o.1 == Quant::ZeroOrMore) else { continue };
        let c = per_kind.entry(k.clone()).or_insert(0);
        if *c >= 2 && !matches!(gi.name.as_str(), "Switch" | "Phi" | "TypeStruct" | "EntryPoint" | "AccessChain" | "ExtInst" | "FunctionCall" | "CompositeConstruct" | "ConstantComposite" | "VectorShuffle" | "GroupDecorate" | "GroupMemberDecorate" | "TypeFunction") {
            continue;
        }
        *c += 1;
        let n_opt = n_optional(gi);
        let zero = crate::model::enc(&build(gi, n_opt, 0, None)).len();
        let one = crate::model::enc(&build(gi, n_opt, 1, None)).len();
        let per = (one - zero).max(1);
        let max_n = (0xFFFF - zero) / per;
        let mut cs = counts.clone();
        cs.extend([max_n, max_n - 1]);
        for n in cs {
            if n > max_n {
                continue;
            }
            out.push(Shape { id: format!("{}:scale:var{}", gi.name, n), inst: build(gi, n_opt, n, None) });
        }
    }
    // ids at the far end of the range
    for name in ["IAdd", "TypeStruct", "Decorate", "Phi", "Switch", "ExtInst", "TypeInt", "Name", "EntryPoint", "ControlBarrier", "AtomicIAdd"] {
        let gi = g.inst(name);
        for v in [0xFFFFu32, 0x1_0000, 0x00FF_FFFF, 0x0100_0000, 0x7FFF_FFFF, 0x8000_0000, 0xFFFF_FFFE, 0xFFFF_FFFF] {
            let mut i = fullest(gi);
            i.rtype = i.rtype.map(|_| v);
            i.rid = i.rid.map(|_| v ^ 1);
            for (k, a) in i.args.iter_mut().enumerate() {
                let w = v.wrapping_sub(k as u32 % 2);
                match a {
                    Arg::IdRef(x) | Arg::IdScope(x) | Arg::IdMemSem(x) => *x = w,
                    _ => {}
                }
            }
            out.push(Shape { id: format!("{}:scale:id{:#x}", name, v), inst: i });
        }
    }
    out
}

/// U-pattern: shapes that are too many (or too similar) for the corruption universe but matter for the clean paths:
///  * every opcode with a variadic operand with 3, 4 and 5 repetitions (a middle element that is neither first nor last);
///  * every mask kind: every combination of exactly three declared bits (every subset for masks of <= 8 bits);
///  * 32-bit literal / id payloads with particular bit patterns (sign bit, top byte, alternating bits, low half zero,
///    a value and its byte-swapped form) at every literal / id position of a few carriers.
pub fn pattern_shapes(tier: Tier) -> Vec<Shape> {
    let g = golden();
    let mut out = vec![];
    for gi in &g.insts {
        if has_variadic(gi) {
            for n in [3usize, 4, 5] {
                out.push(Shape { id: format!("{}:pattern:var{}", gi.name, n), inst: build(gi, n_optional(gi), n, None) });
            }
        }
    }
    // parameterised enumerants whose parameter is itself an enumeration or a mask: every value of that parameter
    // (Decorate .. LinkageAttributes "name" Import, FPRoundingMode RTZ, BuiltIn x, FPFastMathMode bits ..), hosted by every
    // opcode that takes the kind as a plain operand
    for gi in &g.insts {
        let vo = gi.value_operands();
        for (pos, (kind, q)) in vo.iter().enumerate() {
            if !g.is_enum_kind(kind) || *q == Quant::ZeroOrMore || !g.params.contains_key(kind.as_str()) {
                continue;
            }
            for (_, n) in g.enums[kind].variants.iter() {
                let ps = g.enum_params(kind, *n);
                for (pi, pk) in ps.iter().enumerate() {
                    let vals: Vec<u32> = if g.is_enum_kind(pk) { g.enums[pk].declared().into_iter().collect() } else if g.is_mask_kind(pk) { let m = &g.masks[pk]; m.nonzero().iter().map(|b| b.1).chain([0, m.all()]).collect() } else { continue };
                    for v in vals {
                        let mut args = enum_with_params(kind, *n, 500 + 16 * pos as u32);
                        // args[0] is the enumerant itself, args[1 + pi] its pi-th parameter (parameters are single args here)
                        if let Some(slot) = args.get_mut(1 + pi) {
                            *slot = if g.is_enum_kind(pk) { Arg::Enum(crate::model::kind_static(pk), v) } else { Arg::Mask(crate::model::kind_static(pk), v) };
                        } else {
                            continue;
                        }
                        let n_opt = vo[..=pos].iter().filter(|o| o.1 == Quant::ZeroOrOne).count();
                        out.push(Shape { id: format!("{}:pattern:{}={}:param{}={}", gi.name, kind, n, pi, v), inst: build(gi, n_opt, 0, Some((pos, 0, args))) });
                    }
                }
            }
        }
    }
    // equal ids in several places: every id of the fullest shape (and of the three-repetition shape) is the same number
    for gi in &g.insts {
        let mut v = vec![fullest(gi)];
        if has_variadic(gi) {
            v.push(build(gi, n_optional(gi), 3, None));
        }
        for (k, i) in v.into_iter().enumerate() {
            let a = crate::model::remap_ids(&i, &|_| 7);
            out.push(Shape { id: format!("{}:pattern:all-ids-equal{}", gi.name, k), inst: a });
        }
    }
    // masks: one carrier per kind (the first opcode in table order that has the kind as a plain operand)
    let mut done: std::collections::BTreeSet<String> = std::collections::BTreeSet::new();
    for gi in &g.insts {
        let vo = gi.value_operands();
        for (pos, (kind, q)) in vo.iter().enumerate() {
            if !g.is_mask_kind(kind) || *q == Quant::ZeroOrMore || done.contains(kind) {
                continue;
            }
            done.insert(kind.clone());
            let n_opt = vo[..=pos].iter().filter(|o| o.1 == Quant::ZeroOrOne).count();
            let bits: Vec<u32> = g.masks[kind].nonzero().iter().map(|b| b.1).filter(|b| b.count_ones() == 1).collect();
            let mut combos: Vec<u32> = vec![];
            if bits.len() <= 8 {
                for sub in 0u32..(1 << bits.len()) {
                    combos.push(bits.iter().enumerate().filter(|(i, _)| sub & (1 << i) != 0).map(|(_, b)| *b).fold(0, |a, b| a | b));
                }
            } else {
                let lim = if tier == Tier::Thorough { bits.len() } else { bits.len().min(16) };
                for a in 0..lim {
                    for b in a + 1..lim {
                        for c in b + 1..lim {
                            combos.push(bits[a] | bits[b] | bits[c]);
                        }
                    }
                }
            }
            for m in combos {
                out.push(Shape { id: format!("{}:pattern:{}={:#x}", gi.name, kind, m), inst: build(gi, n_opt, 0, Some((pos, 0, mask_with_params(kind, m, 500 + 16 * pos as u32)))) });
            }
        }
    }
    // bit patterns at every id / 32-bit literal position of a few carriers
    let pats = [0x8000_0001u32, 0xFF00_0000, 0x00FF_0000, 0xAAAA_AAAA, 0x5555_5555, 0x1234_0000, 0x0000_8000, 0x7FFF_FFFE, 0x0102_0304, 0x0403_0201, 0x8000_0000 | 54];
    for name in ["IAdd", "Decorate", "MemberDecorate", "TypeInt", "TypeVector", "TypeArray", "Line", "Source", "CompositeExtract", "VectorShuffle", "ExtInst", "AccessChain", "Phi", "LoopMerge", "ExecutionMode", "Switch", "ControlBarrier"] {
        let gi = g.inst(name);
        let base = fullest(gi);
        for (k, a) in base.args.iter().enumerate() {
            for p in pats {
                let na = match a {
                    Arg::IdRef(_) => Arg::IdRef(p),
                    Arg::IdScope(_) => Arg::IdScope(p),
                    Arg::IdMemSem(_) => Arg::IdMemSem(p),
                    Arg::Lit32(_) => Arg::Lit32(p),
                    Arg::ExtInstNo(_) => Arg::ExtInstNo(p),
                    _ => continue,
                };
                let mut i = base.clone();
                i.args[k] = na;
                out.push(Shape { id: format!("{}:pattern:arg{}={:#x}", name, k, p), inst: i });
            }
        }
        for p in pats {
            let mut i = base.clone();
            if i.rid.is_some() {
                i.rid = Some(p);
                i.rtype = i.rtype.map(|_| p ^ 0xFFFF);
                out.push(Shape { id: format!("{}:pattern:result={:#x}", name, p), inst: i });
            }
        }
    }
    out
}

pub fn all_shapes(tier: Tier) -> Vec<Shape> {
    let g = golden();
    let mut out = vec![];
    for gi in &g.insts {
        out.extend(shapes(gi, tier));
    }
    out
}

// ------------------------------------------------------------------ embedding (U-ctx)

#[derive(Clone, Copy, Debug, PartialEq, Eq, Hash, PartialOrd, Ord)]
pub enum Class {
    Function,
    FunctionEnd,
    Parameter,
    Label,
    Terminator,
    Variable,
    Undef,
    Line,
    /// module-level, with the index of its section (0..=10)
    Module(usize),
    /// everything else: must sit inside a block
    Block,
}

pub fn class_of(name: &str) -> Class {
    let g = golden();
    match name {
        "Function" => Class::Function,
        "FunctionEnd" => Class::FunctionEnd,
        "FunctionParameter" => Class::Parameter,
        "Label" => Class::Label,
        "Variable" => Class::Variable,
        "Undef" => Class::Undef,
        "Line" | "NoLine" => Class::Line,
        "Capability" => Class::Module(0),
        "Extension" => Class::Module(1),
        "ExtInstImport" => Class::Module(2),
        "MemoryModel" => Class::Module(3),
        "EntryPoint" => Class::Module(4),
        "ExecutionMode" | "ExecutionModeId" => Class::Module(5),
        "String" | "SourceExtension" | "Source" | "SourceContinued" => Class::Module(6),
        "Name" | "MemberName" => Class::Module(7),
        "ModuleProcessed" => Class::Module(8),
        n if g.in_class("terminator", n) => Class::Terminator,
        n if g.in_class("annotation", n) => Class::Module(9),
        n if g.in_class("type", n) || g.in_class("constant", n) => Class::Module(10),
        _ => Class::Block,
    }
}

/// opcodes whose placement the logical layout does not fix by opcode alone (outside C05/C01 placement claims)
pub fn placement_dont_care(name: &str) -> bool {
    let g = golden();
    g.in_class("either", name)
        || matches!(
            name,
            "UntypedVariableKHR" | "ExtInst" | "ExtInstWithForwardRefsKHR" | "SamplerImageAddressingModeNV" | "AsmTargetINTEL" | "AsmINTEL"
                | "AliasDomainDeclINTEL" | "AliasScopeDeclINTEL" | "AliasScopeListDeclINTEL" | "ConditionalExtensionINTEL"
                | "ConditionalEntryPointINTEL" | "ConditionalCapabilityINTEL" | "ArithmeticFenceEXT" | "SpecConstantTargetINTEL"
                | "SpecConstantArchitectureINTEL" | "SpecConstantCapabilitiesINTEL" | "GraphConstantARM" | "GraphARM" | "GraphEntryPointARM"
        )
}


/// Id-relation sequences: every sequence of length <= `len` over instructions whose result type / result id / selector
/// are drawn from {1,2,3}: values typed by values, rings of ids (%1 = OpUndef %2, %2 = OpUndef %1), types declared
/// after their use, then a consumer (constant / switch / further value) that makes the reader follow the chain.
pub fn id_relation_sequences(len: usize) -> Vec<(String, Vec<Inst>)> {
    let mut sym: Vec<(String, Inst)> = vec![];
    for a in 1..=3u32 {
        for b in 1..=3u32 {
            sym.push((format!("U{}{}", a, b), Inst::new("Undef", Some(a), Some(b), vec![])));
        }
    }
    for r in 1..=2u32 {
        sym.push((format!("T{}", r), Inst::new("TypeInt", None, Some(r), vec![Arg::Lit32(32), Arg::Lit32(0)])));
    }
    for a in 1..=3u32 {
        sym.push((format!("C{}", a), Inst::new("Constant", Some(a), Some(4), vec![Arg::Lit32(7)])));
        sym.push((format!("S{}", a), Inst::new("Switch", None, None, vec![Arg::IdRef(a), Arg::IdRef(9), Arg::Lit32(1), Arg::IdRef(9)])));
    }
    let mut out: Vec<(String, Vec<Inst>)> = vec![];
    let mut frontier: Vec<(String, Vec<Inst>)> = vec![(String::new(), vec![])];
    for _ in 0..len {
        let mut next = vec![];
        for (n, v) in &frontier {
            for (sn, si) in &sym {
                let mut v2 = v.clone();
                v2.push(si.clone());
                next.push((format!("{}{}{}", n, if n.is_empty() { "" } else { "," }, sn), v2));
            }
        }
        out.extend(next.iter().cloned());
        frontier = next;
    }
    out
}


/// A well-formed module of K type declarations %1..%K (distinct, mostly unsupported widths; the middle one 16 bit, the
/// last one 64 bit), constants of the last and the middle type, and a function with a value of the last type and a
/// switch on it: ids dense below the header bound, more words than ids.
pub fn dense_module(k: u32) -> Vec<u32> {
    use crate::model::{enc, header};
    let mut words = header(0x0001_0300, 0, k + 10);
    for i in 1..=k {
        let w = if i == k { 64 } else if i == k / 2 { 16 } else { 1000 + i };
        words.extend(enc(&Inst::new("TypeInt", None, Some(i), vec![Arg::Lit32(w), Arg::Lit32(0)])));
    }
    words.extend(enc(&Inst::new("Constant", Some(k), Some(k + 1), vec![Arg::Lit64(0x1_0000_0002)])));
    words.extend(enc(&Inst::new("Constant", Some(k / 2), Some(k + 2), vec![Arg::Lit32(0xFFFF)])));
    words.extend(enc(&Inst::new("Function", Some(k - 1), Some(k + 6), vec![Arg::Mask("FunctionControl", 0), Arg::IdRef(k - 2)])));
    words.extend(enc(&Inst::new("Label", None, Some(k + 4), vec![])));
    words.extend(enc(&Inst::new("Undef", Some(k), Some(k + 3), vec![])));
    words.extend(enc(&Inst::new("Switch", None, None, vec![Arg::IdRef(k + 3), Arg::IdRef(k + 4), Arg::Lit64(5), Arg::IdRef(k + 5)])));
    words.extend(enc(&Inst::new("Label", None, Some(k + 5), vec![])));
    words.extend(enc(&Inst::new("Return", None, None, vec![])));
    words.extend(enc(&Inst::new("FunctionEnd", None, None, vec![])));
    words
}


/// The one construct of the binary form that nests: an OpSpecConstantOp whose operand words are again the opcode number
/// of OpSpecConstantOp (52), N times, for N up to what one instruction can hold; and the same with other nestable opcode
/// numbers at the end. (On this tree a nested OpSpecConstantOp is refused at the first level.)
pub fn deep_nesting_words() -> Vec<(String, Vec<u32>)> {
    let mut out = vec![];
    for n in [1usize, 2, 3, 10, 100, 1000, 5000, 6000, 20000, 65531] {
        for tail in [vec![], vec![128u32, 3, 4], vec![52, 52]] {
            let mut w = crate::model::header(0x0001_0300, 0, 10);
            let total = 3 + n + tail.len();
            if total > 65535 {
                continue;
            }
            w.push(((total as u32) << 16) | 52);
            w.push(1);
            w.push(2);
            w.extend(std::iter::repeat(52u32).take(n));
            w.extend(tail.iter().copied());
            out.push((format!("nested-spec-constant-op:{}:+{}", n, tail.len()), w));
        }
    }
    out
}
