//! A.3 reference acceptor: an independent recursive descent over the golden grammar.
//! bytes -> Accept(header, instruction models) | Reject(first malformed instruction, fault set) | header fault.
//! Depends on the golden and the SPIR-V binary format only; never calls rspirv.
use crate::golden::{golden, GInst, Quant};
use crate::model::{kind_static, Arg, Inst};
use std::collections::{BTreeMap, BTreeSet};

#[derive(Clone, Copy, Debug, PartialEq, Eq, Hash, PartialOrd, Ord)]
pub enum Fault {
    ZeroWordCount,
    UnknownOpcode,
    /// a required word lies beyond the declared word count
    Missing,
    /// a needed word lies inside the declared count but beyond the stream
    Truncated,
    /// undeclared enumerant or mask bit, invalid UTF-8, unsupported literal width, bad nested opcode
    Undecodable,
    /// declared words left after the last operand
    Surplus,
}

#[derive(Clone, Debug, PartialEq)]
pub enum Verdict {
    HeaderIncomplete,
    WrongMagic,
    SwappedMagic,
    Accept { version: u32, bound: u32, insts: Vec<Inst> },
    Reject { version: u32, bound: u32, insts: Vec<Inst>, k: usize, start: usize, wc: u32, faults: BTreeSet<Fault> },
}

#[derive(Clone, Copy, Debug, PartialEq, Eq)]
pub enum TTy {
    Int(u32),
    Float(u32),
}

/// A.6 reference type tracker
#[derive(Default, Clone, Debug)]
pub struct Tracker {
    pub map: BTreeMap<u32, TTy>,
}

impl Tracker {
    pub fn track(&mut self, i: &Inst) {
        let g = golden();
        let Some(rid) = i.rid else { return };
        let name = i.name();
        if name == "TypeInt" {
            if let Some(Arg::Lit32(w)) = i.args.first() {
                self.map.insert(rid, TTy::Int(*w));
            }
        } else if name == "TypeFloat" {
            if let Some(Arg::Lit32(w)) = i.args.first() {
                self.map.insert(rid, TTy::Float(*w));
            }
        } else if g.in_class("type", &name) || (g.in_class("either", &name) && name.starts_with("Type")) {
            // other type declarations carry no width
        } else if let Some(t) = i.rtype {
            if let Some(ty) = self.map.get(&t).copied() {
                self.map.insert(rid, ty);
            }
        }
    }
    /// words of a literal whose type id is `t`: Some(n) or None for an unsupported width
    pub fn literal_words(&self, t: u32) -> Option<usize> {
        match self.map.get(&t) {
            None => Some(1),
            Some(TTy::Int(8 | 16 | 32)) | Some(TTy::Float(16 | 32)) => Some(1),
            Some(TTy::Int(64)) | Some(TTy::Float(64)) => Some(2),
            Some(_) => None,
        }
    }
    pub fn get(&self, t: u32) -> Option<TTy> {
        self.map.get(&t).copied()
    }
}

struct Cur<'a> {
    bytes: &'a [u8],
    /// byte offset of the next operand word
    pos: usize,
    /// byte offset one past the declared extent of the instruction
    decl_end: usize,
}

impl<'a> Cur<'a> {
    fn more_declared(&self) -> bool {
        self.pos < self.decl_end
    }
    fn word(&mut self) -> Result<u32, Fault> {
        if self.pos + 4 > self.decl_end {
            return Err(Fault::Missing);
        }
        if self.pos + 4 > self.bytes.len() {
            return Err(Fault::Truncated);
        }
        let b = &self.bytes[self.pos..self.pos + 4];
        self.pos += 4;
        Ok(u32::from_le_bytes([b[0], b[1], b[2], b[3]]))
    }
    fn string(&mut self) -> Result<String, Vec<Fault>> {
        let win_end = self.decl_end.min(self.bytes.len());
        if self.pos >= self.decl_end {
            return Err(vec![Fault::Missing]);
        }
        let start = self.pos.min(win_end);
        match self.bytes[start..win_end].iter().position(|&c| c == 0) {
            None => {
                if self.decl_end <= self.bytes.len() {
                    Err(vec![Fault::Missing, Fault::Undecodable])
                } else {
                    Err(vec![Fault::Truncated])
                }
            }
            Some(p) => {
                let s = std::str::from_utf8(&self.bytes[start..start + p]).map_err(|_| vec![Fault::Undecodable])?;
                let k = p / 4 + 1;
                if start + 4 * k > self.bytes.len() {
                    return Err(vec![Fault::Truncated]);
                }
                self.pos = start + 4 * k;
                Ok(s.to_string())
            }
        }
    }
}

fn params(cur: &mut Cur, ps: &[String], out: &mut Vec<Arg>) -> Result<(), Vec<Fault>> {
    let g = golden();
    for p in ps {
        match p.as_str() {
            "IdRef" => out.push(Arg::IdRef(cur.word().map_err(|f| vec![f])?)),
            "IdScope" => out.push(Arg::IdScope(cur.word().map_err(|f| vec![f])?)),
            "IdMemorySemantics" => out.push(Arg::IdMemSem(cur.word().map_err(|f| vec![f])?)),
            "LiteralBit32" => out.push(Arg::Lit32(cur.word().map_err(|f| vec![f])?)),
            "LiteralString" => out.push(Arg::Str(cur.string()?)),
            k if g.is_enum_kind(k) => {
                let w = cur.word().map_err(|f| vec![f])?;
                if !g.enums[k].declared().contains(&w) {
                    return Err(vec![Fault::Undecodable]);
                }
                out.push(Arg::Enum(kind_static(k), w));
                let pp = g.enum_params(k, w);
                params(cur, &pp, out)?;
            }
            k if g.is_mask_kind(k) => {
                let w = cur.word().map_err(|f| vec![f])?;
                if w & !g.masks[k].all() != 0 {
                    return Err(vec![Fault::Undecodable]);
                }
                out.push(Arg::Mask(kind_static(k), w));
                let pp = g.mask_params(k, w);
                params(cur, &pp, out)?;
            }
            other => panic!("golden parameter kind {other}"),
        }
    }
    Ok(())
}

fn literal(cur: &mut Cur, n: Option<usize>, out: &mut Vec<Arg>) -> Result<(), Vec<Fault>> {
    match n {
        None => {
            // the word must at least be there for the width to matter
            if !cur.more_declared() {
                return Err(vec![Fault::Missing]);
            }
            Err(vec![Fault::Undecodable])
        }
        Some(1) => {
            out.push(Arg::Lit32(cur.word().map_err(|f| vec![f])?));
            Ok(())
        }
        Some(_) => {
            let lo = cur.word().map_err(|f| vec![f])?;
            let hi = cur.word().map_err(|f| vec![f])?;
            out.push(Arg::Lit64((hi as u64) << 32 | lo as u64));
            Ok(())
        }
    }
}

/// decodes one occurrence of operand `kind`
fn operand(cur: &mut Cur, kind: &str, rtype: Option<u32>, so_far: &[Arg], tr: &Tracker, nested: bool, out: &mut Vec<Arg>) -> Result<(), Vec<Fault>> {
    let g = golden();
    let w1 = |c: &mut Cur| c.word().map_err(|f| vec![f]);
    match kind {
        "IdRef" => out.push(Arg::IdRef(w1(cur)?)),
        "IdScope" => out.push(Arg::IdScope(w1(cur)?)),
        "IdMemorySemantics" => out.push(Arg::IdMemSem(w1(cur)?)),
        "LiteralInteger" | "LiteralFloat" => out.push(Arg::Lit32(w1(cur)?)),
        "LiteralExtInstInteger" => out.push(Arg::ExtInstNo(w1(cur)?)),
        "LiteralString" => out.push(Arg::Str(cur.string()?)),
        "LiteralContextDependentNumber" => {
            if nested {
                return Err(vec![Fault::Undecodable]);
            }
            let n = match rtype {
                Some(t) => tr.literal_words(t),
                None => Some(1),
            };
            literal(cur, n, out)?;
        }
        "PairLiteralIntegerIdRef" => {
            if nested {
                return Err(vec![Fault::Undecodable]);
            }
            let sel = match so_far.first() {
                Some(Arg::IdRef(s)) => *s,
                _ => 0,
            };
            literal(cur, tr.literal_words(sel), out)?;
            out.push(Arg::IdRef(w1(cur)?));
        }
        "PairIdRefLiteralInteger" => {
            out.push(Arg::IdRef(w1(cur)?));
            out.push(Arg::Lit32(w1(cur)?));
        }
        "PairIdRefIdRef" => {
            out.push(Arg::IdRef(w1(cur)?));
            out.push(Arg::IdRef(w1(cur)?));
        }
        "LiteralSpecConstantOpInteger" => {
            if nested {
                return Err(vec![Fault::Undecodable]);
            }
            let n = w1(cur)?;
            if n > 0xFFFF {
                return Err(vec![Fault::Undecodable]);
            }
            let Some(ni) = g.lookup(n as u16) else { return Err(vec![Fault::Undecodable]) };
            out.push(Arg::SpecOp(n as u16));
            let mut inner = vec![];
            let r = operands(cur, &ni.value_operands(), None, tr, true, &mut inner);
            out.extend(inner);
            r?;
        }
        k if g.is_enum_kind(k) || g.is_mask_kind(k) => params(cur, &[k.to_string()], out)?,
        other => panic!("golden operand kind {other}"),
    }
    Ok(())
}

fn operands(cur: &mut Cur, ops: &[(String, Quant)], rtype: Option<u32>, tr: &Tracker, nested: bool, out: &mut Vec<Arg>) -> Result<(), Vec<Fault>> {
    for (kind, q) in ops {
        match q {
            Quant::One => {
                let snapshot: Vec<Arg> = out.first().cloned().into_iter().collect(); // only the first operand (a switch's selector) is ever consulted
                operand(cur, kind, rtype, &snapshot, tr, nested, out)?
            }
            Quant::ZeroOrOne => {
                if cur.more_declared() {
                    let snapshot: Vec<Arg> = out.first().cloned().into_iter().collect(); // only the first operand (a switch's selector) is ever consulted
                    operand(cur, kind, rtype, &snapshot, tr, nested, out)?
                }
            }
            Quant::ZeroOrMore => {
                while cur.more_declared() {
                    let snapshot: Vec<Arg> = out.first().cloned().into_iter().collect(); // only the first operand (a switch's selector) is ever consulted
                    operand(cur, kind, rtype, &snapshot, tr, nested, out)?
                }
            }
        }
    }
    Ok(())
}

/// decodes the instruction whose first word is at `start`; Ok(model) or Err(fault set)
pub fn instruction(bytes: &[u8], start: usize, gi: &GInst, wc: u32, tr: &Tracker) -> Result<Inst, BTreeSet<Fault>> {
    let decl_end = start + 4 * wc as usize;
    let mut cur = Cur { bytes, pos: start + 4, decl_end };
    let mut faults: BTreeSet<Fault> = BTreeSet::new();
    if decl_end > bytes.len() - (bytes.len() - start) % 4 {
        // the declared extent exceeds the complete words of the stream
        faults.insert(Fault::Truncated);
    }
    let mut rtype = None;
    let mut rid = None;
    let mut args = vec![];
    let res: Result<(), Vec<Fault>> = (|| {
        if gi.has_rtype() {
            rtype = Some(cur.word().map_err(|f| vec![f])?);
        }
        if gi.has_rid() {
            rid = Some(cur.word().map_err(|f| vec![f])?);
        }
        operands(&mut cur, &gi.value_operands(), rtype, tr, false, &mut args)?;
        if cur.more_declared() {
            return Err(vec![Fault::Surplus]);
        }
        Ok(())
    })();
    match res {
        Ok(()) if faults.is_empty() => Ok(Inst { opcode: gi.opcode, rtype, rid, args }),
        Ok(()) => Err(faults),
        Err(fs) => {
            faults.extend(fs);
            Err(faults)
        }
    }
}

pub fn accept(bytes: &[u8]) -> Verdict {
    let g = golden();
    if bytes.len() < 20 {
        return Verdict::HeaderIncomplete;
    }
    let w = |o: usize| u32::from_le_bytes([bytes[o], bytes[o + 1], bytes[o + 2], bytes[o + 3]]);
    if w(0) != g.magic {
        return if w(0) == g.magic.swap_bytes() { Verdict::SwappedMagic } else { Verdict::WrongMagic };
    }
    let version = w(4);
    let bound = w(12);
    let mut insts = vec![];
    let mut tr = Tracker::default();
    let mut s = 20usize;
    let mut k = 0usize;
    while s + 4 <= bytes.len() {
        k += 1;
        let first = w(s);
        let wc = first >> 16;
        let opc = (first & 0xFFFF) as u16;
        let rej = |f: Fault, insts: Vec<Inst>| Verdict::Reject { version, bound, insts, k, start: s, wc, faults: [f].into_iter().collect() };
        if wc == 0 {
            return rej(Fault::ZeroWordCount, insts);
        }
        let Some(gi) = g.lookup(opc) else { return rej(Fault::UnknownOpcode, insts) };
        match instruction(bytes, s, gi, wc, &tr) {
            Ok(i) => {
                tr.track(&i);
                insts.push(i);
                s += 4 * wc as usize;
            }
            Err(faults) => return Verdict::Reject { version, bound, insts, k, start: s, wc, faults },
        }
    }
    Verdict::Accept { version, bound, insts }
}

/// the fault class a rspirv ParseState name (plus the DecodeError name for OperandError) belongs to
pub fn fault_classes_of_state(state: &str, decode_err: Option<&str>) -> Vec<Fault> {
    match state {
        "WordCountZero" => vec![Fault::ZeroWordCount],
        "OpcodeUnknown" => vec![Fault::UnknownOpcode],
        "OperandExpected" => vec![Fault::Missing],
        "OperandExceeded" => vec![Fault::Surplus, Fault::Truncated],
        "TypeUnsupported" | "SpecConstantOpIntegerIncorrect" => vec![Fault::Undecodable],
        "OperandError" => match decode_err {
            Some("LimitReached") => vec![Fault::Missing],
            Some("StreamExpected") => vec![Fault::Truncated, Fault::Missing],
            _ => vec![Fault::Undecodable],
        },
        _ => vec![],
    }
}
