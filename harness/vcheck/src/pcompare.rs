//! Compares the real parser on one binary with the A.3 reference acceptor (the C03 oracle).
use crate::acceptor::{self, Fault, Verdict};
use crate::model;
use crate::report::guarded;
use crate::util::{parse_collect, state_name};
use rspirv::binary::ParseState;

#[derive(Debug, Clone)]
pub struct RealErr {
    pub state: &'static str,
    pub decode: Option<String>,
    pub index: Option<usize>,
    pub offset: Option<usize>,
}

pub fn real_err(e: &ParseState) -> RealErr {
    let state = state_name(e);
    let (index, offset, decode) = match e {
        ParseState::WordCountZero(o, i) | ParseState::OperandExpected(o, i) | ParseState::OperandExceeded(o, i) | ParseState::TypeUnsupported(o, i) | ParseState::SpecConstantOpIntegerIncorrect(o, i) => (Some(*i), Some(*o), None),
        ParseState::OpcodeUnknown(o, i, _) => (Some(*i), Some(*o), None),
        ParseState::OperandError(d) => {
            let s = format!("{:?}", d);
            let name = s.split('(').next().unwrap_or("").to_string();
            let off = s.split('(').nth(1).and_then(|r| r.split(|c: char| !c.is_ascii_digit()).next().map(|x| x.to_string())).and_then(|x| x.parse::<usize>().ok());
            (None, off, Some(name))
        }
        ParseState::HeaderIncomplete(_) => (None, None, None),
        _ => (None, None, None),
    };
    RealErr { state, decode, index, offset }
}

/// what disagrees: (class for the violation key, description)
pub type Disagreement = (String, String);

pub struct Outcome {
    pub disagreement: Option<Disagreement>,
    /// label for the outcome histogram
    pub label: String,
    pub accepted: bool,
}

/// Runs the real parser and the acceptor on `bytes` and compares as C03 demands.
pub fn compare(bytes: &[u8]) -> Outcome {
    let v = acceptor::accept(bytes);
    let r = guarded(|| parse_collect(bytes));
    let (res, col) = match r {
        Err(p) => {
            return Outcome { disagreement: Some((format!("panic@{}", crate::report::panic_class(&p)), format!("parser panicked: {}", p))), label: "panic".into(), accepted: false }
        }
        Ok(x) => x,
    };
    let dis = |c: &str, d: String| Outcome { disagreement: Some((c.to_string(), d)), label: "disagree".into(), accepted: false };
    if col.initialized != 1 {
        return dis("protocol", format!("initialize called {} times", col.initialized));
    }
    match &v {
        Verdict::HeaderIncomplete | Verdict::WrongMagic | Verdict::SwappedMagic => {
            let want = match v {
                Verdict::HeaderIncomplete => "HeaderIncomplete",
                Verdict::WrongMagic => "HeaderIncorrect",
                _ => "EndiannessUnsupported",
            };
            match &res {
                Err(e) if state_name(e) == want && col.headers == 0 && col.insts.is_empty() => Outcome { disagreement: None, label: format!("reject:{}", want), accepted: false },
                other => dis("class", format!("header fault {:?}: parser gave {:?} (header delivered {} times, {} instructions)", v, other.as_ref().map_err(|e| state_name(e)), col.headers, col.insts.len())),
            }
        }
        Verdict::Accept { version, bound, insts } | Verdict::Reject { version, bound, insts, .. } => {
            // header exactly once, with the input's version and bound
            if col.headers != 1 {
                return dis("prefix", format!("header delivered {} times", col.headers));
            }
            let h = col.header.as_ref().unwrap();
            // (the version word is compared on its major / minor bytes: the two other bytes are reserved, and the
            //  header type stores a (major, minor) pair)
            if (h.version & 0x00FF_FF00) != (*version & 0x00FF_FF00) || h.bound != *bound {
                return dis("prefix", format!("delivered header version {:#x} bound {} differ from the input's {:#x} / {}", h.version, h.bound, version, bound));
            }
            // delivered instructions = the models of the instructions preceding the first malformed one
            if col.insts.len() != insts.len() {
                return dis(
                    if matches!(v, Verdict::Accept { .. }) && res.is_err() || matches!(v, Verdict::Reject { .. }) && res.is_ok() { "accept-mismatch" } else { "prefix" },
                    format!("parser delivered {} instructions (result {:?}); the grammar accepts {} before {}", col.insts.len(), res.as_ref().map_err(|e| state_name(e)), insts.len(), if let Verdict::Reject { k, faults, .. } = &v { format!("instruction {} with faults {:?}", k, faults) } else { "the end".to_string() }),
                );
            }
            for (idx, (m, d)) in insts.iter().zip(col.insts.iter()).enumerate() {
                match model::to_dr(m) {
                    // field by field through the model, not through the subject's own PartialEq
                    Some(e) if model::from_dr(d) == *m && e.class.opname == d.class.opname => {}
                    other => return dis("prefix", format!("delivered instruction {} is {:?} {:?}; the grammar dictates {}", idx + 1, d.class.opname, d.operands, other.map(|_| m.short()).unwrap_or_else(|| format!("(unconstructible) {}", m.short())))),
                }
            }
            match (&v, &res) {
                (Verdict::Accept { .. }, Ok(())) => {
                    if col.finalized != 1 {
                        return dis("protocol", format!("finalize called {} times after a complete parse", col.finalized));
                    }
                    Outcome { disagreement: None, label: "accept".into(), accepted: true }
                }
                (Verdict::Accept { .. }, Err(e)) => dis("accept-mismatch", format!("the grammar accepts the binary, parser rejects with {:?}", e)),
                (Verdict::Reject { k, faults, .. }, Ok(())) => dis("accept-mismatch", format!("parser accepts; instruction {} is malformed: {:?}", k, faults)),
                (Verdict::Reject { k, start, wc, faults, .. }, Err(e)) => {
                    if col.finalized != 0 {
                        return dis("protocol", "finalize called after a parse error".into());
                    }
                    let re = real_err(e);
                    let classes = acceptor::fault_classes_of_state(re.state, re.decode.as_deref());
                    if classes.is_empty() || !classes.iter().any(|c| faults.contains(c)) {
                        return dis("class", format!("parser reports {}{} for instruction {}; faults present: {:?}", re.state, re.decode.as_ref().map(|d| format!("({})", d)).unwrap_or_default(), k, faults));
                    }
                    if let Some(i) = re.index {
                        if i != *k {
                            return dis("index", format!("error names instruction {}, the first malformed one is {}", i, k));
                        }
                    }
                    if let Some(o) = re.offset {
                        let end = start + 4 * (*wc as usize);
                        if o < *start || o > end {
                            return dis("offset", format!("error offset {} lies outside the declared extent [{}, {}] of instruction {}", o, start, end, k));
                        }
                    }
                    let f: Vec<String> = faults.iter().map(|f| format!("{:?}", f)).collect();
                    Outcome { disagreement: None, label: format!("reject:{}:{}", re.state, f.join("+")), accepted: false }
                }
                _ => unreachable!(),
            }
        }
    }
}

pub fn fault_name(f: Fault) -> &'static str {
    match f {
        Fault::ZeroWordCount => "ZeroWordCount",
        Fault::UnknownOpcode => "UnknownOpcode",
        Fault::Missing => "Missing",
        Fault::Truncated => "Truncated",
        Fault::Undecodable => "Undecodable",
        Fault::Surplus => "Surplus",
    }
}
