//! The Builder as an explicit-state system (A.5): real `dr::Builder` replayed in lock-step with a reference
//! model. Shared by C12 (structure, failure atomicity, no panic) and C13 (id discipline, type dedup).
use crate::callargs::{is_result_id_param, Args, CallSite, Out, Ty, P};
use crate::model::{self, Arg, Inst};
use crate::report::{guarded, viol, Viol};
use crate::xs::Step;
use rspirv::dr::{self, Builder, InsertPoint};
use rspirv::spirv;
use serde_json::json;
use std::collections::hash_map::DefaultHasher;
use std::hash::{Hash, Hasher};

#[allow(unused_variables, unused_imports)]
mod gen {
    use crate::callargs::{CallSite, Out, Ty, P};
    use rspirv::spirv;
    include!("gen_type_calls.rs");
}
pub fn type_calls() -> &'static [CallSite] {
    gen::CALLS
}

#[derive(Clone, Debug, PartialEq, Eq, Hash)]
pub struct BlkS {
    pub label: Option<Inst>,
    pub insts: Vec<Inst>,
}
#[derive(Clone, Debug, PartialEq, Eq, Hash)]
pub struct FnS {
    pub def: Option<Inst>,
    pub params: Vec<Inst>,
    pub blocks: Vec<BlkS>,
    pub end: Option<Inst>,
}
pub const SECTIONS: [&str; 11] = [
    "capabilities",
    "extensions",
    "ext_inst_imports",
    "memory_model",
    "entry_points",
    "execution_modes",
    "debug_string_source",
    "debug_names",
    "debug_module_processed",
    "annotations",
    "types_global_values",
];
#[derive(Clone, Debug, PartialEq, Eq, Hash)]
pub struct Snap {
    pub version: Option<u32>,
    pub secs: Vec<Vec<Inst>>,
    pub fns: Vec<FnS>,
}

pub fn snap(m: &dr::Module) -> Snap {
    let v = |l: &Vec<dr::Instruction>| l.iter().map(model::from_dr).collect::<Vec<_>>();
    Snap {
        version: m.header.as_ref().map(|h| h.version),
        secs: vec![
            v(&m.capabilities),
            v(&m.extensions),
            v(&m.ext_inst_imports),
            m.memory_model.iter().map(model::from_dr).collect(),
            v(&m.entry_points),
            v(&m.execution_modes),
            v(&m.debug_string_source),
            v(&m.debug_names),
            v(&m.debug_module_processed),
            v(&m.annotations),
            v(&m.types_global_values),
        ],
        fns: m
            .functions
            .iter()
            .map(|f| FnS {
                def: f.def.as_ref().map(model::from_dr),
                params: v(&f.parameters),
                blocks: f.blocks.iter().map(|b| BlkS { label: b.label.as_ref().map(model::from_dr), insts: v(&b.instructions) }).collect(),
                end: f.end.as_ref().map(model::from_dr),
            })
            .collect(),
    }
}

impl Snap {
    pub fn all_ids(&self) -> Vec<u32> {
        let mut out = vec![];
        let mut push = |i: &Inst| {
            if let Some(r) = i.rid {
                out.push(r)
            }
        };
        for s in &self.secs {
            s.iter().for_each(&mut push);
        }
        for f in &self.fns {
            f.def.iter().for_each(&mut push);
            f.params.iter().for_each(&mut push);
            for b in &f.blocks {
                b.label.iter().for_each(&mut push);
                b.insts.iter().for_each(&mut push);
            }
            f.end.iter().for_each(&mut push);
        }
        out
    }
    pub fn brief(&self) -> String {
        let mut s = String::new();
        for (i, sec) in self.secs.iter().enumerate() {
            if !sec.is_empty() {
                s += &format!("{}[{}] ", SECTIONS[i], sec.iter().map(|x| x.name()).collect::<Vec<_>>().join(","));
            }
        }
        for (fi, f) in self.fns.iter().enumerate() {
            s += &format!("f{}{{def:{} params:{} ", fi, f.def.is_some(), f.params.len());
            for b in &f.blocks {
                s += &format!("b{{label:{} [{}]}} ", b.label.is_some(), b.insts.iter().map(|x| x.name()).collect::<Vec<_>>().join(","));
            }
            s += &format!("end:{}}} ", f.end.is_some());
        }
        s
    }
}

#[derive(Clone, Copy, Debug, PartialEq, Eq, Hash)]
pub enum Ip {
    Begin,
    FromBegin1,
    FromEnd1,
}

#[derive(Clone, Debug, PartialEq, Eq, Hash)]
pub enum BOp {
    BeginFunction,
    EndFunction,
    BeginBlock,
    BeginBlockNoLabel,
    Ret,
    Branch,
    Nop,
    IAdd,
    InsertNop(Ip),
    InsertRet(Ip),
    FunctionParameter,
    Variable,
    Undef,
    Line,
    NoLine,
    Capability,
    TypeVoid,
    ConstantBit32,
    SelectFunction(Option<usize>),
    SelectBlock(Option<usize>),
    PopInstruction,
    // ---- C13 alphabet
    Id,
    ExtInst,
    ExtInstExplicit(u32),
    /// set_version(1, 4): creates the header if there is none (its bound is fixed up by module())
    SetVersion,
    IAddExplicit(u32),
    BeginBlockId(u32),
    /// generated type method `site` (index into type_calls), explicit id or not, argument variation
    TypeCall(usize, Option<u32>, usize),
    TypePointer(Option<u32>, usize),
    /// finish: module() -> Builder::new_from_module, continue from there
    Continue,
    /// finish: module() -> assemble -> load_words -> Builder::new_from_module (operands now as the PARSER produces them);
    /// not enabled when the module under construction is not loadable (an open function or block)
    Reload,
    /// name(<result id of the k-th function's OpFunction>, "f<k>") (not enabled when there is no k-th function)
    NameFunction(usize),
    /// select_function_by_name("f<k>")
    SelectByName(usize),
    /// find_return_block_indices(): a query; must not panic, must not change anything
    FindReturnBlocks,
    /// ext_inst_import of "GLSL.std.450" (0) / "NonSemantic.DebugPrintf" (1): a module-level instruction, returns its id
    Import(usize),
    /// ext_inst whose set operand is the id returned by the most recent Import (not enabled before any import)
    ExtInstVia,
    /// generated type method `site` with its base arguments, except that the k-th plain id parameter is the result id of
    /// the MOST RECENT OpConstant of the module (not enabled without one / without such a parameter)
    TypeCallRef(usize, usize),
    /// start over from Builder::new_from_module(hand-built module, bound 500) whose only instruction is the declaration
    /// type method `site` would make for its base arguments, but WITHOUT a result id
    AdoptWithoutId(usize),
    /// begin_function with an EXPLICIT result id (two functions may then carry the same id)
    BeginFunctionId(u32),
    /// decorate(<result id of the k-th function>, LinkageAttributes, "f", Import): a module-level annotation whose
    /// target is the function (not enabled when there is no k-th function)
    DecorateFunction(usize),
    /// name(<id>, TEXTS[j]) where <id> is the result id of the k-th function (Some(k); not enabled without one) or 999 (None)
    NameAny(Option<usize>, usize),
    /// select_function_by_name(TEXTS[j])
    SelectByText(usize),
    /// declares the ids begin_function names as result type and function type, with explicit ids: 0: OpTypeVoid %RT and
    /// OpTypeFunction %RT+1 %RT; 1: OpTypeInt %RT 32 0 and OpTypeFunction %RT+1 %RT %RT; 2: OpTypeFloat %RT 32 and OpTypeFunction %RT+1 %RT
    DeclareFnTypes(u8),
    /// a debug / annotation instruction that MENTIONS the result id of the most recent declaration in types_global_values
    /// (not enabled without one): 0 name, 1 member_name, 2 decorate Block, 3 member_decorate Offset, 4 decorate_string,
    /// 5 member_decorate_string, 6 entry_point interface id, 7 execution_mode_id operand
    MentionLastType(u8),
    /// phi(RT, None, [(6, 7)]): a block instruction like any other for the Builder (it may open a block's instruction list)
    Phi,
    /// let p = id(); type_forward_pointer(p, Function): announces p without defining it
    ForwardPointerFresh,
    /// type_forward_pointer(x, Function) where x is the first id the base request of type method `site` mentions
    ForwardPointerOfArg(usize),
    /// type_struct([p]) (implicit id) where p is the id announced by the most recent OpTypeForwardPointer (not enabled without one)
    StructOfForward,
    /// type_pointer(None, Function, T) where T is the result id of the most recent declaration in types_global_values
    PointerToLast,
    /// insert_types_global_values(Begin | FromBegin(1) | FromEnd(1), OpTypeBool with the explicit id 90 + k): a caller
    /// placing a declaration anywhere but at the end (FromBegin / FromEnd need at least one declaration)
    InsertTypeGlobal(u8),
}

/// names for NameAny / SelectByText: plain, prefixes of each other, multi-byte characters, mangled forms
pub const TEXTS: [&str; 10] = ["f0", "f1", "f", "gr\u{f6}\u{df}e(f1;", "gr", "gr\u{f6}", "abc", "", "f0(vf4;", "\u{20ac}f0"];

pub fn op_str(o: &BOp) -> String {
    match o {
        BOp::TypeCall(s, e, v) => format!("{}({:?},v{})", type_calls()[*s].name, e, v),
        BOp::TypeCallRef(s, k) => format!("{}(id-param {} := last constant)", type_calls()[*s].name, k),
        other => format!("{:?}", other),
    }
}
pub fn hist_str(h: &[BOp]) -> String {
    h.iter().map(op_str).collect::<Vec<_>>().join(",")
}

fn inst(name: &str, rtype: Option<u32>, rid: Option<u32>, args: Vec<Arg>) -> Inst {
    Inst::new(name, rtype, rid, args)
}

/// what the model predicts for one call
enum Pred {
    /// must return Err; nothing changes
    Fail,
    /// must succeed; the new snapshot and selection are these. `fresh`: the id the call returned must be fresh
    Ok { snap: Snap, sel: (Option<usize>, Option<usize>), fresh: Option<u32> },
    /// the statement fixes only the invariant, no panic and "Err changes nothing"
    Adopt,
    /// operation not enabled in this state (out-of-range insertion offset): history is not generated
    Disabled,
}

pub struct Outcome {
    pub step: Step,
}

const RT: u32 = 100; // some result type id (ids need not be declared for the Builder)

/// expected instruction of a generated type call, from what was passed
pub fn type_call_inst(site: &CallSite, a: &Args, rid: Option<u32>) -> Inst {
    let mut args = vec![];
    for (i, p) in site.params.iter().enumerate() {
        if is_result_id_param(p) || p.ty == Ty::InsertPoint {
            continue;
        }
        args.extend(a.passed(i));
    }
    let opc = crate::golden::golden().opcode(site.opcode);
    Inst { opcode: opc, rtype: None, rid, args: model::rekind_ids(opc, args) }
}

/// variant 0 = base arguments; variant v >= 1 = base with exactly the (v-1)-th non-result-id parameter changed
/// (another id / literal / enumerant / list length / optional presence), so a dedup that ignores one operand is seen
pub fn type_call_args(site: &CallSite, explicit: Option<u32>, variant: usize) -> Args {
    let mut a = Args::new(site.params);
    a.result_id = explicit;
    a.list_len = 1;
    if variant >= 1 {
        let positions: Vec<usize> = site.params.iter().enumerate().filter(|(_, p)| !is_result_id_param(p)).map(|(i, _)| i).collect();
        if let Some(&p) = positions.get((variant - 1) % positions.len().max(1)) {
            a.perturb = Some(p);
        }
    }
    a
}

pub fn type_call_variants(site: &CallSite) -> usize {
    1 + site.params.iter().filter(|p| !is_result_id_param(p)).count()
}

pub struct Replay {
    pub viol: Option<(String, String)>, // (class, description)
    pub panicked: Option<String>,
    pub disabled: bool,
    pub snap: Snap,
    pub sel: (Option<usize>, Option<usize>),
    pub next_probe: u32,
    pub bound: u32,
    pub outcomes: Vec<String>,
}

/// Replays `h` on a fresh real Builder in lock-step with the model. Stops at the first violation.
pub fn replay(h: &[BOp]) -> Replay {
    let mut outcomes: Vec<String> = vec![];
    let r = guarded(|| {
        let mut b = Builder::new();
        let mut cur = snap(b.module_ref());
        let mut sel: (Option<usize>, Option<usize>) = (None, None);
        // ids: lower / upper bound of the next fresh id; every fresh id seen
        let mut next_lo: u32 = 1;
        let mut next_hi: u32 = 1;
        let mut fresh_seen: Vec<u32> = vec![];
        let mut viol: Option<(String, String)> = None;
        let mut disabled = false;
        'steps: for (step, op) in h.iter().enumerate() {
            let (sf, sb) = sel;
            let in_block = sf.is_some() && sb.is_some();
            // ---- perform the call on the real builder
            let mut ret_id: Option<u32> = None; // id returned by the call (if it returns one)
            let ok: bool;
            let mut expected_inst: Option<Inst> = None;
            let mut explicit = false;
            macro_rules! res_word {
                ($e:expr) => {{
                    match $e {
                        Ok(v) => {
                            ret_id = Some(v);
                            true
                        }
                        Err(_) => false,
                    }
                }};
            }
            let block_len = |c: &Snap| -> usize {
                match (sf, sb) {
                    (Some(f), Some(bi)) => c.fns.get(f).and_then(|f| f.blocks.get(bi)).map_or(0, |b| b.insts.len()),
                    _ => 0,
                }
            };
            let ip_of = |ip: Ip| match ip {
                Ip::Begin => InsertPoint::Begin,
                Ip::FromBegin1 => InsertPoint::FromBegin(1),
                Ip::FromEnd1 => InsertPoint::FromEnd(1),
            };
            // out-of-range insertion offsets are outside the property's quantifier
            if let BOp::InsertNop(ip) | BOp::InsertRet(ip) = op {
                if in_block && *ip != Ip::Begin && block_len(&cur) < 1 {
                    disabled = true;
                    break 'steps;
                }
            }
            match op {
                BOp::BeginFunction => ok = res_word!(b.begin_function(RT, None, spirv::FunctionControl::NONE, RT + 1)),
                BOp::EndFunction => ok = b.end_function().is_ok(),
                BOp::BeginBlock => ok = res_word!(b.begin_block(None)),
                BOp::BeginBlockId(id) => {
                    explicit = true;
                    ok = res_word!(b.begin_block(Some(*id)))
                }
                BOp::BeginBlockNoLabel => ok = res_word!(b.begin_block_no_label(None)),
                BOp::Ret => ok = b.ret().is_ok(),
                BOp::Branch => ok = b.branch(5).is_ok(),
                BOp::Nop => ok = b.nop().is_ok(),
                BOp::IAdd => ok = res_word!(b.i_add(RT, None, 6, 7)),
                BOp::IAddExplicit(id) => {
                    explicit = true;
                    ok = res_word!(b.i_add(RT, Some(*id), 6, 7))
                }
                BOp::InsertNop(ip) => ok = b.insert_nop(ip_of(*ip)).is_ok(),
                BOp::InsertRet(ip) => ok = b.insert_ret(ip_of(*ip)).is_ok(),
                BOp::FunctionParameter => ok = res_word!(b.function_parameter(RT)),
                BOp::Variable => {
                    ret_id = Some(b.variable(RT, None, spirv::StorageClass::Function, None));
                    ok = true
                }
                BOp::Undef => {
                    ret_id = Some(b.undef(RT, None));
                    ok = true
                }
                BOp::Line => {
                    b.line(8, 1, 2);
                    ok = true
                }
                BOp::NoLine => {
                    b.no_line();
                    ok = true
                }
                BOp::Capability => {
                    b.capability(spirv::Capability::Shader);
                    ok = true
                }
                BOp::TypeVoid => {
                    ret_id = Some(b.type_void());
                    ok = true
                }
                BOp::ConstantBit32 => {
                    ret_id = Some(b.constant_bit32(RT, 42));
                    ok = true
                }
                BOp::SelectFunction(i) => ok = b.select_function(*i).is_ok(),
                BOp::SelectBlock(i) => ok = b.select_block(*i).is_ok(),
                BOp::PopInstruction => ok = b.pop_instruction().is_ok(),
                BOp::Id => {
                    ret_id = Some(b.id());
                    ok = true
                }
                BOp::SetVersion => {
                    b.set_version(1, 4);
                    ok = true
                }
                BOp::ExtInst => ok = res_word!(b.ext_inst(RT, None, 9, 1, vec![dr::Operand::IdRef(6)])),
                BOp::ExtInstExplicit(id) => {
                    explicit = true;
                    ok = res_word!(b.ext_inst(RT, Some(*id), 9, 1, vec![dr::Operand::IdRef(6)]))
                }
                BOp::TypeCall(s, e, v) => {
                    let site = &type_calls()[*s];
                    let a = type_call_args(site, *e, *v);
                    explicit = e.is_some();
                    match (site.call)(&mut b, &a) {
                        Out::Word(w) => {
                            ret_id = Some(w);
                            ok = true
                        }
                        _ => unreachable!("type methods return spirv::Word"),
                    }
                    expected_inst = Some(type_call_inst(site, &a, ret_id));
                }
                BOp::AdoptWithoutId(si) => {
                    let site = &type_calls()[*si];
                    let a = type_call_args(site, None, 0);
                    let decl = type_call_inst(site, &a, None);
                    let Some(d) = model::to_dr(&decl) else {
                        disabled = true;
                        break 'steps;
                    };
                    let mut m = dr::Module::new();
                    m.header = Some(dr::ModuleHeader::new(500));
                    m.types_global_values.push(d);
                    b = Builder::new_from_module(m);
                    sel = (None, None);
                    next_lo = 500;
                    next_hi = 500;
                    cur = snap(b.module_ref());
                    fresh_seen.clear();
                    continue 'steps;
                }
                BOp::TypeCallRef(si, k) => {
                    let site = &type_calls()[*si];
                    let pos: Vec<usize> = site.params.iter().enumerate().filter(|(_, p)| p.ty == Ty::Word && !is_result_id_param(p)).map(|(i, _)| i).collect();
                    let last_const = cur.secs[10].iter().rev().find(|i| i.name() == "Constant").and_then(|i| i.rid);
                    let (Some(&pi), Some(cid)) = (pos.get(*k), last_const) else {
                        disabled = true;
                        break 'steps;
                    };
                    let mut a = type_call_args(site, None, 0);
                    a.word_override = Some((pi, cid));
                    match (site.call)(&mut b, &a) {
                        Out::Word(w) => {
                            ret_id = Some(w);
                            ok = true
                        }
                        _ => unreachable!("type methods return spirv::Word"),
                    }
                    expected_inst = Some(type_call_inst(site, &a, ret_id));
                }
                BOp::TypePointer(e, v) => {
                    explicit = e.is_some();
                    let sc = if v % 2 == 0 { spirv::StorageClass::Function } else { spirv::StorageClass::Uniform };
                    let pointee = 50 + (*v as u32) / 2;
                    let id = b.type_pointer(*e, sc, pointee);
                    ret_id = Some(id);
                    ok = true;
                    expected_inst = Some(inst("TypePointer", None, Some(id), vec![Arg::Enum("StorageClass", sc as u32), Arg::IdRef(pointee)]));
                }
                BOp::BeginFunctionId(id) => {
                    explicit = true;
                    ok = res_word!(b.begin_function(RT, Some(*id), spirv::FunctionControl::NONE, RT + 1))
                }
                BOp::DecorateFunction(k) => {
                    let Some(fid) = cur.fns.get(*k).and_then(|f| f.def.as_ref()).and_then(|d| d.rid) else {
                        disabled = true;
                        break 'steps;
                    };
                    b.decorate(fid, spirv::Decoration::LinkageAttributes, vec![dr::Operand::LiteralString("f".into()), dr::Operand::LinkageType(spirv::LinkageType::Import)]);
                    ok = true;
                }
                BOp::Import(k) => {
                    ret_id = Some(b.ext_inst_import(["GLSL.std.450", "NonSemantic.DebugPrintf"][*k]));
                    ok = true;
                }
                BOp::ExtInstVia => {
                    let Some(set) = cur.secs[2].last().and_then(|i| i.rid) else {
                        disabled = true;
                        break 'steps;
                    };
                    ok = res_word!(b.ext_inst(RT, None, set, 1, vec![dr::Operand::IdRef(6)]));
                }
                BOp::NameFunction(k) => {
                    let Some(fid) = cur.fns.get(*k).and_then(|f| f.def.as_ref()).and_then(|d| d.rid) else {
                        disabled = true;
                        break 'steps;
                    };
                    b.name(fid, format!("f{}", k));
                    ok = true;
                }
                BOp::SelectByName(k) => ok = b.select_function_by_name(&format!("f{}", k)).is_ok(),
                BOp::SelectByText(j) => ok = b.select_function_by_name(TEXTS[*j]).is_ok(),
                BOp::Phi => ok = res_word!(b.phi(RT, None, vec![(6, 7)])),
                BOp::InsertTypeGlobal(k) => {
                    if *k > 0 && cur.secs[10].is_empty() {
                        disabled = true;
                        break 'steps;
                    }
                    let ip = match k {
                        0 => InsertPoint::Begin,
                        1 => InsertPoint::FromBegin(1),
                        _ => InsertPoint::FromEnd(1),
                    };
                    b.insert_types_global_values(ip, dr::Instruction::new(spirv::Op::TypeBool, None, Some(90 + *k as u32), vec![]));
                    ok = true;
                }
                BOp::ForwardPointerFresh => {
                    let p = b.id();
                    b.type_forward_pointer(p, spirv::StorageClass::Function);
                    ret_id = Some(p);
                    ok = true;
                }
                BOp::ForwardPointerOfArg(si) => {
                    let site = &type_calls()[*si];
                    let base = type_call_inst(site, &type_call_args(site, None, 0), None);
                    let Some(x) = base.args.iter().find_map(|a| match a {
                        Arg::IdRef(x) | Arg::IdScope(x) => Some(*x),
                        _ => None,
                    }) else {
                        disabled = true;
                        break 'steps;
                    };
                    b.type_forward_pointer(x, spirv::StorageClass::Function);
                    ok = true;
                }
                BOp::StructOfForward => {
                    let Some(p) = cur.secs[10].iter().rev().find(|i| i.name() == "TypeForwardPointer").and_then(|i| match i.args.first() {
                        Some(Arg::IdRef(p)) => Some(*p),
                        _ => None,
                    }) else {
                        disabled = true;
                        break 'steps;
                    };
                    let id = b.type_struct(vec![p]);
                    ret_id = Some(id);
                    ok = true;
                    expected_inst = Some(inst("TypeStruct", None, Some(id), vec![Arg::IdRef(p)]));
                }
                BOp::PointerToLast => {
                    let Some(t) = cur.secs[10].iter().rev().find_map(|i| i.rid) else {
                        disabled = true;
                        break 'steps;
                    };
                    let id = b.type_pointer(None, spirv::StorageClass::Function, t);
                    ret_id = Some(id);
                    ok = true;
                    expected_inst = Some(inst("TypePointer", None, Some(id), vec![Arg::Enum("StorageClass", spirv::StorageClass::Function as u32), Arg::IdRef(t)]));
                }
                BOp::NameAny(k, j) => {
                    let target = match k {
                        Some(k) => match cur.fns.get(*k).and_then(|f| f.def.as_ref()).and_then(|d| d.rid) {
                            Some(t) => t,
                            None => {
                                disabled = true;
                                break 'steps;
                            }
                        },
                        None => 999,
                    };
                    b.name(target, TEXTS[*j]);
                    ok = true;
                }
                BOp::DeclareFnTypes(kind) => {
                    match kind {
                        0 => {
                            b.type_void_id(Some(RT));
                            b.type_function_id(Some(RT + 1), RT, vec![]);
                        }
                        1 => {
                            b.type_int_id(Some(RT), 32, 0);
                            b.type_function_id(Some(RT + 1), RT, vec![RT]);
                        }
                        _ => {
                            b.type_float_id(Some(RT), 32, None);
                            b.type_function_id(Some(RT + 1), RT, vec![]);
                        }
                    }
                    ok = true;
                }
                BOp::MentionLastType(kind) => {
                    let Some(t) = cur.secs[10].iter().rev().find_map(|i| i.rid) else {
                        disabled = true;
                        break 'steps;
                    };
                    match kind {
                        0 => b.name(t, "n"),
                        1 => b.member_name(t, 0, "m"),
                        2 => b.decorate(t, spirv::Decoration::Block, vec![]),
                        3 => b.member_decorate(t, 0, spirv::Decoration::Offset, vec![dr::Operand::LiteralBit32(0)]),
                        4 => b.decorate_string(t, spirv::Decoration::UserSemantic, vec![dr::Operand::LiteralString("s".into())]),
                        5 => b.member_decorate_string(t, 0, spirv::Decoration::UserSemantic, vec![dr::Operand::LiteralString("s".into())]),
                        6 => b.entry_point(spirv::ExecutionModel::GLCompute, t, "e", vec![t]),
                        _ => b.execution_mode_id(t, spirv::ExecutionMode::LocalSizeId, vec![t, t, t]),
                    }
                    ok = true;
                }
                BOp::FindReturnBlocks => {
                    let got = b.find_return_block_indices();
                    let want: Vec<usize> = match sf {
                        Some(f) => cur.fns[f].blocks.iter().enumerate().filter(|(_, bl)| bl.insts.last().map_or(false, |i| i.name() == "Return" || i.name() == "ReturnValue")).map(|(i, _)| i).collect(),
                        None => vec![],
                    };
                    if got != want {
                        viol = Some(("wrong-answer:FindReturnBlocks".into(), format!("step {} find_return_block_indices: returned {:?}, the blocks of the selected function ending in OpReturn(Value) are {:?}", step, got, want)));
                        break 'steps;
                    }
                    ok = true;
                }
                BOp::Continue | BOp::Reload => {
                    // finish the module (Reload: push it through assemble -> load), and continue building on it
                    if *op == BOp::Reload && (sf.is_some() || cur.fns.iter().any(|f| f.end.is_none() || f.blocks.iter().any(|bl| bl.insts.last().map_or(true, |i| !crate::golden::golden().in_class("terminator", &i.name()) && !crate::golden::golden().in_class("either", &i.name()))))) {
                        disabled = true;
                        break 'steps;
                    }
                    let old = std::mem::replace(&mut b, Builder::new());
                    let m = old.module();
                    let m = if *op == BOp::Reload {
                        use rspirv::binary::Assemble;
                        match dr::load_words(m.assemble()) {
                            Ok(m2) => {
                                // (whether the loaded module equals the built one is C06's business; building simply
                                //  goes on from what the loader produced)
                                m2
                            }
                            Err(_) => {
                                // what loads is C05's / C06's business; the history is simply not continued
                                disabled = true;
                                break 'steps;
                            }
                        }
                    } else {
                        m
                    };
                    let bound = m.header.as_ref().map(|h| h.bound).unwrap_or(0);
                    if bound < next_lo || bound > next_hi {
                        viol = Some(("bound".into(), format!("step {} Continue: header bound {} but the next fresh id lies in [{}, {}]", step, bound, next_lo, next_hi)));
                        break 'steps;
                    }
                    b = Builder::new_from_module(m);
                    if b.selected_function().is_some() || b.selected_block().is_some() {
                        viol = Some(("continue-selection".into(), format!("step {} new_from_module starts with a selection", step)));
                        break 'steps;
                    }
                    sel = (None, None);
                    next_lo = bound;
                    next_hi = bound;
                    // the header now exists in the module (module() created it)
                    cur = snap(b.module_ref());
                    outcomes.push("continue".into());
                    continue 'steps;
                }
            }
            // ---- model prediction
            let after = snap(b.module_ref());
            let now_sel = (b.selected_function(), b.selected_block());
            let mut append_block = |c: &Snap, i: Inst| -> Snap {
                let mut n = c.clone();
                n.fns[sf.unwrap()].blocks[sb.unwrap()].insts.push(i);
                n
            };
            let append_global = |c: &Snap, i: Inst| -> Snap {
                let mut n = c.clone();
                n.secs[10].push(i);
                n
            };
            let pred: Pred = match op {
                BOp::DecorateFunction(k) => {
                    let mut n = cur.clone();
                    let fid = cur.fns[*k].def.as_ref().unwrap().rid.unwrap();
                    n.secs[9].push(inst("Decorate", None, None, vec![Arg::IdRef(fid), Arg::Enum("Decoration", 41), Arg::Str("f".into()), Arg::Enum("LinkageType", 1)]));
                    Pred::Ok { snap: n, sel, fresh: None }
                }
                BOp::BeginFunction | BOp::BeginFunctionId(_) => {
                    if sf.is_some() {
                        Pred::Fail
                    } else {
                        let mut n = cur.clone();
                        n.fns.push(FnS { def: Some(inst("Function", Some(RT), ret_id, vec![Arg::Mask("FunctionControl", 0), Arg::IdRef(RT + 1)])), params: vec![], blocks: vec![], end: None });
                        let l = n.fns.len() - 1;
                        Pred::Ok { snap: n, sel: (Some(l), sb), fresh: if explicit { None } else { ret_id } }
                    }
                }
                BOp::EndFunction => {
                    if let Some(f) = sf {
                        let mut n = cur.clone();
                        n.fns[f].end = Some(inst("FunctionEnd", None, None, vec![]));
                        Pred::Ok { snap: n, sel: (None, None), fresh: None }
                    } else {
                        Pred::Fail
                    }
                }
                BOp::BeginBlock | BOp::BeginBlockNoLabel | BOp::BeginBlockId(_) => {
                    if sf.is_none() || sb.is_some() {
                        Pred::Fail
                    } else {
                        let mut n = cur.clone();
                        let label = if *op == BOp::BeginBlockNoLabel { None } else { Some(inst("Label", None, ret_id, vec![])) };
                        n.fns[sf.unwrap()].blocks.push(BlkS { label, insts: vec![] });
                        let l = n.fns[sf.unwrap()].blocks.len() - 1;
                        Pred::Ok { snap: n, sel: (sf, Some(l)), fresh: if explicit { None } else { ret_id } }
                    }
                }
                BOp::Ret | BOp::Branch => {
                    if !in_block {
                        Pred::Fail
                    } else {
                        let i = if *op == BOp::Ret { inst("Return", None, None, vec![]) } else { inst("Branch", None, None, vec![Arg::IdRef(5)]) };
                        Pred::Ok { snap: append_block(&cur, i), sel: (sf, None), fresh: None }
                    }
                }
                BOp::Nop => {
                    if !in_block {
                        Pred::Fail
                    } else {
                        Pred::Ok { snap: append_block(&cur, inst("Nop", None, None, vec![])), sel, fresh: None }
                    }
                }
                BOp::IAdd | BOp::IAddExplicit(_) => {
                    if !in_block {
                        Pred::Fail
                    } else {
                        Pred::Ok { snap: append_block(&cur, inst("IAdd", Some(RT), ret_id, vec![Arg::IdRef(6), Arg::IdRef(7)])), sel, fresh: if explicit { None } else { ret_id } }
                    }
                }
                BOp::ExtInst | BOp::ExtInstExplicit(_) => {
                    if !in_block {
                        Pred::Fail
                    } else {
                        Pred::Ok { snap: append_block(&cur, inst("ExtInst", Some(RT), ret_id, vec![Arg::IdRef(9), Arg::ExtInstNo(1), Arg::IdRef(6)])), sel, fresh: if explicit { None } else { ret_id } }
                    }
                }
                BOp::InsertNop(ip) | BOp::InsertRet(ip) => {
                    if !in_block {
                        Pred::Fail
                    } else {
                        let mut n = cur.clone();
                        let l = &mut n.fns[sf.unwrap()].blocks[sb.unwrap()].insts;
                        let at = match ip {
                            Ip::Begin => 0,
                            Ip::FromBegin1 => 1,
                            Ip::FromEnd1 => l.len() - 1,
                        };
                        let is_ret = matches!(op, BOp::InsertRet(_));
                        l.insert(at, if is_ret { inst("Return", None, None, vec![]) } else { inst("Nop", None, None, vec![]) });
                        Pred::Ok { snap: n, sel: if is_ret { (sf, None) } else { sel }, fresh: None }
                    }
                }
                BOp::FunctionParameter => {
                    if let Some(f) = sf {
                        let mut n = cur.clone();
                        n.fns[f].params.push(inst("FunctionParameter", Some(RT), ret_id, vec![]));
                        Pred::Ok { snap: n, sel, fresh: ret_id }
                    } else {
                        Pred::Fail
                    }
                }
                BOp::Variable | BOp::Undef => {
                    let i = if *op == BOp::Variable { inst("Variable", Some(RT), ret_id, vec![Arg::Enum("StorageClass", 7)]) } else { inst("Undef", Some(RT), ret_id, vec![]) };
                    let n = if in_block { append_block(&cur, i) } else { append_global(&cur, i) };
                    Pred::Ok { snap: n, sel, fresh: ret_id }
                }
                BOp::Line | BOp::NoLine => {
                    let i = if *op == BOp::Line { inst("Line", None, None, vec![Arg::IdRef(8), Arg::Lit32(1), Arg::Lit32(2)]) } else { inst("NoLine", None, None, vec![]) };
                    let n = if in_block { append_block(&cur, i) } else { append_global(&cur, i) };
                    Pred::Ok { snap: n, sel, fresh: None }
                }
                BOp::Capability => {
                    let mut n = cur.clone();
                    n.secs[0].push(inst("Capability", None, None, vec![Arg::Enum("Capability", 1)]));
                    Pred::Ok { snap: n, sel, fresh: None }
                }
                BOp::ConstantBit32 => Pred::Ok { snap: append_global(&cur, inst("Constant", Some(RT), ret_id, vec![Arg::Lit32(42)])), sel, fresh: ret_id },
                BOp::Id => Pred::Ok { snap: cur.clone(), sel, fresh: ret_id },
                BOp::SetVersion => {
                    let mut n = cur.clone();
                    n.version = Some(0x0001_0400);
                    Pred::Ok { snap: n, sel, fresh: None }
                }
                BOp::Phi => {
                    if !in_block {
                        Pred::Fail
                    } else {
                        Pred::Ok { snap: append_block(&cur, inst("Phi", Some(RT), ret_id, vec![Arg::IdRef(6), Arg::IdRef(7)])), sel, fresh: ret_id }
                    }
                }
                BOp::InsertTypeGlobal(k) => {
                    let mut n = cur.clone();
                    let at = match k {
                        0 => 0,
                        1 => 1,
                        _ => n.secs[10].len() - 1,
                    };
                    n.secs[10].insert(at, inst("TypeBool", None, Some(90 + *k as u32), vec![]));
                    Pred::Ok { snap: n, sel, fresh: None }
                }
                BOp::ForwardPointerFresh => Pred::Ok { snap: append_global(&cur, inst("TypeForwardPointer", None, None, vec![Arg::IdRef(ret_id.unwrap()), Arg::Enum("StorageClass", spirv::StorageClass::Function as u32)])), sel, fresh: ret_id },
                BOp::ForwardPointerOfArg(si) => {
                    let site = &type_calls()[*si];
                    let base = type_call_inst(site, &type_call_args(site, None, 0), None);
                    let x = base.args.iter().find_map(|a| match a {
                        Arg::IdRef(x) | Arg::IdScope(x) => Some(*x),
                        _ => None,
                    }).unwrap();
                    Pred::Ok { snap: append_global(&cur, inst("TypeForwardPointer", None, None, vec![Arg::IdRef(x), Arg::Enum("StorageClass", spirv::StorageClass::Function as u32)])), sel, fresh: None }
                }
                BOp::TypeVoid | BOp::TypeCall(..) | BOp::TypeCallRef(..) | BOp::TypePointer(..) | BOp::StructOfForward | BOp::PointerToLast => {
                    let want = expected_inst.clone().unwrap_or_else(|| inst("TypeVoid", None, ret_id, vec![]));
                    let equal_earlier: Vec<u32> = cur.secs[10].iter().filter(|d| d.rid.is_some() && d.opcode == want.opcode && d.args == want.args).map(|d| d.rid.unwrap()).collect();
                    if explicit {
                        // an explicit request always appends a declaration carrying that id
                        outcomes.push("type_explicit".into());
                        Pred::Ok { snap: append_global(&cur, want), sel, fresh: None }
                    } else if !equal_earlier.is_empty() {
                        outcomes.push("type_dedup_hit".into());
                        if !equal_earlier.contains(&ret_id.unwrap()) {
                            viol = Some(("dedup-id".into(), format!("step {} {}: an identical declaration exists with id(s) {:?} but the call returned {}", step, op_str(op), equal_earlier, ret_id.unwrap())));
                            break 'steps;
                        }
                        Pred::Ok { snap: cur.clone(), sel, fresh: None }
                    } else {
                        outcomes.push("type_dedup_miss".into());
                        Pred::Ok { snap: append_global(&cur, want), sel, fresh: ret_id }
                    }
                }
                BOp::SelectFunction(_) | BOp::SelectBlock(_) | BOp::PopInstruction => Pred::Adopt,
                BOp::Import(k) => {
                    let mut n = cur.clone();
                    n.secs[2].push(inst("ExtInstImport", None, ret_id, vec![Arg::Str(["GLSL.std.450", "NonSemantic.DebugPrintf"][*k].to_string())]));
                    Pred::Ok { snap: n, sel, fresh: ret_id }
                }
                BOp::ExtInstVia => {
                    if !in_block {
                        Pred::Fail
                    } else {
                        let set = cur.secs[2].last().and_then(|i| i.rid).unwrap();
                        Pred::Ok { snap: append_block(&cur, inst("ExtInst", Some(RT), ret_id, vec![Arg::IdRef(set), Arg::ExtInstNo(1), Arg::IdRef(6)])), sel, fresh: ret_id }
                    }
                }
                BOp::NameFunction(k) => {
                    let mut n = cur.clone();
                    let fid = cur.fns[*k].def.as_ref().unwrap().rid.unwrap();
                    n.secs[7].push(inst("Name", None, None, vec![Arg::IdRef(fid), Arg::Str(format!("f{}", k))]));
                    Pred::Ok { snap: n, sel, fresh: None }
                }
                BOp::NameAny(k, j) => {
                    let mut n = cur.clone();
                    let target = match k {
                        Some(k) => cur.fns[*k].def.as_ref().unwrap().rid.unwrap(),
                        None => 999,
                    };
                    n.secs[7].push(inst("Name", None, None, vec![Arg::IdRef(target), Arg::Str(TEXTS[*j].to_string())]));
                    Pred::Ok { snap: n, sel, fresh: None }
                }
                BOp::DeclareFnTypes(kind) => {
                    let mut n = cur.clone();
                    match kind {
                        0 => {
                            n.secs[10].push(inst("TypeVoid", None, Some(RT), vec![]));
                            n.secs[10].push(inst("TypeFunction", None, Some(RT + 1), vec![Arg::IdRef(RT)]));
                        }
                        1 => {
                            n.secs[10].push(inst("TypeInt", None, Some(RT), vec![Arg::Lit32(32), Arg::Lit32(0)]));
                            n.secs[10].push(inst("TypeFunction", None, Some(RT + 1), vec![Arg::IdRef(RT), Arg::IdRef(RT)]));
                        }
                        _ => {
                            n.secs[10].push(inst("TypeFloat", None, Some(RT), vec![Arg::Lit32(32)]));
                            n.secs[10].push(inst("TypeFunction", None, Some(RT + 1), vec![Arg::IdRef(RT)]));
                        }
                    }
                    Pred::Ok { snap: n, sel, fresh: None }
                }
                BOp::MentionLastType(kind) => {
                    let mut n = cur.clone();
                    let t = cur.secs[10].iter().rev().find_map(|i| i.rid).unwrap();
                    match kind {
                        0 => n.secs[7].push(inst("Name", None, None, vec![Arg::IdRef(t), Arg::Str("n".into())])),
                        1 => n.secs[7].push(inst("MemberName", None, None, vec![Arg::IdRef(t), Arg::Lit32(0), Arg::Str("m".into())])),
                        2 => n.secs[9].push(inst("Decorate", None, None, vec![Arg::IdRef(t), Arg::Enum("Decoration", 2)])),
                        3 => n.secs[9].push(inst("MemberDecorate", None, None, vec![Arg::IdRef(t), Arg::Lit32(0), Arg::Enum("Decoration", 35), Arg::Lit32(0)])),
                        4 => n.secs[9].push(inst("DecorateString", None, None, vec![Arg::IdRef(t), Arg::Enum("Decoration", 5635), Arg::Str("s".into())])),
                        5 => n.secs[9].push(inst("MemberDecorateString", None, None, vec![Arg::IdRef(t), Arg::Lit32(0), Arg::Enum("Decoration", 5635), Arg::Str("s".into())])),
                        6 => n.secs[4].push(inst("EntryPoint", None, None, vec![Arg::Enum("ExecutionModel", 5), Arg::IdRef(t), Arg::Str("e".into()), Arg::IdRef(t)])),
                        _ => n.secs[5].push(inst("ExecutionModeId", None, None, vec![Arg::IdRef(t), Arg::Enum("ExecutionMode", 38), Arg::IdRef(t), Arg::IdRef(t), Arg::IdRef(t)])),
                    }
                    Pred::Ok { snap: n, sel, fresh: None }
                }
                BOp::SelectByName(_) | BOp::SelectByText(_) => {
                    let text = match op {
                        BOp::SelectByName(k) => format!("f{}", k),
                        BOp::SelectByText(j) => TEXTS[*j].to_string(),
                        _ => unreachable!(),
                    };
                    // the first OpName with that string whose target is the result id of some function's OpFunction
                    let target = cur.secs[7].iter().filter(|i| i.name() == "Name" && i.args.get(1) == Some(&Arg::Str(text.clone()))).find_map(|i| match i.args.first() {
                        Some(Arg::IdRef(t)) => cur.fns.iter().position(|f| f.def.as_ref().and_then(|d| d.rid) == Some(*t)),
                        _ => None,
                    });
                    match target {
                        None => Pred::Fail,
                        // selecting by name is selecting the function found: when that is ANOTHER function than the one
                        // selected, no block of it has been selected by anybody, so none is (a block index taken over from
                        // the function left behind would make the next terminator end a block nobody opened); when it is
                        // the same function the block selection is not fixed by the statement: adopt it
                        Some(idx) => Pred::Ok { snap: cur.clone(), sel: (Some(idx), if sf == Some(idx) { now_sel.1 } else { None }), fresh: None },
                    }
                }
                BOp::FindReturnBlocks => Pred::Ok { snap: cur.clone(), sel, fresh: None },
                BOp::Continue | BOp::Reload | BOp::AdoptWithoutId(_) => unreachable!(),
            };
            let _ = &mut append_block;
            // ---- compare
            match pred {
                Pred::Disabled => unreachable!(),
                Pred::Fail => {
                    if ok {
                        viol = Some((format!("should-fail:{}", variant_name(op)), format!("step {} {}: returned Ok although {}", step, op_str(op), why_fail(op, sel))));
                        break 'steps;
                    }
                    if after != cur {
                        viol = Some((format!("err-changed-module:{}", variant_name(op)), format!("step {} {}: returned Err but the module changed: {} -> {}", step, op_str(op), cur.brief(), after.brief())));
                        break 'steps;
                    }
                    // "failed calls change nothing": the selection is part of what a failed call must leave alone
                    if now_sel != sel {
                        viol = Some((format!("err-changed-selection:{}", variant_name(op)), format!("step {} {}: returned Err but the selection changed from {:?} to {:?}", step, op_str(op), sel, now_sel)));
                        break 'steps;
                    }
                    next_hi = next_hi.saturating_add(1);
                    outcomes.push(format!("err:{}", variant_name(op)));
                    sel = now_sel;
                }
                Pred::Ok { snap: want, sel: want_sel, fresh } => {
                    if !ok {
                        viol = Some((format!("should-succeed:{}", variant_name(op)), format!("step {} {}: returned Err in selection {:?}", step, op_str(op), sel)));
                        break 'steps;
                    }
                    if after != want {
                        viol = Some((format!("wrong-effect:{}", variant_name(op)), format!("step {} {}: module is {} ; expected {}", step, op_str(op), after.brief(), want.brief())));
                        break 'steps;
                    }
                    if now_sel != want_sel {
                        viol = Some((format!("wrong-selection:{}", variant_name(op)), format!("step {} {}: selection is {:?}, expected {:?}", step, op_str(op), now_sel, want_sel)));
                        break 'steps;
                    }
                    if let Some(x) = fresh {
                        if x < next_lo || x > next_hi {
                            viol = Some(("fresh-id-order".into(), format!("step {} {}: fresh id {} but the next fresh id must lie in [{}, {}] (ids so far {:?})", step, op_str(op), x, next_lo, next_hi, fresh_seen)));
                            break 'steps;
                        }
                        if fresh_seen.contains(&x) {
                            viol = Some(("fresh-id-reused".into(), format!("step {} {}: fresh id {} was allocated before", step, op_str(op), x)));
                            break 'steps;
                        }
                        fresh_seen.push(x);
                        next_lo = x + 1;
                        next_hi = x + 1;
                        outcomes.push("fresh_id".into());
                    }
                    outcomes.push(format!("ok:{}", variant_name(op)));
                    sel = now_sel;
                }
                Pred::Adopt => {
                    if !ok && after != cur {
                        viol = Some((format!("err-changed-module:{}", variant_name(op)), format!("step {} {}: returned Err but the module changed", step, op_str(op))));
                        break 'steps;
                    }
                    if ok {
                        match op {
                            BOp::PopInstruction => {
                                // exactly the last instruction of the selected block is gone
                                let mut want = cur.clone();
                                let popped = match (sf, sb) {
                                    (Some(f), Some(bi)) => want.fns.get_mut(f).and_then(|f| f.blocks.get_mut(bi)).and_then(|b| b.insts.pop()).is_some(),
                                    _ => false,
                                };
                                if !popped || after != want {
                                    viol = Some(("wrong-effect:PopInstruction".into(), format!("step {} pop_instruction: returned Ok; module {} -> {}", step, cur.brief(), after.brief())));
                                    break 'steps;
                                }
                            }
                            _ => {
                                if after != cur {
                                    viol = Some((format!("wrong-effect:{}", variant_name(op)), format!("step {} {}: a selection call changed the module", step, op_str(op))));
                                    break 'steps;
                                }
                            }
                        }
                        outcomes.push(format!("ok:{}", variant_name(op)));
                    } else {
                        if now_sel != sel {
                            viol = Some((format!("err-changed-selection:{}", variant_name(op)), format!("step {} {}: returned Err but the selection changed from {:?} to {:?}", step, op_str(op), sel, now_sel)));
                            break 'steps;
                        }
                        next_hi = next_hi.saturating_add(1);
                        outcomes.push(format!("err:{}", variant_name(op)));
                    }
                    sel = now_sel;
                }
            }
            cur = after;
            // ---- invariant in every state
            let inv = match sel {
                (None, None) => true,
                (Some(f), None) => f < cur.fns.len(),
                (Some(f), Some(bi)) => f < cur.fns.len() && bi < cur.fns[f].blocks.len(),
                (None, Some(_)) => false,
            };
            if !inv {
                viol = Some(("selection-invariant".into(), format!("step {} {}: selection {:?} does not designate an existing function/block ({} functions)", step, op_str(op), sel, cur.fns.len())));
                break 'steps;
            }
        }
        // ---- end of history: probe the next id and the bound
        let mut probe = 0;
        let mut bound = 0;
        if viol.is_none() && !disabled {
            probe = b.id();
            if probe < next_lo || probe > next_hi {
                viol = Some(("fresh-id-order".into(), format!("end of history: id() returned {} but the next fresh id must lie in [{}, {}]", probe, next_lo, next_hi)));
            } else if fresh_seen.contains(&probe) {
                viol = Some(("fresh-id-reused".into(), format!("end of history: id() returned {} which was allocated before", probe)));
            } else {
                let m = b.module();
                bound = m.header.as_ref().map(|h| h.bound).unwrap_or(0);
                if bound != probe + 1 {
                    viol = Some(("bound".into(), format!("end of history: module().header.bound = {} after allocating id {} (must be the next id, {})", bound, probe, probe + 1)));
                }
                let maxid = fresh_seen.iter().copied().max().unwrap_or(0);
                if viol.is_none() && bound <= maxid {
                    viol = Some(("bound".into(), format!("bound {} does not exceed allocated id {}", bound, maxid)));
                }
            }
        }
        (viol, disabled, cur, sel, probe, bound)
    });
    match r {
        Err(p) => Replay { viol: None, panicked: Some(p), disabled: false, snap: Snap { version: None, secs: vec![], fns: vec![] }, sel: (None, None), next_probe: 0, bound: 0, outcomes },
        Ok((viol, disabled, snap, sel, probe, bound)) => Replay { viol, panicked: None, disabled, snap, sel, next_probe: probe, bound, outcomes },
    }
}

fn variant_name(o: &BOp) -> String {
    let s = format!("{:?}", o);
    s.split(|c| c == '(' || c == ' ').next().unwrap().to_string()
}

fn why_fail(o: &BOp, sel: (Option<usize>, Option<usize>)) -> String {
    match o {
        BOp::BeginFunction | BOp::BeginFunctionId(_) => format!("a function is open (selection {:?})", sel),
        BOp::EndFunction | BOp::FunctionParameter => "no function is open".to_string(),
        BOp::BeginBlock | BOp::BeginBlockNoLabel | BOp::BeginBlockId(_) => format!("no function is open or a block is open (selection {:?})", sel),
        _ => format!("no block is selected (selection {:?})", sel),
    }
}

pub fn to_step(prop: &str, h: &[BOp], r: Replay) -> Step {
    let rep = json!({"kind": "builder", "history": h.iter().map(op_str).collect::<Vec<_>>()});
    if let Some(p) = r.panicked {
        let class = crate::report::panic_class(&p);
        return Step {
            key: None,
            viols: vec![viol(format!("{}:panic@{}", prop, class), format!("history [{}] panics: {}", hist_str(h), p), rep)],
            outcomes: vec!["panic".into()],
        };
    }
    if r.disabled {
        return Step { key: None, viols: vec![], outcomes: vec!["disabled".into()] };
    }
    if let Some((class, what)) = r.viol {
        return Step { key: None, viols: vec![viol(format!("{}:{}", prop, class), format!("history [{}]: {}", hist_str(h), what), rep)], outcomes: r.outcomes };
    }
    let mut hs = DefaultHasher::new();
    r.snap.hash(&mut hs);
    r.sel.hash(&mut hs);
    r.next_probe.hash(&mut hs);
    let a = hs.finish();
    let mut hs2 = DefaultHasher::new();
    (0xA5A5u32, &r.snap, r.sel, r.next_probe).hash(&mut hs2);
    Step { key: Some(format!("{:016x}{:016x}", a, hs2.finish())), viols: vec![], outcomes: r.outcomes }
}

pub fn _unused(_: &[P], _: Viol) {}
