//! C13 — Builder id discipline: fresh ids, exact bound, deduplicated implicit types (shape S).
use crate::bsys::{self, BOp};
use crate::report::{Run, Tier};
use crate::xs;
use serde_json::json;

/// allocation-tilted core alphabet
pub fn core_alphabet() -> Vec<BOp> {
    vec![
        BOp::Id,
        BOp::BeginFunction,
        BOp::BeginBlock,
        BOp::IAdd,          // fails after reserving an id when no block is selected
        BOp::ExtInst,       // likewise
        BOp::ExtInstExplicit(2), // fails without reserving anything: an explicit id was passed
        BOp::IAddExplicit(2),
        BOp::BeginBlockId(3),
        BOp::Ret,
        BOp::EndFunction,
        BOp::ConstantBit32,
        BOp::Variable,
        BOp::TypeVoid,
        BOp::TypePointer(None, 0),
        BOp::TypePointer(None, 1),
        BOp::TypePointer(Some(2), 0), // explicit id colliding with an earlier allocation
        BOp::TypePointer(Some(40), 0),
        BOp::SetVersion,
        BOp::Continue,
    ]
}

pub fn run(tier: Tier) -> Run {
    let mut run = Run::new("C13", tier, "model_checking");
    let sites = bsys::type_calls();
    // ---- part 1: core alphabet + a rotating slice of the generated type methods
    let mut alpha = core_alphabet();
    // implicit int/float/vector with two argument values each, explicit variants colliding / not colliding
    let pick = |name: &str| sites.iter().position(|s| s.name == name).expect("type method");
    for (n, e, v) in [("type_int", None, 0), ("type_int", None, 1), ("type_int_id", Some(1u32), 0), ("type_int_id", Some(41), 0), ("type_float", None, 0), ("type_vector", None, 0), ("type_struct", None, 0), ("type_struct", None, 1)] {
        alpha.push(BOp::TypeCall(pick(n), e, v));
    }
    let f = |h: &[BOp]| bsys::to_step("C13", h, bsys::replay(h));
    let d_enum = tier.pick(4, 5);
    let d_clos = tier.pick(4, 6);
    let a = xs::enumerate(&alpha, d_enum, &f);
    let b = xs::closure(&alpha, d_clos, tier.pick(300_000, 6_000_000), &f);
    // ---- part 2: every generated type method (all 64), every pair of requests over
    //      {implicit v0, implicit v1, explicit fresh-looking id, explicit colliding id}, interleaved with id() / constant
    let mut alpha2: Vec<BOp> = vec![BOp::Id, BOp::ConstantBit32];
    for (si, s) in sites.iter().enumerate() {
        let takes_id = s.params.iter().any(crate::callargs::is_result_id_param);
        alpha2.push(BOp::TypeCall(si, None, 0));
        alpha2.push(BOp::TypeCall(si, None, 1));
        if takes_id {
            alpha2.push(BOp::TypeCall(si, Some(1), 0));
            alpha2.push(BOp::TypeCall(si, Some(77), 0));
        }
    }
    let c = xs::enumerate(&alpha2, tier.pick(2, 3), &f);
    for st in [&a, &b, &c] {
        run.add_all(st.viols.clone());
        run.merge_outcomes(&st.outcomes);
    }
    run.set("states", json!(b.states + c.states));
    run.set("transitions", json!(a.transitions + b.transitions + c.transitions));
    run.set("traces_validated_against_impl", json!(a.histories_replayed + b.histories_replayed + c.histories_replayed));
    run.set("max_depth", json!(b.max_depth));
    run.set("bounds", json!({"core_alphabet": alpha.iter().map(bsys::op_str).collect::<Vec<_>>(), "full_enumeration_depth": d_enum, "closure_depth": d_clos,
        "type_method_alphabet": alpha2.len(), "type_methods": sites.len(), "type_method_enumeration_depth": tier.pick(2, 3)}));
    run.set("bound_completed", json!({"enumeration_depth": a.depth_completed, "closure_depth": if b.depth_completed == usize::MAX { d_clos } else { b.depth_completed }, "type_method_depth": c.depth_completed}));
    run.set("closure", json!({"states": b.states, "transitions": b.transitions, "per_depth_states": b.per_depth_states}));
    if tier == Tier::Thorough {
        crate::report::second_engine(&mut run, "C13", 4);
    }
    run.set("caps_hit", json!(b.caps_hit));
    run.set("exhaustive", json!(b.caps_hit.is_empty()));
    run.set("samples", json!(a.sample_histories.iter().chain(c.sample_histories.iter()).collect::<Vec<_>>()));
    run.set("rule", json!("same real-Builder/model system as C12 with an allocation-tilted alphabet; every fresh id must lie in [next, next + failed calls since] and never repeat, the end-of-history probe id() and module().header.bound must agree, implicit type requests must return the id of an identical earlier declaration (and add nothing) or append exactly one fresh declaration, explicit requests always append; all 64 generated type methods are driven in every ordered pair/triple of requests"));
    run.assume("a failing call reserves at most one id");
    for o in ["type_dedup_hit", "type_dedup_miss", "type_explicit", "fresh_id", "err:IAdd", "err:ExtInst", "continue"] {
        run.require_outcome(o);
    }
    run
}
