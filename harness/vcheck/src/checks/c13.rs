//! C13 — Builder id discipline: fresh ids, exact bound, deduplicated implicit types (shape S).
use crate::bsys::{self, BOp};
use crate::report::{Run, Tier};
use crate::xs;
use serde_json::json;

/// allocation-tilted core alphabet
pub fn core_alphabet() -> Vec<BOp> {
    vec![
        BOp::Id,
        BOp::BeginFunction,
        BOp::BeginBlock,
        BOp::IAdd,          // fails after reserving an id when no block is selected
        BOp::ExtInst,       // likewise
        BOp::ExtInstExplicit(2), // fails without reserving anything: an explicit id was passed
        BOp::IAddExplicit(2),
        BOp::BeginBlockId(3),
        BOp::Ret,
        BOp::EndFunction,
        BOp::ConstantBit32,
        BOp::Variable,
        BOp::TypeVoid,
        BOp::TypePointer(None, 0),
        BOp::TypePointer(None, 1),
        BOp::TypePointer(Some(2), 0), // explicit id colliding with an earlier allocation
        BOp::TypePointer(Some(40), 0),
        BOp::SetVersion,
        BOp::Continue,
        BOp::Reload,
        BOp::Line, // outside a block it lands in types_global_values, right where the type declarations live
        BOp::NoLine,
    ]
}

pub fn run(tier: Tier) -> Run {
    let mut run = Run::new("C13", tier, "model_checking");
    let sites = bsys::type_calls();
    // ---- part 1: core alphabet + a rotating slice of the generated type methods
    let mut alpha = core_alphabet();
    // implicit int/float/vector with two argument values each, explicit variants colliding / not colliding
    let pick = |name: &str| sites.iter().position(|s| s.name == name).expect("type method");
    for (n, e, v) in [("type_int", None, 0), ("type_int", None, 1), ("type_int", None, 2), ("type_int_id", Some(1u32), 0), ("type_int_id", Some(41), 0), ("type_float", None, 0), ("type_vector", None, 0), ("type_struct", None, 0), ("type_struct", None, 1)] {
        alpha.push(BOp::TypeCall(pick(n), e, v));
    }
    let f = |h: &[BOp]| bsys::to_step("C13", h, bsys::replay(h));
    let d_enum = tier.pick(4, 5);
    let d_clos = tier.pick(4, 6);
    let a = xs::enumerate(&alpha, d_enum, &f);
    // a small alphabet around forward-declared pointers, deeper
    let fw = xs::enumerate(&[BOp::Id, BOp::ForwardPointerFresh, BOp::StructOfForward, BOp::PointerToLast, BOp::TypePointer(None, 0), BOp::ConstantBit32, BOp::Continue, BOp::TypeVoid], tier.pick(5, 6), &f);
    // declarations placed by the caller anywhere in the section, instructions taken back, builders continued: requests and
    // fresh ids afterwards
    let ins = xs::enumerate(
        &[BOp::Id, BOp::InsertTypeGlobal(0), BOp::InsertTypeGlobal(1), BOp::InsertTypeGlobal(2), BOp::TypeVoid, BOp::TypePointer(None, 0), BOp::TypePointer(None, 1), BOp::TypeCall(pick("type_int"), None, 0), BOp::TypeCall(pick("type_int"), None, 1), BOp::BeginFunction, BOp::BeginBlock, BOp::IAdd, BOp::PopInstruction, BOp::Continue],
        tier.pick(5, 6),
        &f,
    );
    run.add_all(ins.viols.clone());
    run.merge_outcomes(&ins.outcomes);
    run.add_all(fw.viols.clone());
    run.merge_outcomes(&fw.outcomes);
    let b = xs::closure(&alpha, d_clos, tier.pick(300_000, 6_000_000), &f);
    // ---- part 2a: per generated type method (all 64): every sequence of depth d over
    //      {id(), constant, implicit base, implicit with exactly ONE argument changed (each argument in turn),
    //       explicit colliding id, explicit other id}
    let d_site = tier.pick(3, 4);
    let per_site: Vec<xs::Stats> = {
        use rayon::prelude::*;
        (0..sites.len())
            .into_par_iter()
            .map(|si| {
                let s = &sites[si];
                let mut al: Vec<BOp> = vec![BOp::Id, BOp::ConstantBit32];
                for v in 0..bsys::type_call_variants(s) {
                    al.push(BOp::TypeCall(si, None, v));
                }
                if s.params.iter().any(crate::callargs::is_result_id_param) {
                    al.push(BOp::TypeCall(si, Some(1), 0));
                    al.push(BOp::TypeCall(si, Some(77), 0));
                }
                // a declaration (of another kind) whose RESULT id is one of the ids the base request refers to: a type
                // may be requested before the ids it uses are declared (forward references), and that declaration
                // arriving later must not hide the earlier identical request from the dedup
                let base = bsys::type_call_inst(s, &bsys::type_call_args(s, None, 0), None);
                let mut used: Vec<u32> = base.args.iter().filter_map(|a| match a { crate::model::Arg::IdRef(x) | crate::model::Arg::IdScope(x) => Some(*x), _ => None }).collect();
                used.sort();
                used.dedup();
                let int_id = sites.iter().position(|x| x.name == "type_int_id").expect("type_int_id");
                for x in used.into_iter().take(2) {
                    if si != int_id {
                        al.push(BOp::TypeCall(int_id, Some(x), 0));
                    }
                }
                xs::enumerate(&al, d_site, &f)
            })
            .collect()
    };
    // ---- part 2b: across methods (a dedup that forgets the opcode): every ordered pair of base requests
    let mut alpha2: Vec<BOp> = vec![BOp::Id];
    for si in 0..sites.len() {
        alpha2.push(BOp::TypeCall(si, None, 0));
    }
    let mut c = xs::enumerate(&alpha2, 2, &f);
    // ---- part 2c: every triple X, Y, X over the base requests of all type methods: a declaration of ANOTHER kind
    //      landing directly behind the first request must not hide it from the second
    {
        use rayon::prelude::*;
        let n = sites.len();
        let triples: Vec<xs::Step> = (0..n * n).into_par_iter().map(|i| f(&[BOp::TypeCall(i / n, None, 0), BOp::TypeCall(i % n, None, 0), BOp::TypeCall(i / n, None, 0)])).collect();
        for st in triples {
            c.transitions += 3;
            c.histories_replayed += 1;
            for v in st.viols {
                if !c.viols.iter().any(|x| x.key == v.key) {
                    c.viols.push(v);
                }
            }
            for k in st.outcomes {
                *c.outcomes.entry(k).or_insert(0) += 1;
            }
        }
    }
    for st in per_site {
        c.states += st.states;
        c.transitions += st.transitions;
        c.histories_replayed += st.histories_replayed;
        c.depth_completed = d_site;
        for v in st.viols {
            if !c.viols.iter().any(|x| x.key == v.key) {
                c.viols.push(v);
            }
        }
        for (k, n) in st.outcomes {
            *c.outcomes.entry(k).or_insert(0) += n;
        }
        if c.sample_histories.len() < 6 {
            c.sample_histories.extend(st.sample_histories.into_iter().take(1));
        }
    }
    // ---- part 2d: per type method, through a finished-and-continued module, and with an operand that is the id of a
    //      constant created by an earlier call (two constants of equal value are still two ids)
    {
        use rayon::prelude::*;
        let mut hs: Vec<Vec<BOp>> = vec![];
        for si in 0..sites.len() {
            let x = BOp::TypeCall(si, None, 0);
            for cont in [BOp::Continue, BOp::Reload] {
                hs.push(vec![x.clone(), cont.clone(), x.clone(), x.clone()]);
                hs.push(vec![BOp::TypeCall(si, None, 1), x.clone(), cont.clone(), x.clone(), BOp::TypeCall(si, None, 1)]);
            }
            // a module that already holds this declaration WITHOUT a result id (as a loader delivers result-less opcodes)
            hs.push(vec![BOp::AdoptWithoutId(si), x.clone(), x.clone(), x.clone()]);
            // the declaration's id is MENTIONED by a debug / annotation / entry-point instruction (as every struct of a real
            // shader is): the next identical request must still find it
            for kind in 0..8u8 {
                hs.push(vec![x.clone(), BOp::MentionLastType(kind), x.clone(), x.clone()]);
                hs.push(vec![x.clone(), BOp::MentionLastType(kind), BOp::MentionLastType(kind), BOp::Continue, x.clone()]);
                hs.push(vec![x.clone(), BOp::MentionLastType(kind), BOp::Reload, x.clone()]);
            }
            for k in 0..4 {
                let r = BOp::TypeCallRef(si, k);
                hs.push(vec![BOp::ConstantBit32, r.clone(), BOp::ConstantBit32, r.clone()]);
                hs.push(vec![BOp::ConstantBit32, r.clone(), r.clone()]);
                hs.push(vec![BOp::ConstantBit32, BOp::ConstantBit32, r.clone(), BOp::Id, r.clone()]);
            }
        }
        // forward-declared pointers: an id announced by OpTypeForwardPointer (taken from id(), or one a type request
        // mentions) and not yet defined: requests that mention it dedup as any other, a pointer to such a type gets a fresh id
        hs.push(vec![BOp::ForwardPointerFresh, BOp::StructOfForward, BOp::StructOfForward]);
        hs.push(vec![BOp::ForwardPointerFresh, BOp::StructOfForward, BOp::PointerToLast, BOp::Id]);
        hs.push(vec![BOp::Id, BOp::ForwardPointerFresh, BOp::StructOfForward, BOp::PointerToLast, BOp::PointerToLast, BOp::Id]);
        for si in 0..sites.len() {
            let x = BOp::TypeCall(si, None, 0);
            hs.push(vec![BOp::ForwardPointerOfArg(si), x.clone(), x.clone()]);
            hs.push(vec![x.clone(), BOp::ForwardPointerOfArg(si), x.clone(), BOp::PointerToLast, BOp::Id]);
            hs.push(vec![BOp::ForwardPointerOfArg(si), x.clone(), BOp::PointerToLast, BOp::PointerToLast, BOp::Id]);
        }
        let steps: Vec<xs::Step> = hs.par_iter().map(|h| f(h)).collect();
        for st in steps {
            c.transitions += 4;
            c.histories_replayed += 1;
            for v in st.viols {
                if !c.viols.iter().any(|x| x.key == v.key) {
                    c.viols.push(v);
                }
            }
            for k in st.outcomes {
                *c.outcomes.entry(k).or_insert(0) += 1;
            }
        }
    }
    for st in [&a, &b, &c] {
        run.add_all(st.viols.clone());
        run.merge_outcomes(&st.outcomes);
    }
    run.set("states", json!(b.states + c.states));
    run.set("transitions", json!(a.transitions + b.transitions + c.transitions));
    run.set("traces_validated_against_impl", json!(a.histories_replayed + b.histories_replayed + c.histories_replayed));
    run.set("max_depth", json!(b.max_depth));
    run.set("bounds", json!({"core_alphabet": alpha.iter().map(bsys::op_str).collect::<Vec<_>>(), "full_enumeration_depth": d_enum, "closure_depth": d_clos,
        "type_methods": sites.len(), "per_method_enumeration_depth": d_site, "cross_method_pairs_depth": 2}));
    run.set("bound_completed", json!({"enumeration_depth": a.depth_completed, "closure_depth": if b.depth_completed == usize::MAX { d_clos } else { b.depth_completed }, "type_method_depth": c.depth_completed}));
    run.set("closure", json!({"states": b.states, "transitions": b.transitions, "per_depth_states": b.per_depth_states}));
    if tier == Tier::Thorough {
        crate::report::second_engine(&mut run, "C13", 4);
    }
    run.set("caps_hit", json!(b.caps_hit));
    run.set("exhaustive", json!(b.caps_hit.is_empty()));
    run.set("samples", json!(a.sample_histories.iter().chain(c.sample_histories.iter()).collect::<Vec<_>>()));
    run.set("rule", json!("same real-Builder/model system as C12 with an allocation-tilted alphabet; every fresh id must lie in [next, next + failed calls since] and never repeat, the end-of-history probe id() and module().header.bound must agree, implicit type requests must return the id of an identical earlier declaration (and add nothing) or append exactly one fresh declaration, explicit requests always append; all 64 generated type methods are driven in every ordered pair/triple of requests"));
    run.assume("a failing call reserves at most one id");
    for o in ["type_dedup_hit", "type_dedup_miss", "type_explicit", "fresh_id", "err:IAdd", "err:ExtInst", "continue"] {
        run.require_outcome(o);
    }
    run
}
