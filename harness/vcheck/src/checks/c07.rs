//! C07 — disassembly is a complete, unambiguous rendering of the instruction stream (shape B).
use crate::checks::c01::{self, Case};
use crate::checks::c05::{rep_inst, Expect, LModel};
use crate::disasm_ref::{self, expected_tokens, header_lines, tok_matches, tokenize, Ctx, Tok};
use crate::golden::golden;
use crate::model::{self, enc, Arg, Inst};
use crate::report::{guarded, viol, Run, Tier, Viol};
use rayon::prelude::*;
use rspirv::binary::{Assemble, Disassemble};
use rspirv::dr;
use serde_json::json;
use std::collections::HashMap;

/// expected (instruction, is-module-level, is-inside-block) in assembly order + the context
fn layout(insts: &[Inst]) -> Option<(Vec<(Inst, bool, bool)>, Ctx)> {
    let mut lm = LModel::new(None);
    for i in insts {
        if lm.feed(i) != Expect::Ok {
            return None;
        }
    }
    if lm.end_of_stream() != Expect::Ok {
        return None;
    }
    let ctx = disasm_ref::ctx_of(&lm.snap.secs[2], &lm.snap.secs[10]);
    let mut v = vec![];
    for s in &lm.snap.secs {
        for i in s {
            v.push((i.clone(), true, false));
        }
    }
    for f in &lm.snap.fns {
        for i in f.def.iter().chain(f.params.iter()) {
            v.push((i.clone(), false, false));
        }
        for b in &f.blocks {
            for i in b.label.iter() {
                v.push((i.clone(), false, false));
            }
            for i in &b.insts {
                v.push((i.clone(), false, true));
            }
        }
        for i in f.end.iter() {
            v.push((i.clone(), false, false));
        }
    }
    Some((v, ctx))
}

fn operand_kind_at(i: &Inst, tok_index: usize) -> String {
    // token index -> operand kind (for the violation key)
    let mut idx = 0usize;
    if i.rid.is_some() {
        idx += 2;
    }
    if tok_index == idx {
        return "opcode".into();
    }
    idx += 1;
    if i.rtype.is_some() {
        if tok_index == idx {
            return "result-type".into();
        }
        idx += 1;
    }
    i.args.get(tok_index.wrapping_sub(idx)).map(|a| a.kind_name().to_string()).unwrap_or_else(|| "length".into())
}

pub struct CaseOut {
    pub viols: Vec<Viol>,
    pub outcome: &'static str,
    /// (text without the header comment, assembled words after the header) for the global collision map
    pub text_words: Option<(String, Vec<u32>)>,
}

pub fn check_case(c: &Case) -> CaseOut {
    let mut words = model::header(c.version, 0, c.bound);
    match &c.raw {
        Some(r) => words.extend(r),
        None => {
            for i in &c.insts {
                words.extend(enc(i));
            }
        }
    }
    let rep = json!({"kind": "words", "words": words, "case": c.id});
    let opname = c.id.split(':').next().unwrap_or("").to_string();
    let module = match guarded(|| dr::load_words(&words)) {
        Ok(Ok(m)) => m,
        _ => return CaseOut { viols: vec![], outcome: "not-loadable", text_words: None },
    };
    let Some((order, ctx)) = layout(&c.insts) else { return CaseOut { viols: vec![], outcome: "model-rejects", text_words: None } };
    let t0 = std::time::Instant::now();
    let text = match guarded(|| module.disassemble()) {
        Err(p) => return CaseOut { viols: vec![viol(format!("C07:panic@{}", crate::report::panic_class(&p)), format!("case {}: disassemble panics: {}", c.id, p), rep)], outcome: "panic", text_words: None },
        Ok(t) => t,
    };
    if std::env::var("VERIF_PROFILE").is_ok() && c.id.contains("var6553") {
        eprintln!("{} disassemble {:?}", c.id, t0.elapsed());
    }
    let mut viols = vec![];
    // second use: disassembling the same module again gives the same text
    match guarded(|| module.disassemble()) {
        Ok(t2) if t2 == text => {}
        other => viols.push(viol(format!("C07:repeat:{}", opname), format!("case {}: a second disassemble() of the same module gives {:?}", c.id, other.map(|t| t.chars().take(200).collect::<String>())), rep.clone())),
    }
    let lines: Vec<&str> = text.split('\n').collect();
    // header comment: version major.minor, generator tool name (the loader stamps rspirv's), id bound
    let want_header = header_lines(c.version, 0x000f_0000, c.bound);
    if lines.len() < 4 || lines[..4].iter().zip(want_header.iter()).any(|(a, b)| tokenize(a) != tokenize(b)) {
        viols.push(viol("C07:render:header", format!("case {}: header comment {:?}, expected {:?}", c.id, &lines[..lines.len().min(4)], want_header), rep.clone()));
    }
    let body = &lines[lines.len().min(4)..];
    // exactly one line per instruction, in assembly order
    if body.len() != order.len() {
        viols.push(viol(format!("C07:render:line-count:{}", opname), format!("case {}: {} lines for {} instructions:\n{}", c.id, body.len(), order.len(), text), rep.clone()));
    } else {
        for (ln, ((inst, global, in_block), line)) in order.iter().zip(body.iter()).enumerate() {
            let exp = expected_tokens(inst, &ctx, *global, *in_block);
            let got = tokenize(line);
            let bad = if exp.len() != got.len() { Some(exp.len().min(got.len())) } else { exp.iter().zip(got.iter()).position(|(e, g)| !tok_matches(e, g)) };
            if let Some(b) = bad {
                let kind = operand_kind_at(inst, b);
                viols.push(viol(
                    format!("C07:render:{}:{}", inst.name(), kind),
                    format!("case {} line {}: {:?} ; the property demands tokens {:?} (first difference at token {})", c.id, ln + 1, line, exp.iter().map(|t| match t { Tok::Exact(s) => s.clone(), other => format!("{:?}", other) }).collect::<Vec<_>>(), b),
                    rep.clone(),
                ));
                break;
            }
        }
    }
    // NaN payloads are excepted by the statement: a constant rendered as NaN is neither read back nor entered in the collision map
    let has_nan = body.iter().any(|l| l.contains("OpConstant") && tokenize(l).last().map_or(false, |t| t == "NaN" || t == "-NaN"));
    if has_nan {
        return CaseOut { viols, outcome: "rendered-nan-excepted", text_words: None };
    }
    // narrow (8/16-bit) typed constants: spelling is free, so the reference reader is not applied; injectivity is
    // decided by the global collision map alone
    let narrow = order.iter().any(|(i, global, _)| *global && i.name() == "Constant" && matches!(i.rtype.and_then(|t| ctx.render_types.get(&t)), Some(disasm_ref::RTy::Int(w, _)) | Some(disasm_ref::RTy::Float(w)) if *w < 32));
    // reading the text back reconstructs the instruction stream exactly
    let asm = module.assemble();
    let stream = asm[5.min(asm.len())..].to_vec();
    match if narrow { Ok(stream.clone()) } else { disasm_ref::read(&text) } {
        Err(e) => {
            if viols.is_empty() {
                viols.push(viol(format!("C07:read:{}", opname), format!("case {}: the reference reader cannot read the text back: {}", c.id, e), rep.clone()));
            }
        }
        Ok(w) => {
            if w != stream && viols.is_empty() {
                viols.push(viol(format!("C07:read:{}", opname), format!("case {}: the text reads back as {:x?}, the instruction stream is {:x?}\n{}", c.id, w, stream, text), rep.clone()));
            }
        }
    }
    let body_text = body.join("\n");
    CaseOut { viols, outcome: "rendered", text_words: Some((body_text, stream)) }
}

/// typed constants: every type x boundary bit patterns
fn typed_constant_cases() -> Vec<Case> {
    let mut out = vec![];
    let types: Vec<(&str, Inst, usize)> = vec![
        ("i8", Inst::new("TypeInt", None, Some(10), vec![Arg::Lit32(8), Arg::Lit32(1)]), 1),
        ("i16", Inst::new("TypeInt", None, Some(10), vec![Arg::Lit32(16), Arg::Lit32(1)]), 1),
        ("i32", Inst::new("TypeInt", None, Some(10), vec![Arg::Lit32(32), Arg::Lit32(1)]), 1),
        ("i64", Inst::new("TypeInt", None, Some(10), vec![Arg::Lit32(64), Arg::Lit32(1)]), 2),
        ("u8", Inst::new("TypeInt", None, Some(10), vec![Arg::Lit32(8), Arg::Lit32(0)]), 1),
        ("u16", Inst::new("TypeInt", None, Some(10), vec![Arg::Lit32(16), Arg::Lit32(0)]), 1),
        ("u32", Inst::new("TypeInt", None, Some(10), vec![Arg::Lit32(32), Arg::Lit32(0)]), 1),
        ("u64", Inst::new("TypeInt", None, Some(10), vec![Arg::Lit32(64), Arg::Lit32(0)]), 2),
        ("f16", Inst::new("TypeFloat", None, Some(10), vec![Arg::Lit32(16)]), 1),
        ("f32", Inst::new("TypeFloat", None, Some(10), vec![Arg::Lit32(32)]), 1),
        ("f64", Inst::new("TypeFloat", None, Some(10), vec![Arg::Lit32(64)]), 2),
        ("bool", Inst::new("TypeBool", None, Some(10), vec![]), 1),
        // float types that carry the optional FP-encoding operand: still floats of that width
        ("f16enc", Inst::new("TypeFloat", None, Some(10), vec![Arg::Lit32(16), Arg::Enum("FPEncoding", 0x7FFF_FFFF)]), 1),
        ("f32enc", Inst::new("TypeFloat", None, Some(10), vec![Arg::Lit32(32), Arg::Enum("FPEncoding", 0x7FFF_FFFF)]), 1),
        ("f64enc", Inst::new("TypeFloat", None, Some(10), vec![Arg::Lit32(64), Arg::Enum("FPEncoding", 0x7FFF_FFFF)]), 2),
    ];
    let p32: Vec<u32> = vec![
        0, 1, 2, 0x7F, 0x80, 0xFF, 0x7FFF, 0x8000, 0xFFFF, 0x7FFF_FFFF, 0x8000_0000, 0xFFFF_FFFF, 0x3F80_0000, 0xC000_0000, 0x7F80_0000, 0xFF80_0000, 0x7FC0_0000,
        0x0000_0001, 0x8000_0000, 0x3C00, 0x7C00, 0x4049_0FDB, 0x0080_0000, 0x7F7F_FFFF, 0x3DCC_CCCD,
    ];
    let p64: Vec<u64> = vec![
        0, 1, 0x7FFF_FFFF, 0x8000_0000, 0xFFFF_FFFF, 0x1_0000_0000, 0x7FFF_FFFF_FFFF_FFFF, 0x8000_0000_0000_0000, 0xFFFF_FFFF_FFFF_FFFF, 0x3FF0_0000_0000_0000,
        0xC000_0000_0000_0000, 0x7FF0_0000_0000_0000, 0xFFF0_0000_0000_0000, 0x7FF8_0000_0000_0000, 1, 0x4022_851E_B851_EB85, 0x0010_0000_0000_0000, 0x7FEF_FFFF_FFFF_FFFF,
    ];
    for (tn, ty, words) in &types {
        let lits: Vec<Arg> = if *words == 1 { p32.iter().map(|v| Arg::Lit32(*v)).collect() } else { p64.iter().map(|v| Arg::Lit64(*v)).collect() };
        for (k, l) in lits.iter().enumerate() {
            // type declared before the constant, and (out of order) after it
            let c = Inst::new("Constant", Some(10), Some(20), vec![l.clone()]);
            out.push(Case { id: format!("Constant:{}:pattern{}", tn, k), insts: vec![ty.clone(), c.clone()], raw: None, version: 0x0001_0400, bound: 30 });
            if *words == 1 {
                out.push(Case { id: format!("Constant:{}:pattern{}:type-after", tn, k), insts: vec![c.clone(), ty.clone()], raw: None, version: 0x0001_0400, bound: 30 });
            }
            let sc = Inst::new("SpecConstant", Some(10), Some(21), vec![l.clone()]);
            out.push(Case { id: format!("SpecConstant:{}:pattern{}", tn, k), insts: vec![ty.clone(), sc], raw: None, version: 0x0001_0400, bound: 30 });
        }
    }
    // every extension name of the grammar, every capability, imports and memory models in front of one telling constant of
    // each type; and every header version: how a literal is printed depends on its type declaration alone
    {
        let preludes = crate::checks::c10::preludes();
        for (tn, ty, words) in &types {
            let l = if *words == 1 { Arg::Lit32(0xFFFF_FFFB) } else { Arg::Lit64(0xFFFF_FFFF_FFFF_FFFB) };
            let c = Inst::new("Constant", Some(10), Some(20), vec![l]);
            for (k, pre) in preludes.iter().enumerate() {
                if pre.name() == "Capability" && k % 3 != 0 && !matches!(*tn, "i8" | "i64" | "f16" | "f64") {
                    continue;
                }
                out.push(Case { id: format!("Constant:{}:after-{}-{}", tn, pre.name(), k), insts: vec![pre.clone(), ty.clone(), c.clone()], raw: None, version: 0x0001_0400, bound: 5000 });
            }
            for version in [0u32, 0x0001_0000, 0x0001_0100, 0x0001_0200, 0x0001_0300, 0x0001_0500, 0x0001_0600, 0x0001_0700, 0x0002_0000, 0x00FF_FF00] {
                out.push(Case { id: format!("Constant:{}:version-{:#x}", tn, version), insts: vec![ty.clone(), c.clone()], raw: None, version, bound: 30 });
            }
        }
    }
    // a constant typed through a chain of typed values N deep (N = 1..=40), for a signed, an unsigned and a float type
    for (tn, ty) in [("i32", Inst::new("TypeInt", None, Some(300), vec![Arg::Lit32(32), Arg::Lit32(1)])), ("f32", Inst::new("TypeFloat", None, Some(300), vec![Arg::Lit32(32)])), ("i64", Inst::new("TypeInt", None, Some(300), vec![Arg::Lit32(64), Arg::Lit32(1)]))] {
        for n in 1..=40u32 {
            let mut insts = vec![ty.clone()];
            for k in 0..n {
                insts.push(Inst::new("Undef", Some(300 + k), Some(301 + k), vec![]));
            }
            let lit = match tn {
                "i32" => Arg::Lit32(0xFFFF_FFFF),
                "f32" => Arg::Lit32(0x3FC0_0000),
                _ => Arg::Lit64(0xFFFF_FFFF_FFFF_FFFB),
            };
            insts.push(Inst::new("Constant", Some(300 + n), Some(399), vec![lit]));
            out.push(Case { id: format!("Constant:{}:typed-through-a-chain-of-{}", tn, n), insts, raw: None, version: 0x0001_0400, bound: 500 });
        }
    }
    // long strings in which a multi-byte character straddles every multiple of 1 KiB up to 64 KiB (two-, three- and
    // four-byte characters, at each phase), so that a rendering that works through the text in chunks of any such size splits one
    for (cn, ch) in [("2byte", "\u{e9}"), ("2byte-other", "\u{fc}"), ("3byte", "\u{20ac}"), ("4byte", "\u{1f600}")] {
        for phase in 1..ch.len() {
            let mut t = String::new();
            for j in 1..=64usize {
                let target = j * 1024 - phase;
                while t.len() < target {
                    t.push((b'a' + (t.len() % 26) as u8) as char);
                }
                t.push_str(ch);
            }
            out.push(Case { id: format!("String:{}-straddling-every-KiB:phase{}", cn, phase), insts: vec![Inst::new("String", None, Some(5), vec![Arg::Str(t.clone())]), Inst::new("Name", None, None, vec![Arg::IdRef(5), Arg::Str(t)])], raw: None, version: 0x0001_0400, bound: 30 });
        }
    }
    // two constants that carry the SAME result id but have types of different classes (ids defined twice: the loader
    // accepts it): how a literal is printed follows the constant's own result TYPE, nothing else
    {
        let pairs: Vec<(usize, usize)> = (0..types.len()).flat_map(|a| (0..types.len()).map(move |b| (a, b))).filter(|(a, b)| a != b && types[*a].2 == 1 && types[*b].2 == 1).collect();
        for (a, b) in pairs {
            let mut ta = types[a].1.clone();
            ta.rid = Some(10);
            let mut tb = types[b].1.clone();
            tb.rid = Some(11);
            for v in [0xFFFF_FFFBu32, 0x4040_0000] {
                let c1 = Inst::new("Constant", Some(10), Some(20), vec![Arg::Lit32(v)]);
                let c2 = Inst::new("Constant", Some(11), Some(20), vec![Arg::Lit32(v ^ 1)]);
                out.push(Case { id: format!("Constant:same-id:{}:{}:{:#x}", types[a].0, types[b].0, v), insts: vec![ta.clone(), tb.clone(), c1, c2], raw: None, version: 0x0001_0400, bound: 30 });
            }
        }
    }
    // every id renamed (descending, scattered, across 2^16 / 2^22, just below 2^32), with a second type and constant in
    // front so that ids are first seen out of order: how a literal is printed must not depend on the magnitude of the
    // type's id or on the order of declaration
    let base: Vec<Case> = out.iter().filter(|c| c.id.contains(":pattern1") || c.id.contains(":pattern9") || c.id.contains(":pattern12")).map(|c| Case { id: c.id.clone(), insts: c.insts.clone(), raw: None, version: c.version, bound: c.bound }).collect();
    for c in base {
        for scheme in 0..model::RELABELLINGS {
            let f = |x: u32| model::relabel(scheme, x);
            let mut insts = vec![
                model::remap_ids(&Inst::new("TypeInt", None, Some(40), vec![Arg::Lit32(32), Arg::Lit32(0)]), &f),
                model::remap_ids(&Inst::new("Constant", Some(40), Some(41), vec![Arg::Lit32(77)]), &f),
            ];
            insts.extend(c.insts.iter().map(|i| model::remap_ids(i, &f)));
            out.push(Case { id: format!("{}:ids{}", c.id, scheme), insts, raw: None, version: c.version, bound: c.bound });
        }
    }
    out
}

/// OpExtInst: set imported as GLSL.std.450 / OpenCL.std / unknown x every table number, one past the end, u32::MAX
fn ext_inst_cases() -> Vec<Case> {
    let g = golden();
    let mut out = vec![];
    for (setname, table) in [("GLSL.std.450", Some(&g.glsl)), ("OpenCL.std", Some(&g.opencl)), ("NonSemantic.Whatever", None), ("GLSL.std.450 ", None)] {
        let mut nums: Vec<u32> = table.map(|t| t.iter().map(|e| e.opcode).collect()).unwrap_or_else(|| vec![1, 2]);
        let max = nums.iter().copied().max().unwrap_or(0);
        nums.extend([0, max + 1, 0xFFFF_FFFF, 300]);
        for n in nums {
            let imp = Inst::new("ExtInstImport", None, Some(5), vec![Arg::Str(setname.to_string())]);
            let ext = Inst::new("ExtInst", Some(50), Some(60), vec![Arg::IdRef(5), Arg::ExtInstNo(n), Arg::IdRef(61), Arg::IdRef(62)]);
            let insts = vec![imp, rep_inst("Function", 1), rep_inst("Label", 2), ext, rep_inst("Return", 3), rep_inst("FunctionEnd", 4)];
            out.push(Case { id: format!("ExtInst:{}:{}", setname, n), insts, raw: None, version: 0x0001_0000, bound: 100 });
        }
    }
    // import histories: every sequence of 1..=3 imports over {GLSL, OpenCL, unknown} (the same set may be imported more
    // than once), then OpExtInst through every import id and through an id that is no import, with numbers both tables
    // declare, only one declares, and neither declares
    let names = ["GLSL.std.450", "OpenCL.std", "NonSemantic.Other"];
    let mut seqs: Vec<Vec<usize>> = vec![];
    for a in 0..3 {
        seqs.push(vec![a]);
        for b in 0..3 {
            seqs.push(vec![a, b]);
            for c in 0..3 {
                seqs.push(vec![a, b, c]);
            }
        }
    }
    for sq in seqs {
        let mut insts: Vec<Inst> = sq.iter().enumerate().map(|(k, &n)| Inst::new("ExtInstImport", None, Some(5 + k as u32), vec![Arg::Str(names[n].to_string())])).collect();
        insts.push(rep_inst("Function", 1));
        insts.push(rep_inst("Label", 2));
        let mut rid = 60;
        for set in 5..=(5 + sq.len() as u32) {
            for n in [1u32, 4, 81, 160, 500] {
                insts.push(Inst::new("ExtInst", Some(50), Some(rid), vec![Arg::IdRef(set), Arg::ExtInstNo(n), Arg::IdRef(61)]));
                rid += 1;
            }
        }
        // the same again number-major: the same number through one set and then directly through the next
        for n in [1u32, 4, 81, 160, 500] {
            for set in 5..=(5 + sq.len() as u32) {
                insts.push(Inst::new("ExtInst", Some(50), Some(rid), vec![Arg::IdRef(set), Arg::ExtInstNo(n), Arg::IdRef(61)]));
                rid += 1;
            }
        }
        insts.push(rep_inst("Return", 3));
        insts.push(rep_inst("FunctionEnd", 4));
        out.push(Case { id: format!("ExtInst:imports{:?}", sq), insts, raw: None, version: 0x0001_0000, bound: 100 });
    }
    out
}

/// header variations through directly built modules (the loader always stamps rspirv's generator)
fn header_checks(run: &mut Run) -> u64 {
    let mut n = 0;
    for version in [0u32, 0x0001_0000, 0x0001_0600, 0x00FF_FF00] {
        for tool in (0u32..=17).chain([0xFFFF]) {
            for bound in [0u32, 1, u32::MAX] {
                n += 1;
                let mut h = dr::ModuleHeader::new(bound);
                h.version = version;
                h.generator = (tool << 16) | 0x1234;
                let mut m = dr::Module::new();
                m.header = Some(h);
                m.capabilities.push(dr::Instruction::new(rspirv::spirv::Op::Capability, None, None, vec![dr::Operand::Capability(rspirv::spirv::Capability::Shader)]));
                match guarded(|| m.disassemble()) {
                    Err(p) => run.add(viol("C07:panic:header", format!("header disassembly panics: {}", p), json!({"kind": "c07-header", "version": version, "tool": tool, "bound": bound}))),
                    Ok(t) => {
                        let mut want = header_lines(version, tool << 16, bound);
                        want.push("OpCapability Shader".into());
                        let got: Vec<&str> = t.split('\n').collect();
                        if got.len() != want.len() || got.iter().zip(want.iter()).any(|(a, b)| tokenize(a) != tokenize(b)) {
                            run.add(viol("C07:render:header", format!("version {:#x} tool {} bound {}: header is {:?}, expected {:?}", version, tool, bound, got, want), json!({"kind": "c07-header", "version": version, "tool": tool, "bound": bound})));
                        }
                    }
                }
            }
        }
    }
    n
}

/// injectivity of the f32 rendering over a range of bit patterns, through the real Module::disassemble
/// 64-bit float constants: doubles that are exactly widened 32-bit floats (low 29 mantissa bits zero), their two
/// neighbours, and the double nearest to the float's shortest decimal spelling; each must read back to its own bits
fn f64_sweep(f32_lo: u64, f32_hi: u64) -> (u64, Option<Viol>) {
    let ty = dr::Instruction::new(rspirv::spirv::Op::TypeFloat, None, Some(1), vec![dr::Operand::LiteralBit32(64)]);
    let mut pats: Vec<u64> = vec![];
    for b in f32_lo..=f32_hi {
        let x = f32::from_bits(b as u32);
        if x.is_nan() {
            continue;
        }
        let d = (x as f64).to_bits();
        pats.extend([d, d.wrapping_add(1), d.wrapping_sub(1)]);
        if let Ok(dec) = format!("{}", x).parse::<f64>() {
            pats.push(dec.to_bits());
        }
    }
    let mut n = 0;
    for chunk in pats.chunks(256) {
        let mut m = dr::Module::new();
        m.types_global_values.push(ty.clone());
        for b in chunk {
            m.types_global_values.push(dr::Instruction::new(rspirv::spirv::Op::Constant, Some(1), Some(2), vec![dr::Operand::LiteralBit64(*b)]));
        }
        let text = m.disassemble();
        for (k, line) in text.split('\n').filter(|l| l.contains("OpConstant")).enumerate() {
            let bits = chunk[k];
            let tok = line.rsplit(' ').next().unwrap_or("");
            let ok = match tok.parse::<f64>() {
                Ok(v) => v.to_bits() == bits || (v.is_nan() && f64::from_bits(bits).is_nan()),
                Err(_) => false,
            };
            if !ok {
                return (n, Some(viol("C07:render:Constant:LiteralBit64:f64", format!("f64 bit pattern {:#018x} is rendered as {:?}, which does not read back to it", bits, line), json!({"kind": "c07-f64", "bits": format!("{:#018x}", bits)}))));
            }
            n += 1;
        }
    }
    (n, None)
}

fn f32_sweep(lo: u64, hi: u64) -> (u64, Option<Viol>) {
    let g = golden();
    let ty = dr::Instruction::new(rspirv::spirv::Op::TypeFloat, None, Some(1), vec![dr::Operand::LiteralBit32(32)]);
    let _ = g;
    const BATCH: u64 = 256;
    let mut n = 0;
    let mut x = lo;
    while x <= hi {
        let end = (x + BATCH - 1).min(hi);
        let mut m = dr::Module::new();
        m.types_global_values.push(ty.clone());
        for b in x..=end {
            m.types_global_values.push(dr::Instruction::new(rspirv::spirv::Op::Constant, Some(1), Some(2), vec![dr::Operand::LiteralBit32(b as u32)]));
        }
        let text = m.disassemble();
        for (k, line) in text.split('\n').skip(1).enumerate() {
            let bits = (x + k as u64) as u32;
            let tok = line.rsplit(' ').next().unwrap_or("");
            let ok = match tok.parse::<f32>() {
                Ok(v) => v.to_bits() == bits || (v.is_nan() && f32::from_bits(bits).is_nan()),
                Err(_) => false,
            };
            if !ok {
                return (n, Some(viol("C07:render:Constant:LiteralBit32:f32", format!("f32 bit pattern {:#010x} is rendered as {:?}, which does not read back to it", bits, line), json!({"kind": "c07-f32", "bits": bits}))));
            }
            n += 1;
        }
        x = end + 1;
    }
    (n, None)
}

/// Narrow typed constants, exhaustively: every 16-bit pattern (x four high halves) behind an 8-/16-bit integer or
/// 16-bit float type, and strided 32-bit patterns behind 32-bit types. How they are spelled is free; the rendering must
/// not panic and two different literal words must never be spelled alike (injectivity).
pub fn narrow_sweep(tier: Tier) -> (u64, Vec<Viol>) {
    let types: Vec<(&str, dr::Instruction)> = vec![
        ("i8", dr::Instruction::new(rspirv::spirv::Op::TypeInt, None, Some(1), vec![dr::Operand::LiteralBit32(8), dr::Operand::LiteralBit32(1)])),
        ("u8", dr::Instruction::new(rspirv::spirv::Op::TypeInt, None, Some(1), vec![dr::Operand::LiteralBit32(8), dr::Operand::LiteralBit32(0)])),
        ("i16", dr::Instruction::new(rspirv::spirv::Op::TypeInt, None, Some(1), vec![dr::Operand::LiteralBit32(16), dr::Operand::LiteralBit32(1)])),
        ("u16", dr::Instruction::new(rspirv::spirv::Op::TypeInt, None, Some(1), vec![dr::Operand::LiteralBit32(16), dr::Operand::LiteralBit32(0)])),
        ("f16", dr::Instruction::new(rspirv::spirv::Op::TypeFloat, None, Some(1), vec![dr::Operand::LiteralBit32(16)])),
        ("i32", dr::Instruction::new(rspirv::spirv::Op::TypeInt, None, Some(1), vec![dr::Operand::LiteralBit32(32), dr::Operand::LiteralBit32(1)])),
    ];
    let highs: Vec<u32> = match tier {
        Tier::Quick => vec![0x0000, 0xFFFF, 0x0001],
        Tier::Thorough => vec![0x0000, 0xFFFF, 0x0001, 0x8000, 0x7FFF, 0x00FF],
    };
    let res: Vec<(u64, Vec<Viol>)> = types
        .par_iter()
        .map(|(tn, ty)| {
            let mut seen: HashMap<String, u32> = HashMap::new();
            let mut viols = vec![];
            let mut n = 0u64;
            for hi in &highs {
                let mut m = dr::Module::new();
                m.types_global_values.push(ty.clone());
                for lo in 0..=0xFFFFu32 {
                    m.types_global_values.push(dr::Instruction::new(rspirv::spirv::Op::Constant, Some(1), Some(2), vec![dr::Operand::LiteralBit32((hi << 16) | lo)]));
                }
                let text = match guarded(|| m.disassemble()) {
                    Ok(t) => t,
                    Err(p) => {
                        // find one pattern that panics on its own (for the replay)
                        let mut culprit = None;
                        for lo in 0..=0xFFFFu32 {
                            let mut m1 = dr::Module::new();
                            m1.types_global_values.push(ty.clone());
                            m1.types_global_values.push(dr::Instruction::new(rspirv::spirv::Op::Constant, Some(1), Some(2), vec![dr::Operand::LiteralBit32((hi << 16) | lo)]));
                            if guarded(|| m1.disassemble()).is_err() {
                                culprit = Some((hi << 16) | lo);
                                break;
                            }
                        }
                        viols.push(viol(format!("C07:panic@{}", crate::report::panic_class(&p)), format!("disassembling an OpConstant of type {} with literal word {:#010x?} panics: {}", tn, culprit, p), json!({"kind": "c07-narrow", "type": tn, "word": culprit})));
                        continue;
                    }
                };
                for (k, line) in text.split('\n').skip(2).enumerate() {
                    if !line.contains("OpConstant") {
                        continue;
                    }
                    let word = (hi << 16) | (k as u32 & 0xFFFF);
                    let tok = line.rsplit(' ').next().unwrap_or("").to_string();
                    n += 1;
                    // NaN payloads are excepted by the statement
                    if tok.to_ascii_lowercase().contains("nan") {
                        continue;
                    }
                    if let Some(prev) = seen.insert(tok.clone(), word) {
                        if prev != word && viols.len() < 3 {
                            viols.push(viol(format!("C07:collision:Constant:{}", tn), format!("OpConstant of type {}: literal words {:#010x} and {:#010x} are both spelled {:?}", tn, prev, word, tok), json!({"kind": "c07-narrow", "type": tn, "words": [prev, word]})));
                        }
                    }
                }
            }
            (n, viols)
        })
        .collect();
    let mut n = 0;
    let mut all = vec![];
    for (k, v) in res {
        n += k;
        all.extend(v);
    }
    (n, all)
}

pub fn run(tier: Tier) -> Run {
    let mut run = Run::new("C07", tier, "exploration");
    let mut cs = c01::cases(tier);
    cs.extend(typed_constant_cases());
    cs.extend(ext_inst_cases());
    // every word over the 21 instruction classes up to length 3, in any order (what a line looks like must not depend
    // on its neighbours); the loader decides which of them are modules at all
    {
        use crate::checks::c05::SYMBOLS;
        let mut layer: Vec<Vec<usize>> = vec![vec![]];
        for _ in 0..3 {
            let mut next = vec![];
            for s in &layer {
                for k in 0..SYMBOLS.len() {
                    let mut t = s.clone();
                    t.push(k);
                    next.push(t);
                }
            }
            for s in &next {
                let insts: Vec<Inst> = s.iter().enumerate().map(|(i, &k)| rep_inst(SYMBOLS[k], i)).collect();
                cs.push(Case { id: format!("{}:seq", insts.iter().map(|i| i.name()).collect::<Vec<_>>().join(",")), insts, raw: None, version: 0x0001_0000, bound: 1000 });
            }
            layer = next;
        }
    }
    let timed: Vec<(CaseOut, f64)> = cs
        .par_iter()
        .map(|c| {
            let t = std::time::Instant::now();
            let o = check_case(c);
            (o, t.elapsed().as_secs_f64())
        })
        .collect();
    let mut slow: Vec<(f64, &str)> = timed.iter().zip(cs.iter()).map(|((_, t), c)| (*t, c.id.as_str())).collect();
    slow.sort_by(|a, b| b.0.partial_cmp(&a.0).unwrap());
    run.set("slowest_cases", json!(slow.iter().take(5).map(|(t, id)| json!({"case": id, "seconds": t})).collect::<Vec<_>>()));
    let res: Vec<CaseOut> = timed.into_iter().map(|x| x.0).collect();
    let mut collisions: HashMap<String, (Vec<u32>, String)> = HashMap::new();
    let mut n = 0u64;
    let mut rendered = 0u64;
    for (c, o) in cs.iter().zip(res) {
        n += 1;
        run.add_all(o.viols);
        run.outcome(o.outcome, 1);
        if let Some((text, words)) = o.text_words {
            rendered += 1;
            match collisions.get(&text) {
                Some((w, other)) if *w != words => {
                    run.add(viol(
                        format!("C07:collision:{}", c.id.split(':').next().unwrap_or("")),
                        format!("cases {} and {} have different instruction streams {:x?} / {:x?} but the same disassembly:\n{}", other, c.id, w, words, text),
                        json!({"kind": "c07-collision", "a": other, "b": c.id}),
                    ));
                }
                Some(_) => {}
                None => {
                    collisions.insert(text, (words, c.id.clone()));
                }
            }
        }
    }
    n += header_checks(&mut run);
    let (nn, nv) = narrow_sweep(tier);
    n += nn;
    run.add_all(nv);
    run.outcome("narrow_typed_constants", nn);
    // f32 rendering injectivity: quick = 2^22 strided patterns + boundaries; thorough = all 2^32
    let chunks: Vec<(u64, u64)> = match tier {
        Tier::Thorough => (0..4096u64).map(|c| (c << 20, ((c + 1) << 20) - 1)).collect(),
        Tier::Quick => (0..4096u64).map(|c| (c << 20, (c << 20) + 1023)).chain((0..256u64).map(|e| ((e << 23).saturating_sub(512), (e << 23) + 511))).collect(),
    };
    let fres: Vec<(u64, Option<Viol>)> = chunks.par_iter().map(|(a, b)| f32_sweep(*a, (*b).min(u32::MAX as u64))).collect();
    let mut fsum = 0u64;
    for (k, v) in fres {
        fsum += k;
        if let Some(v) = v {
            run.add(v);
        }
    }
    run.outcome("f32_patterns", fsum);
    // f64: the same strided float patterns, widened (quick: every 16th chunk)
    let dres: Vec<(u64, Option<Viol>)> = chunks.par_iter().step_by(tier.pick(16, 4)).map(|(a, b)| f64_sweep(*a, (*a + 255).min(*b).min(u32::MAX as u64))).collect();
    let mut dsum = 0u64;
    for (k, v) in dres {
        dsum += k;
        if let Some(v) = v {
            run.add(v);
        }
    }
    run.outcome("f64_patterns", dsum);
    let fsum = fsum + dsum;
    run.set("evaluations", json!(n + fsum));
    run.set("distinct_nontrivial", json!(collisions.len()));
    run.set("rule", json!("every U-inst shape of every opcode embedded in a loadable module (as in C01), typed constants of 12 types x boundary bit patterns (type before and after the constant), OpExtInst with GLSL / OpenCL / unknown sets x every table number and out-of-table numbers, 228 header variations, and f32 bit patterns (thorough: all 2^32) through the real Module::disassemble. Oracle 1: one line per instruction in assembly order, token-exact against the reference renderer; oracle 2: the reference reader reconstructs assemble()[5..] from the text; a global map text -> words asserts no collision. distinct_nontrivial = distinct disassembly texts entered in the collision map"));
    run.set("exhaustive", json!(true));
    run.set("bounds", json!({"module_cases": cs.len(), "f32_patterns": fsum, "f32_complete": tier == Tier::Thorough}));
    run.set("samples", json!(cs.iter().step_by(cs.len() / 5 + 1).map(|c| json!({"case": c.id, "instructions": c.insts.iter().map(|i| i.short()).collect::<Vec<_>>()})).collect::<Vec<_>>()));
    run.assume("spacing is not significant (lines are compared as token sequences); how 8/16-bit constants are spelled is not fixed, only that they read back; NaN payloads excepted; unambiguity is claimed for loader-produced and grammar-conforming Builder modules");
    run.require_outcome("rendered");
    run.require_outcome("f32_patterns");
    run
}
