//! C11, U-scale: the same lock-step decoder model on LARGE buffers — strings and word runs on both sides of
//! 2^16 words / 2^16 bytes / 2^24 bytes (where a u16 counter, a byte/word mix-up or an f32 round trip would give way).
use crate::checks::c11::{self, Req};
use crate::report::{Tier, Viol};
use crate::xs;
use rayon::prelude::*;

fn text(n: usize) -> Vec<u8> {
    (0..n).map(|i| b'a' + (i % 26) as u8).collect()
}

/// (label, buffer, depth)
fn buffers(tier: Tier) -> Vec<(String, Vec<u8>, usize)> {
    let mut out = vec![];
    // no NUL anywhere: 70 000 words of text
    out.push(("70000 words, no NUL".to_string(), text(70_000 * 4), 3));
    // a string of exactly n bytes, its terminator, then 8 more words
    let mut lens: Vec<(usize, usize)> = vec![(65_531, 3), (65_532, 3), (65_535, 3), (65_536, 3), (262_139, 3), (262_140, 3), (262_143, 3), (262_144, 3)];
    lens.extend([((1 << 24) - 4, 2), ((1 << 24) - 1, 2), (1 << 24, 2), ((1 << 24) + 3, 2), ((1 << 24) + 8, 2)]);
    if tier == Tier::Thorough {
        lens.extend([((1 << 25) + 4, 2), ((1 << 26), 1)]);
    }
    // long ASCII strings whose LAST few bytes are a multi-byte character, an incomplete one or an invalid byte
    // (lengths around 2^7, 2^8, 2^10: a fast path for long ASCII text that looks at whole groups only)
    for base in [118usize, 120, 121, 124, 127, 128, 129, 135, 136, 250, 255, 256, 1020, 1024] {
        for (tn, tail) in [("e-acute", &[0xC3u8, 0xA9][..]), ("euro", &[0xE2, 0x82, 0xAC][..]), ("invalid", &[0xFF][..]), ("incomplete", &[0xC3][..]), ("e-acute+a", &[0xC3, 0xA9, 0x61][..])] {
            let mut b = text(base);
            b.extend(tail);
            b.push(0);
            while b.len() % 4 != 0 {
                b.push(0);
            }
            b.extend([1u8, 0, 0, 0]);
            out.push((format!("ASCII x{} + {} tail", base, tn), b, 2));
        }
    }
    for (n, d) in lens {
        let mut b = text(n);
        b.push(0);
        while b.len() % 4 != 0 {
            b.push(0);
        }
        for k in 0..8u32 {
            b.extend((0x0101_0101u32 * (k + 1)).to_le_bytes());
        }
        out.push((format!("string of {} bytes + 8 words", n), b, d));
    }
    out
}

fn requests(buf_words: usize, str_words: usize) -> Vec<Req> {
    let mut v = vec![Req::Word, Req::Str, Req::ClearLimit, Req::Words(65_535), Req::Words(65_536), Req::Words(65_537), Req::SetLimit(65_535), Req::SetLimit(65_536), Req::SetLimit(65_537)];
    if str_words > 0 {
        v.extend([Req::SetLimit(str_words - 1), Req::SetLimit(str_words), Req::SetLimit(str_words + 1), Req::Words(str_words), Req::Words(str_words - 1)]);
    }
    v.extend([Req::Words(buf_words), Req::Words(buf_words + 1)]);
    v
}

pub fn run(tier: Tier) -> (u64, Vec<Viol>) {
    let bufs = buffers(tier);
    let res: Vec<(u64, Vec<Viol>)> = bufs
        .par_iter()
        .map(|(label, b, depth)| {
            let str_words = match b.iter().position(|&x| x == 0) {
                Some(p) => p / 4 + 1,
                None => 0,
            };
            let reqs = requests(b.len() / 4, str_words);
            let f = |h: &[Req]| c11::run_hist(b, h);
            let st = xs::enumerate(&reqs, *depth, &f);
            let v: Vec<Viol> = st
                .viols
                .into_iter()
                .take(3)
                .map(|mut v| {
                    // the buffer is named, not embedded (it can be 64 MiB)
                    v.what = format!("[buffer: {}] {}", label, v.what.chars().take(600).collect::<String>());
                    v.replay = serde_json::json!({"kind": "c11-scale", "buffer": label, "requests": v.replay["requests"]});
                    v.key = format!("{}:scale", v.key);
                    v
                })
                .collect();
            (st.histories_replayed, v)
        })
        .collect();
    let mut n = 0;
    let mut all = vec![];
    for (k, v) in res {
        n += k;
        all.extend(v);
    }
    (n, all)
}
