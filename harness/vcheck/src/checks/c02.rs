//! C02 — assemble and parse are exact inverses on grammar-conforming instructions (shape B).
use crate::checks::c03::{context_shapes, type_context};
use crate::golden::golden;
use crate::model::{self, enc, Arg, Inst};
use crate::report::{guarded, hex, viol, Run, Tier, Viol};
use crate::universe::{self, Shape};
use crate::util::{parse_collect, state_name, subsets};
use rayon::prelude::*;
use rspirv::binary::Assemble;
use serde_json::json;
use std::collections::BTreeMap;

fn first_diff_kind(m: &Inst, got: &[rspirv::dr::Operand]) -> String {
    for (i, a) in m.args.iter().enumerate() {
        match (model::to_operand(a), got.get(i)) {
            (Some(e), Some(g)) if &e == g => continue,
            _ => return a.kind_name().to_string(),
        }
    }
    "length".to_string()
}

/// checks one grammar-conforming instruction behind `prefix`
pub fn check_shape(prefix: &[Inst], s: &Shape) -> (Vec<Viol>, &'static str) {
    check_shape_hdr(prefix, s, 0x0001_0600, 0)
}

/// the same under a given header version word and generator word
pub fn check_shape_hdr(prefix: &[Inst], s: &Shape, version: u32, generator: u32) -> (Vec<Viol>, &'static str) {
    let mut out = vec![];
    let m = &s.inst;
    let name = m.name();
    let rep = json!({"kind": "c02", "shape": s.id, "instruction": m.short(), "reference_words": enc(m)});
    let Some(dri) = model::to_dr(m) else {
        out.push(viol(format!("C02:construct:{}", name), format!("shape {}: a declared enumerant / bit / opcode is not constructible through the public constructors", s.id), rep));
        return (out, "unconstructible");
    };
    let want = enc(m);
    // assemble: exact words
    match guarded(|| dri.assemble()) {
        Err(p) => out.push(viol(format!("C02:asm:{}:panic", name), format!("shape {}: assemble panics: {}", s.id, p), rep.clone())),
        Ok(asm) => {
            if asm != want {
                let idx = (0..asm.len().max(want.len())).find(|&i| asm.get(i) != want.get(i)).unwrap_or(0);
                // which operand does word idx belong to
                let mut pos = 1 + m.rtype.is_some() as usize + m.rid.is_some() as usize;
                let mut kind = if idx == 0 { "first-word".to_string() } else { "result".to_string() };
                for a in &m.args {
                    let mut w = vec![];
                    model::enc_arg(a, &mut w);
                    if idx >= pos && idx < pos + w.len() {
                        kind = a.kind_name().to_string();
                    }
                    pos += w.len();
                }
                if idx >= pos {
                    kind = "length".into();
                }
                out.push(viol(format!("C02:asm:{}:{}", name, kind), format!("shape {}: assembled {:x?}, the specification's encoding is {:x?} (first difference at word {})", s.id, asm, want, idx), rep.clone()));
            }
        }
    }
    // parse: header ++ context ++ words delivers an equal instruction
    let mut words = model::header(version, generator, 4096);
    for p in prefix {
        words.extend(enc(p));
    }
    words.extend(&want);
    let bytes = model::words_to_bytes(&words);
    match guarded(|| parse_collect(&bytes)) {
        Err(p) => out.push(viol(format!("C02:parse:{}:panic", name), format!("shape {}: parser panics: {}", s.id, p), json!({"kind": "bytes", "bytes": hex(&bytes), "shape": s.id}))),
        Ok((res, col)) => match res {
            Err(e) => out.push(viol(format!("C02:parse:{}:rejected:{}", name, state_name(&e)), format!("shape {}: parser rejects the reference encoding with {:?}", s.id, e), json!({"kind": "bytes", "bytes": hex(&bytes), "shape": s.id}))),
            Ok(()) => {
                if col.insts.len() != prefix.len() + 1 {
                    out.push(viol(format!("C02:parse:{}:count", name), format!("shape {}: {} instructions delivered for {}", s.id, col.insts.len(), prefix.len() + 1), json!({"kind": "bytes", "bytes": hex(&bytes), "shape": s.id})));
                } else {
                    let got = col.insts.last().unwrap();
                    // compared field by field through the model (not through the subject's own PartialEq)
                    if model::from_dr(got) != *m || got.class.opname != dri.class.opname {
                        let k = if got.class.opcode != dri.class.opcode {
                            "opcode".to_string()
                        } else if got.result_type != dri.result_type || got.result_id != dri.result_id {
                            "result".to_string()
                        } else {
                            first_diff_kind(m, &got.operands)
                        };
                        out.push(viol(format!("C02:parse:{}:{}", name, k), format!("shape {}: parser delivered {:?} {:?} {:?}; the original is {}", s.id, got.result_type, got.result_id, got.operands, m.short()), json!({"kind": "bytes", "bytes": hex(&bytes), "shape": s.id})));
                    }
                }
            }
        },
    }
    (out, "checked")
}

pub fn run(tier: Tier) -> Run {
    let g = golden();
    let mut run = Run::new("C02", tier, "exploration");
    let mut work: Vec<(Vec<Inst>, Shape)> = universe::all_shapes(tier).into_iter().map(|s| (vec![], s)).collect();
    work.extend(universe::scale_shapes(tier).into_iter().map(|s| (vec![], s)));
    work.extend(universe::pattern_shapes(tier).into_iter().map(|s| (vec![], s)));
    // long-range: every capability declaration in front of the minimal shape of every opcode (what an instruction parses
    // to must not depend on the capabilities the module declares)
    {
        let caps: Vec<u32> = g.enums["Capability"].declared().into_iter().collect();
        for c in caps {
            let pre = vec![Inst::new("Capability", None, None, vec![Arg::Enum("Capability", c)])];
            for gi in &g.insts {
                work.push((pre.clone(), Shape { id: format!("{}:min:after-capability-{}", gi.name, c), inst: universe::minimal(gi) }));
            }
        }
        // and every addressing / memory model
        for (_, a) in g.enums["AddressingModel"].variants.iter() {
            for (_, m) in g.enums["MemoryModel"].variants.iter() {
                let pre = vec![Inst::new("MemoryModel", None, None, vec![Arg::Enum("AddressingModel", *a), Arg::Enum("MemoryModel", *m)])];
                for gi in &g.insts {
                    work.push((pre.clone(), Shape { id: format!("{}:min:after-memory-model-{}-{}", gi.name, a, m), inst: universe::minimal(gi) }));
                }
            }
        }
    }
    // typed literals under id relabellings and behind function boundaries (conforming ones only)
    work.extend(crate::checks::c03::context_variants().into_iter().filter(|(_, s)| !s.id.contains(":type14:")));
    // every OpExtension name the grammar mentions in front of each width-sensitive context (one value per type)
    {
        let names: Vec<Inst> = crate::checks::c10::preludes().into_iter().filter(|i| i.name() == "Extension").collect();
        let ctx = type_context();
        for (pre, s) in context_shapes() {
            if s.id.contains(":type14:") || !(s.id.contains(":val1") || s.id.contains(":cases1")) {
                continue;
            }
            for e in &names {
                let mut p = vec![e.clone()];
                p.extend(ctx.iter().cloned());
                p.extend(pre.iter().cloned());
                work.push((p, Shape { id: format!("{}:after-extension", s.id), inst: s.inst.clone() }));
            }
        }
    }
    // every ordered pair of ids (a, b) below 200 as the ids of a 32-bit and a 64-bit type declared one after the other, then
    // a constant of the second: which declaration an id resolves to must not depend on the numbers chosen as ids
    for a in 1..=200u32 {
        for b in 1..=200u32 {
            if a == b {
                continue;
            }
            let p = vec![Inst::new("TypeInt", None, Some(a), vec![Arg::Lit32(32), Arg::Lit32(0)]), Inst::new("TypeInt", None, Some(b), vec![Arg::Lit32(64), Arg::Lit32(0)])];
            work.push((p, Shape { id: format!("Constant:u64:type-ids-{}-{}", a, b), inst: Inst::new("Constant", Some(b), Some(201), vec![Arg::Lit64(0x8000_0000_0000_0001)]) }));
        }
    }
    // OpExtInst behind imports of named sets: its trailing operands are ids whatever the set
    work.extend(crate::checks::c03::ext_inst_variants());
    let ctx = type_context();
    for (pre, s) in context_shapes() {
        // only conforming ones: the literal width the type demands (type 14 = 128 bit is not expressible)
        if s.id.contains(":type14:") {
            continue;
        }
        let mut p = ctx.clone();
        p.extend(pre);
        work.push((p, s));
    }
    // every subset of the four parameterised masks on one carrier instruction each (thorough: all; quick: <= 2^12 by stride)
    for (kind, carrier, fixed) in [
        ("ImageOperands", "ImageSampleImplicitLod", vec![Arg::IdRef(11), Arg::IdRef(12)]),
        ("LoopControl", "LoopMerge", vec![Arg::IdRef(11), Arg::IdRef(12)]),
        ("MemoryAccess", "Load", vec![Arg::IdRef(11)]),
    ] {
        let all = g.masks[kind].all();
        let n = all.count_ones();
        let stride = if tier == Tier::Thorough || n <= 12 { 1 } else { 1usize << (n - 12) };
        for (i, sub) in subsets(all).enumerate() {
            if i % stride != 0 && sub != all {
                continue;
            }
            let gi = g.inst(carrier);
            let mut args = fixed.clone();
            args.extend(universe::mask_with_params(kind, sub, 500));
            work.push((vec![], Shape { id: format!("{}:{}={:#x}", carrier, kind, sub), inst: Inst { opcode: gi.opcode, rtype: gi.has_rtype().then_some(1000), rid: gi.has_rid().then_some(1001), args } }));
        }
    }
    // full enumerant products where the product is small (thorough)
    if tier == Tier::Thorough {
        for gi in &g.insts {
            let vo = gi.value_operands();
            let enum_pos: Vec<usize> = vo.iter().enumerate().filter(|(_, (k, q))| g.is_enum_kind(k) && *q == crate::golden::Quant::One && !g.params.contains_key(k.as_str())).map(|(i, _)| i).collect();
            if enum_pos.len() < 2 {
                continue;
            }
            let sizes: Vec<usize> = enum_pos.iter().map(|&p| g.enums[&vo[p].0].variants.len()).collect();
            let prod: usize = sizes.iter().product();
            if prod > 4096 {
                continue;
            }
            for combo in 0..prod {
                let mut inst = universe::minimal(gi);
                // positions in args: minimal() has one arg per required operand of non-parameterised kinds before... recompute by walking
                let mut c = combo;
                let mut argi = 0;
                for (pi, (k, q)) in vo.iter().enumerate() {
                    if *q != crate::golden::Quant::One {
                        break;
                    }
                    let width = universe::default_args(k, pi, 0).len();
                    if let Some(j) = enum_pos.iter().position(|&p| p == pi) {
                        let e = &g.enums[k];
                        let v = e.variants[c % sizes[j]].1;
                        c /= sizes[j];
                        inst.args[argi] = Arg::Enum(model::kind_static(k), v);
                    }
                    argi += width;
                }
                work.push((vec![], Shape { id: format!("{}:product{}", gi.name, combo), inst }));
            }
        }
    }
    let mut res: Vec<(Vec<Viol>, &'static str)> = work.par_iter().map(|(p, s)| check_shape(p, s)).collect();
    // every header version 0.0 .. 2.0 / 255.255 and every generator tool id x the minimal shape of every opcode (what
    // an instruction parses to must not depend on the header)
    {
        let versions: Vec<u32> = vec![0, 0x0001_0000, 0x0001_0100, 0x0001_0200, 0x0001_0300, 0x0001_0400, 0x0001_0500, 0x0001_0600, 0x0001_0700, 0x0002_0000, 0x00FF_FF00, 0xFFFF_FFFF];
        let gens: Vec<u32> = (0u32..=45).map(|t| (t << 16) | 7).chain([0xFFFF_FFFF, 1]).collect();
        let hw: Vec<(u32, u32)> = versions.iter().map(|v| (*v, 0u32)).chain(gens.iter().map(|gw| (0x0001_0300u32, *gw))).collect();
        let extra: Vec<(Vec<Viol>, &'static str)> = g
            .insts
            .par_iter()
            .flat_map_iter(|gi| {
                let sh = Shape { id: format!("{}:min:headers", gi.name), inst: universe::minimal(gi) };
                hw.iter().map(move |(v, gw)| check_shape_hdr(&[], &sh, *v, *gw)).collect::<Vec<_>>()
            })
            .collect();
        res.extend(extra);
    }
    // the minimal and the fullest shape of every opcode parsed from a byte slice that starts 1, 2 and 3 bytes off a word
    // boundary (parse_bytes takes any &[u8])
    {
        let mis: Vec<Vec<Viol>> = g
            .insts
            .par_iter()
            .map(|gi| {
                let mut out = vec![];
                for inst in [universe::minimal(gi), universe::fullest(gi)] {
                    let mut words = crate::model::header(0x0001_0300, 0, 1000);
                    words.extend(enc(&inst));
                    let bytes = crate::model::words_to_bytes(&words);
                    let aligned = crate::report::guarded(|| crate::util::parse_collect(&bytes));
                    for off in 1..4usize {
                        let mut store = vec![0u8; bytes.len() + 8];
                        let base = store.as_ptr() as usize;
                        let start = (4 - base % 4) % 4 + off;
                        store[start..start + bytes.len()].copy_from_slice(&bytes);
                        let got = crate::report::guarded(|| crate::util::parse_collect(&store[start..start + bytes.len()]));
                        let same = match (&aligned, &got) {
                            (Ok((ra, ca)), Ok((rb, cb))) => ra.is_ok() == rb.is_ok() && ca.insts.len() == cb.insts.len() && ca.insts.iter().zip(cb.insts.iter()).all(|(x, y)| crate::model::from_dr(x) == crate::model::from_dr(y)),
                            (Err(_), Err(_)) => true,
                            _ => false,
                        };
                        if !same && out.is_empty() {
                            out.push(viol(format!("C02:parse:{}:misaligned", gi.name), format!("{} parsed from a slice {} byte(s) off a word boundary differs from the aligned parse", inst.short(), off), json!({"kind": "c02-misaligned", "opcode": gi.name, "offset": off})));
                        }
                    }
                }
                out
            })
            .collect();
        for v in mis {
            run.add_all(v);
        }
        run.outcome("misaligned_parses", g.insts.len() as u64 * 6);
    }
    // ---- re-entrancy: a consumer that runs a complete second parse from inside a callback of the first (every ordered pair
    //      of 12 small binaries x 7 callback positions): both parses give what they give alone
    {
        let (n, bad) = crate::util::nested_parse_sweep();
        run.outcome("nested_parses", n);
        for (why, rep) in bad.into_iter().take(3) {
            let class = why.split(':').next().unwrap_or("").to_string();
            run.add(viol(format!("C02:nested-parse:{}", class), why, rep));
        }
    }
    let mut oc: BTreeMap<String, u64> = BTreeMap::new();
    for (v, o) in res {
        run.add_all(v);
        *oc.entry(o.to_string()).or_insert(0) += 1;
    }
    run.merge_outcomes(&oc);
    let opcodes: std::collections::BTreeSet<u16> = work.iter().map(|w| w.1.inst.opcode).collect();
    run.set("evaluations", json!(work.len()));
    run.set("distinct_nontrivial", json!(work.iter().map(|w| &w.1.inst).collect::<std::collections::HashSet<_>>().len()));
    run.set("opcodes_covered", json!(opcodes.len()));
    run.set("rule", json!("every U-inst shape of every opcode (optional trailing runs, variadic counts, every enumerant of every value-enum position with its parameters, every single bit / all bits of every mask position, id and literal extremes, strings of every length 0..9 over 6 character classes, every nestable opcode under OpSpecConstantOp, context-dependent literals behind typed contexts, every/strided subsets of the parameterised masks): assemble() == reference encoding word for word; parser(header ++ context ++ words) delivers an instruction == the original. distinct_nontrivial = distinct instruction models"));
    run.set("exhaustive", json!(true));
    run.set("bounds", json!({"shapes": work.len(), "string_lengths": tier.pick("0..9", "0..17"), "variadic": tier.pick("0..2", "0..3"), "mask_pairs": tier == Tier::Thorough, "parameterised_mask_subsets": tier.pick("all for <= 12 bits, strided otherwise", "all")}));
    run.set("samples", json!(work.iter().step_by(work.len() / 6 + 1).map(|(_, s)| json!({"shape": s.id, "instruction": s.inst.short(), "words": enc(&s.inst)})).collect::<Vec<_>>()));
    run.assume("reference encoder written from the SPIR-V binary format; instructions longer than 65535 words and strings containing NUL are outside the format");
    if opcodes.len() != g.insts.len() {
        run.machinery(format!("only {} of {} opcodes covered", opcodes.len(), g.insts.len()));
    }
    run.require_outcome("checked");
    run
}
