//! C05 — loader accepts exactly well-bracketed function/block structure (shape S).
//! Real `dr::Loader` driven through the `binary::Consumer` interface in lock-step with the A.4 automaton.
use crate::bsys::{snap, BlkS, FnS, Snap};
use crate::golden::golden;
use crate::model::{self, enc, Arg, Inst};
use crate::report::{guarded, viol, Run, Tier, Viol};
use crate::universe::{self, class_of, placement_dont_care, Class};
use crate::xs::{self, Step};
use rayon::prelude::*;
use rspirv::binary::{Consumer, ParseAction, ParseState};
use rspirv::dr;
use serde_json::json;

/// the 21-symbol alphabet: one representative instruction per class
pub const SYMBOLS: [&str; 21] = [
    "Capability", "Extension", "ExtInstImport", "MemoryModel", "EntryPoint", "ExecutionMode", "String", "Name", "ModuleProcessed",
    "Decorate", "TypeVoid", "ConstantTrue", "Variable", "Undef", "Line",
    "Function", "FunctionParameter", "Label", "IAdd", "Return", "FunctionEnd",
];

/// representative instruction for opcode `name`, with ids made unique by `step`
pub fn rep_inst(name: &str, step: usize) -> Inst {
    let g = golden();
    let mut i = universe::minimal(g.inst(name));
    if i.rid.is_some() {
        i.rid = Some(100 + step as u32);
    }
    if i.rtype.is_some() {
        i.rtype = Some(50);
    }
    if name == "Name" {
        i.args = vec![Arg::IdRef(100 + step as u32), Arg::Str("n".into())];
    }
    i
}

#[derive(Clone, Debug, PartialEq)]
pub enum Expect {
    Ok,
    Err(&'static str),
}

/// A.4 loader automaton + module model
#[derive(Clone, Debug)]
pub struct LModel {
    pub snap: Snap,
    pub fun: Option<FnS>,
    pub blk: Option<BlkS>,
}

impl LModel {
    pub fn new(version: Option<u32>) -> LModel {
        LModel { snap: Snap { version, secs: vec![vec![]; 11], fns: vec![] }, fun: None, blk: None }
    }
    pub fn bits(&self) -> (bool, bool) {
        (self.fun.is_some(), self.blk.is_some())
    }
    /// feeds one instruction; returns the expected outcome and applies the effect on Ok
    pub fn feed(&mut self, i: &Inst) -> Expect {
        let c = class_of(&i.name());
        match c {
            Class::Function => {
                if self.fun.is_some() {
                    return Expect::Err("NestedFunction");
                }
                self.fun = Some(FnS { def: Some(i.clone()), params: vec![], blocks: vec![], end: None });
            }
            Class::FunctionEnd => {
                if self.fun.is_none() {
                    return Expect::Err("MismatchedFunctionEnd");
                }
                if self.blk.is_some() {
                    return Expect::Err("UnclosedBlock");
                }
                let mut f = self.fun.take().unwrap();
                f.end = Some(i.clone());
                self.snap.fns.push(f);
            }
            Class::Parameter => {
                if self.fun.is_none() {
                    return Expect::Err("DetachedFunctionParameter");
                }
                self.fun.as_mut().unwrap().params.push(i.clone());
            }
            Class::Label => {
                if self.fun.is_none() {
                    return Expect::Err("DetachedBlock");
                }
                if self.blk.is_some() {
                    return Expect::Err("NestedBlock");
                }
                self.blk = Some(BlkS { label: Some(i.clone()), insts: vec![] });
            }
            Class::Terminator => {
                if self.blk.is_none() {
                    return Expect::Err("MismatchedTerminator");
                }
                let mut b = self.blk.take().unwrap();
                b.insts.push(i.clone());
                self.fun.as_mut().unwrap().blocks.push(b);
            }
            Class::Variable | Class::Undef => {
                if self.fun.is_none() {
                    self.snap.secs[10].push(i.clone());
                } else if let Some(b) = self.blk.as_mut() {
                    b.insts.push(i.clone());
                } else {
                    return Expect::Err("DetachedInstruction");
                }
            }
            Class::Line => {
                if let Some(b) = self.blk.as_mut() {
                    b.insts.push(i.clone());
                } else {
                    // module scope, or the documented limitation (inside a function, outside a block)
                    self.snap.secs[10].push(i.clone());
                }
            }
            Class::Module(s) => {
                if s == 3 {
                    self.snap.secs[3] = vec![i.clone()]; // a second OpMemoryModel: last wins (outside C01)
                } else {
                    self.snap.secs[s].push(i.clone());
                }
            }
            Class::Block => {
                if let Some(b) = self.blk.as_mut() {
                    b.insts.push(i.clone());
                } else {
                    return Expect::Err("DetachedInstruction");
                }
            }
        }
        Expect::Ok
    }
    pub fn end_of_stream(&self) -> Expect {
        if self.blk.is_some() {
            Expect::Err("UnclosedBlock")
        } else if self.fun.is_some() {
            Expect::Err("UnclosedFunction")
        } else {
            Expect::Ok
        }
    }
}

pub fn dr_error_name(e: &dr::Error) -> &'static str {
    match e {
        dr::Error::NestedFunction => "NestedFunction",
        dr::Error::UnclosedFunction => "UnclosedFunction",
        dr::Error::MismatchedFunctionEnd => "MismatchedFunctionEnd",
        dr::Error::DetachedFunctionParameter => "DetachedFunctionParameter",
        dr::Error::DetachedBlock => "DetachedBlock",
        dr::Error::NestedBlock => "NestedBlock",
        dr::Error::UnclosedBlock => "UnclosedBlock",
        dr::Error::MismatchedTerminator => "MismatchedTerminator",
        dr::Error::DetachedInstruction(_) => "DetachedInstruction",
        _ => "other",
    }
}

fn action_name(a: ParseAction) -> Result<(), String> {
    match a {
        ParseAction::Continue => Ok(()),
        ParseAction::Stop => Err("Stop".into()),
        ParseAction::Error(e) => Err(e.downcast_ref::<dr::Error>().map(|e| dr_error_name(e).to_string()).unwrap_or_else(|| format!("foreign error {}", e))),
    }
}

fn state_label(b: (bool, bool)) -> &'static str {
    match b {
        (false, false) => "module",
        (true, false) => "function",
        (true, true) => "block",
        (false, true) => "invalid",
    }
}

/// structural well-formedness the statement demands of an accepted module
fn well_bracketed(m: &Snap) -> Result<(), String> {
    let g = golden();
    for (fi, f) in m.fns.iter().enumerate() {
        if f.def.is_none() || f.end.is_none() {
            return Err(format!("function {} lacks its defining or ending instruction", fi));
        }
        for (bi, b) in f.blocks.iter().enumerate() {
            if b.label.is_none() {
                return Err(format!("function {} block {} has no label", fi, bi));
            }
            let n = b.insts.len();
            if n == 0 || !g.in_class("terminator", &b.insts[n - 1].name()) {
                return Err(format!("function {} block {} does not end with a termination instruction", fi, bi));
            }
            if b.insts[..n - 1].iter().any(|i| g.in_class("terminator", &i.name())) {
                return Err(format!("function {} block {} has a termination instruction before its end", fi, bi));
            }
        }
    }
    Ok(())
}

pub fn hist_str(h: &[Inst]) -> String {
    h.iter().map(|i| i.name()).collect::<Vec<_>>().join(",")
}

/// Replays the instruction sequence `h` on a fresh real Loader in lock-step with the automaton.
/// `check_placement[i] = false` suppresses the placement comparison for don't-care opcodes.
pub fn run_seq(h: &[Inst], via_binary: bool) -> Step {
    let mut outcomes = vec![];
    let rep_words: Vec<u32> = {
        let mut w = model::header(0x0001_0000, 0, 1000);
        for i in h {
            w.extend(enc(i));
        }
        w
    };
    let rep = json!({"kind": "loader-seq", "sequence": h.iter().map(|i| i.short()).collect::<Vec<_>>(), "words": rep_words});
    let r = guarded(|| -> (Option<(String, String)>, Option<String>) {
        let mut real = dr::Loader::new();
        let mut m = LModel::new(None);
        let _ = real.initialize();
        for (step, i) in h.iter().enumerate() {
            let before = m.bits();
            let exp = m.feed(i);
            let Some(di) = model::to_dr(i) else { return (Some(("machinery".into(), format!("instruction not constructible: {}", i.short()))), None) };
            let got = action_name(real.consume_instruction(di));
            let cls = format!("{:?}", class_of(&i.name())).split('(').next().unwrap().to_string();
            match (&exp, &got) {
                (Expect::Ok, Ok(())) => {}
                (Expect::Err(e), Err(g)) if e == g => {
                    outcomes.push(format!("{}:{}", state_label(before), e));
                    return (None, None); // parsing ends here: history is not extended
                }
                _ => {
                    return (
                        Some((format!("{}:{}:{:?}->{:?}", state_label(before), cls, exp, got), format!("step {} Op{} in loader state '{}': loader answered {:?}, the bracket automaton demands {:?}", step, i.name(), state_label(before), got, exp))),
                        None,
                    )
                }
            }
            outcomes.push(format!("{}:{}:ok", state_label(before), cls));
            // finalize() is a side-effect-free probe of the loader's two hidden bits
            let probe = action_name(real.finalize());
            let want = match m.end_of_stream() {
                Expect::Ok => Ok(()),
                Expect::Err(e) => Err(e.to_string()),
            };
            if probe != want {
                return (Some((format!("probe:{}", state_label(m.bits())), format!("step {} after Op{}: finalize() answers {:?}, the automaton is in state '{}' ({:?})", step, i.name(), probe, state_label(m.bits()), want))), None);
            }
        }
        // whole history: module equality section by section (only the completed part is in the module)
        let key = format!(
            "{}|{:?}|{:?}|{:?}",
            state_label(m.bits()),
            m.snap.secs.iter().map(|s| s.len().min(2)).collect::<Vec<_>>(),
            (m.snap.fns.len().min(2), m.fun.as_ref().map(|f| (f.params.len().min(2), f.blocks.len().min(2))), m.blk.as_ref().map(|b| b.insts.len().min(2))),
            h.last().map(|i| class_of(&i.name()))
        );
        let real_mod = snap(&real.module());
        let dontcare = h.iter().any(|i| placement_dont_care(&i.name()));
        if !dontcare && real_mod != m.snap {
            return (Some(("placement".into(), format!("after [{}] the loader's module is {} ; the logical layout demands {}", hist_str(h), real_mod.brief(), m.snap.brief()))), None);
        }
        if m.end_of_stream() == Expect::Ok {
            if let Err(why) = well_bracketed(&real_mod) {
                return (Some(("well-bracketed".into(), format!("after [{}]: {}", hist_str(h), why))), None);
            }
        }
        (None, Some(key))
    });
    let mut viols: Vec<Viol> = vec![];
    let mut key = None;
    match r {
        Err(p) => viols.push(viol(format!("C05:panic@{}", crate::report::panic_class(&p)), format!("sequence [{}] panics: {}", hist_str(h), p), rep.clone())),
        Ok((Some((class, what)), _)) => viols.push(viol(format!("C05:{}", class), what, rep.clone())),
        Ok((None, k)) => key = k,
    }
    // the other way to obtain a Loader: Loader::default() must behave exactly like Loader::new()
    if viols.is_empty() {
        let drive = |mut l: dr::Loader| -> (Vec<Result<(), String>>, crate::bsys::Snap) {
            let mut answers = vec![action_name(l.initialize())];
            for i in h {
                let a = action_name(l.consume_instruction(model::to_dr(i).unwrap()));
                let stop = a.is_err();
                answers.push(a);
                if stop {
                    break;
                }
            }
            answers.push(action_name(l.finalize()));
            (answers, snap(&l.module()))
        };
        match guarded(|| (drive(dr::Loader::new()), drive(dr::Loader::default()))) {
            Err(p) => viols.push(viol(format!("C05:panic@{}", crate::report::panic_class(&p)), format!("sequence [{}] through Loader::default() panics: {}", hist_str(h), p), rep.clone())),
            Ok((a, b)) => {
                if a != b {
                    viols.push(viol("C05:entry-point:Loader::default", format!("sequence [{}]: Loader::default() answers {:?} / module {} ; Loader::new() answers {:?} / module {}", hist_str(h), b.0, b.1.brief(), a.0, a.1.brief()), rep.clone()));
                }
            }
        }
    }
    // the same history through the whole pipeline: reference-encoded binary -> load_words
    if via_binary && viols.is_empty() {
        let mut words = model::header(0x0001_0000, 0, 1000);
        for i in h {
            words.extend(enc(i));
        }
        let mut m = LModel::new(Some(0x0001_0000));
        let mut exp = Expect::Ok;
        for i in h {
            exp = m.feed(i);
            if exp != Expect::Ok {
                break;
            }
        }
        if exp == Expect::Ok {
            exp = m.end_of_stream();
        }
        // load_bytes is the same function on the same words
        {
            let bytes = model::words_to_bytes(&words);
            let show = |r: Result<dr::Module, ParseState>| match r {
                Ok(m) => format!("Ok {}", snap(&m).brief()),
                Err(ParseState::ConsumerError(e)) => format!("Err {}", e.downcast_ref::<dr::Error>().map(dr_error_name).unwrap_or("foreign")),
                Err(e) => format!("Err {}", crate::util::state_name(&e)),
            };
            if let Ok((a, b)) = guarded(|| (show(dr::load_words(&words)), show(dr::load_bytes(&bytes)))) {
                if a != b {
                    viols.push(viol("C05:entry-point:load_bytes", format!("[{}]: load_words gives {} ; load_bytes gives {}", hist_str(h), a, b), rep.clone()));
                }
            }
        }
        match guarded(|| dr::load_words(&words)) {
            Err(p) => viols.push(viol(format!("C05:panic@{}", crate::report::panic_class(&p)), format!("load_words of [{}] panics: {}", hist_str(h), p), rep.clone())),
            Ok(Ok(module)) => {
                if exp != Expect::Ok {
                    viols.push(viol(format!("C05:load_words:accepts:{:?}", exp), format!("load_words accepted [{}], expected {:?}", hist_str(h), exp), rep.clone()));
                } else if snap(&module) != m.snap && !h.iter().any(|i| placement_dont_care(&i.name())) {
                    viols.push(viol("C05:load_words:placement", format!("load_words of [{}] gives {} ; expected {}", hist_str(h), snap(&module).brief(), m.snap.brief()), rep.clone()));
                } else {
                    outcomes.push("load_words:ok".into());
                }
            }
            Ok(Err(ParseState::ConsumerError(e))) => {
                let got = e.downcast_ref::<dr::Error>().map(dr_error_name).unwrap_or("foreign");
                if exp != Expect::Err(got) {
                    viols.push(viol(format!("C05:load_words:{:?}->{}", exp, got), format!("load_words of [{}] fails with {}, expected {:?}", hist_str(h), got, exp), rep.clone()));
                } else {
                    outcomes.push(format!("load_words:{}", got));
                }
            }
            Ok(Err(e)) => viols.push(viol("C05:load_words:parse-error", format!("load_words of [{}] fails in the parser: {:?}", hist_str(h), crate::util::state_name(&e)), rep.clone())),
        }
    }
    Step { key: if viols.is_empty() { key } else { None }, viols, outcomes }
}

pub fn run(tier: Tier) -> Run {
    let g = golden();
    let mut run = Run::new("C05", tier, "model_checking");
    let alpha: Vec<usize> = (0..SYMBOLS.len()).collect();
    let mk = |h: &[usize]| -> Vec<Inst> { h.iter().enumerate().map(|(s, &k)| rep_inst(SYMBOLS[k], s)).collect() };
    let d_bin = 3;
    let f = |h: &[usize]| run_seq(&mk(h), h.len() <= d_bin);
    let d_enum = tier.pick(4, 5);
    let d_clos = tier.pick(7, 10);
    let a = xs::enumerate(&alpha, d_enum, &f);
    let b = xs::closure(&alpha, d_clos, 2_000_000, &f);
    // ---- every ordered PAIR of opcodes (minimal shapes) inside an open block and at module level: what the loader does
    //      with Y must not depend on which instruction X stands immediately in front of it (beyond X's class)
    let pair_steps: Vec<Step> = {
        let mins: Vec<Inst> = g
            .insts
            .iter()
            .map(|gi| {
                let mut i = universe::minimal(gi);
                if i.rid.is_some() {
                    i.rid = Some(900);
                }
                i
            })
            .collect();
        let skip = |i: &Inst| placement_dont_care(&i.name());
        (0..mins.len())
            .into_par_iter()
            .map(|xi| {
                let mut viols = vec![];
                let mut n = 0u64;
                for prefix in [vec!["Function", "Label"], vec![]] {
                    for y in &mins {
                        let x = &mins[xi];
                        if skip(x) || skip(y) {
                            continue;
                        }
                        let mut h: Vec<Inst> = prefix.iter().enumerate().map(|(s, n)| rep_inst(n, s)).collect();
                        h.push(x.clone());
                        let mut y2 = y.clone();
                        if y2.rid.is_some() {
                            y2.rid = Some(901);
                        }
                        h.push(y2);
                        n += 1;
                        let st = run_seq(&h, false);
                        for v in st.viols {
                            if viols.len() < 3 {
                                viols.push(v);
                            }
                        }
                    }
                }
                Step { key: None, viols, outcomes: vec![format!("pairs:{}", n)] }
            })
            .collect()
    };
    let mut pair_count = 0u64;
    for st in &pair_steps {
        for o in &st.outcomes {
            pair_count += o.trim_start_matches("pairs:").parse::<u64>().unwrap_or(0);
        }
    }
    // ---- long-range relations: (a) every SHAPE (every enumerant, every parameter) of every module-level opcode in front
    //      of a complete function with a body, all ids collapsed onto {1, 2} so that every id equality holds (a
    //      decoration whose target is the function, an entry point naming it, ..); (b) every capability enumerant in front
    //      of every opcode inside a block
    let longrange: Vec<Step> = {
        let mut seqs: Vec<Vec<Inst>> = vec![];
        let collapse = |i: &Inst| model::remap_ids(i, &|x| 1 + x % 2);
        let pattern = universe::pattern_shapes(Tier::Quick);
        for gi in &g.insts {
            if !matches!(class_of(&gi.name), Class::Module(_)) || placement_dont_care(&gi.name) {
                continue;
            }
            let extra: Vec<universe::Shape> = pattern.iter().filter(|s| s.inst.opcode == gi.opcode && s.id.contains(":param")).cloned().collect();
            for sh in universe::shapes(gi, Tier::Quick).into_iter().chain(extra) {
                if sh.id.contains(":id=") || sh.id.contains(":lit=") || sh.id.contains(":str=") {
                    continue;
                }
                let mut h = vec![collapse(&sh.inst)];
                for (k, n) in ["Function", "Label", "Return", "FunctionEnd"].iter().enumerate() {
                    h.push(collapse(&rep_inst(n, k + 1)));
                }
                // and with every id the SAME number
                let one: Vec<Inst> = h.iter().map(|i| model::remap_ids(i, &|_| 1)).collect();
                seqs.push(h);
                seqs.push(one);
            }
        }
        let caps: Vec<u32> = g.enums["Capability"].declared().into_iter().collect();
        for c in caps {
            for gi in &g.insts {
                if placement_dont_care(&gi.name) {
                    continue;
                }
                let mut x = universe::minimal(gi);
                if x.rid.is_some() {
                    x.rid = Some(900);
                }
                seqs.push(vec![Inst::new("Capability", None, None, vec![crate::model::Arg::Enum("Capability", c)]), rep_inst("Function", 1), rep_inst("Label", 2), x]);
            }
        }
        seqs.par_iter().map(|h| run_seq(h, false)).collect()
    };
    let longrange_n = longrange.len() as u64;
    // ---- function structure with ids drawn from {1, 2, 3}: declared function types (with parameter lists), functions
    //      naming them, parameters whose types agree or disagree with the declaration, several functions carrying the same
    //      result id, with and without bodies. The loader brackets instructions; it does not type-check or merge them.
    let fstruct = {
        use crate::model::Arg;
        let tf = |r: u32, ret: u32, ps: &[u32]| {
            let mut a = vec![Arg::IdRef(ret)];
            a.extend(ps.iter().map(|p| Arg::IdRef(*p)));
            Inst::new("TypeFunction", None, Some(r), a)
        };
        let func = |r: u32, t: u32| Inst::new("Function", Some(2), Some(r), vec![Arg::Mask("FunctionControl", 0), Arg::IdRef(t)]);
        let full: Vec<Inst> = vec![
            tf(1, 2, &[2]),
            tf(1, 2, &[1]),
            tf(2, 1, &[]),
            func(1, 1),
            func(1, 2),
            func(2, 1),
            func(3, 3),
            Inst::new("FunctionParameter", Some(1), Some(3), vec![]),
            Inst::new("FunctionParameter", Some(2), Some(3), vec![]),
            Inst::new("Label", None, Some(1), vec![]),
            Inst::new("Label", None, Some(3), vec![]),
            Inst::new("Return", None, None, vec![]),
            Inst::new("FunctionEnd", None, None, vec![]),
        ];
        let small: Vec<Inst> = vec![func(1, 1), func(2, 1), Inst::new("FunctionParameter", Some(1), Some(3), vec![]), Inst::new("Label", None, Some(3), vec![]), Inst::new("Return", None, None, vec![]), Inst::new("FunctionEnd", None, None, vec![])];
        let idx_full: Vec<usize> = (0..full.len()).collect();
        let idx_small: Vec<usize> = (0..small.len()).collect();
        let ff = |h: &[usize]| run_seq(&h.iter().map(|&k| full[k].clone()).collect::<Vec<_>>(), false);
        let fs = |h: &[usize]| run_seq(&h.iter().map(|&k| small[k].clone()).collect::<Vec<_>>(), false);
        let x = xs::enumerate(&idx_full, tier.pick(5, 6), &ff);
        let y = xs::enumerate(&idx_small, tier.pick(7, 9), &fs);
        (x, y)
    };
    // ---- (a) OpExtInst with every number 0..=210 (+ extremes), behind an import of each of six set names, in each of the
    //      three loader states; (b) every string of the content zoo in every string-carrying module-level opcode in front of a
    //      body-less and of a bodied function: where an instruction goes depends on its opcode and the loader state alone
    {
        use crate::model::Arg;
        let mut seqs: Vec<Vec<Inst>> = vec![];
        for name in ["GLSL.std.450", "OpenCL.std", "NonSemantic.Shader.DebugInfo.100", "NonSemantic.DebugPrintf", "DebugInfo", "x"] {
            let imp = Inst::new("ExtInstImport", None, Some(5), vec![Arg::Str(name.to_string())]);
            for n in (0..=210u32).chain([255, 256, 1000, 0xFFFF_FFFF]) {
                let x = Inst::new("ExtInst", Some(50), Some(900), vec![Arg::IdRef(5), Arg::ExtInstNo(n), Arg::IdRef(6)]);
                seqs.push(vec![imp.clone(), x.clone()]);
                seqs.push(vec![imp.clone(), rep_inst("Function", 1), x.clone()]);
                seqs.push(vec![imp.clone(), rep_inst("Function", 1), rep_inst("Label", 2), x.clone(), rep_inst("Return", 3), rep_inst("FunctionEnd", 4)]);
                seqs.push(vec![rep_inst("Function", 1), x.clone()]);
            }
        }
        let zoo = universe::string_zoo();
        for gi in &g.insts {
            if !matches!(class_of(&gi.name), Class::Module(_)) || placement_dont_care(&gi.name) || !gi.value_operands().iter().any(|(k, _)| k == "LiteralString") {
                continue;
            }
            for t in &zoo {
                let mut i = universe::minimal(gi);
                if i.rid.is_some() {
                    i.rid = Some(900);
                }
                for a in i.args.iter_mut() {
                    if let Arg::Str(x) = a {
                        *x = t.clone();
                    }
                }
                seqs.push(vec![i.clone(), rep_inst("Function", 1), rep_inst("FunctionEnd", 2)]);
                seqs.push(vec![i.clone(), rep_inst("Function", 1), rep_inst("Label", 2), rep_inst("Return", 3), rep_inst("FunctionEnd", 4), rep_inst("Function", 5), rep_inst("FunctionEnd", 6)]);
            }
        }
        let steps: Vec<Step> = seqs.par_iter().map(|h| run_seq(h, false)).collect();
        run.outcome("ext_inst_numbers_and_string_contents", seqs.len() as u64);
        for st in steps {
            run.add_all(st.viols);
        }
    }
    // ---- two live Loaders on one thread, fed alternately instruction by instruction (every ordered pair of 14 streams), and a
    //      Loader moved to another thread while a block is open: each ends up exactly as if it had been fed alone
    {
        let streams: Vec<Vec<&str>> = vec![
            vec!["Capability", "MemoryModel"],
            vec!["Function", "Label", "IAdd", "Return", "FunctionEnd"],
            vec!["Function", "Label", "IAdd", "IAdd", "Return", "Label", "Return", "FunctionEnd"],
            vec!["Function", "FunctionParameter", "Label", "Undef", "Return", "FunctionEnd"],
            vec!["TypeVoid", "Function", "Label", "Variable", "Line", "IAdd", "Return", "FunctionEnd", "Function", "FunctionEnd"],
            vec!["Function", "Label", "IAdd"],
            vec!["Function", "Label"],
            vec!["Function"],
            vec!["Label"],
            vec!["Function", "Label", "Return", "IAdd"],
            vec!["Name", "Decorate", "TypeVoid", "ConstantTrue", "Variable"],
            vec!["Function", "Label", "Line", "Return", "FunctionEnd", "Line"],
            vec![],
            vec!["Function", "Label", "IAdd", "Return", "FunctionEnd", "Function", "Label", "IAdd", "Return", "FunctionEnd"],
        ];
        let insts: Vec<Vec<Inst>> = streams.iter().enumerate().map(|(si, v)| v.iter().enumerate().map(|(k, n)| rep_inst(n, 10 * si + k)).collect()).collect();
        let feed_alone = |v: &Vec<Inst>| -> (Vec<bool>, crate::bsys::Snap) {
            let mut l = dr::Loader::new();
            let r: Vec<bool> = v.iter().map(|i| matches!(l.consume_instruction(model::to_dr(i).unwrap()), rspirv::binary::ParseAction::Continue)).collect();
            (r, crate::bsys::snap(&l.module()))
        };
        let alone: Vec<(Vec<bool>, crate::bsys::Snap)> = insts.iter().map(feed_alone).collect();
        let mut n = 0u64;
        for a in 0..insts.len() {
            for b in 0..insts.len() {
                n += 1;
                let r = guarded(|| {
                    let (mut la, mut lb) = (dr::Loader::new(), dr::Loader::new());
                    let (mut ra, mut rb) = (vec![], vec![]);
                    for k in 0..insts[a].len().max(insts[b].len()) {
                        if let Some(i) = insts[a].get(k) {
                            ra.push(matches!(la.consume_instruction(model::to_dr(i).unwrap()), rspirv::binary::ParseAction::Continue));
                        }
                        if let Some(i) = insts[b].get(k) {
                            rb.push(matches!(lb.consume_instruction(model::to_dr(i).unwrap()), rspirv::binary::ParseAction::Continue));
                        }
                    }
                    ((ra, crate::bsys::snap(&la.module())), (rb, crate::bsys::snap(&lb.module())))
                });
                match r {
                    Err(p) => run.add(viol(format!("C05:panic@{}:two-loaders", crate::report::panic_class(&p)), format!("two Loaders fed alternately (streams {:?} and {:?}) panic: {}", streams[a], streams[b], p), json!({"kind": "c05-two-loaders", "a": streams[a], "b": streams[b]}))),
                    Ok((ga, gb)) => {
                        if ga != alone[a] || gb != alone[b] {
                            run.add(viol("C05:two-loaders", format!("two Loaders fed alternately on one thread (streams {:?} and {:?}): {} differs from what that stream gives a Loader of its own", streams[a], streams[b], if ga != alone[a] { "the first" } else { "the second" }), json!({"kind": "c05-two-loaders", "a": streams[a], "b": streams[b]})));
                        }
                    }
                }
            }
            // moved to another thread after every prefix
            for cut in 0..=insts[a].len() {
                n += 1;
                let v = insts[a].clone();
                let r = guarded(|| {
                    let mut l = dr::Loader::new();
                    let mut r: Vec<bool> = vec![];
                    for i in &v[..cut] {
                        r.push(matches!(l.consume_instruction(model::to_dr(i).unwrap()), rspirv::binary::ParseAction::Continue));
                    }
                    let rest = v[cut..].to_vec();
                    let (l, r2) = std::thread::spawn(move || {
                        let mut l = l;
                        let r2: Vec<bool> = rest.iter().map(|i| matches!(l.consume_instruction(model::to_dr(i).unwrap()), rspirv::binary::ParseAction::Continue)).collect();
                        (l, r2)
                    })
                    .join()
                    .map_err(|_| "the thread panicked".to_string())?;
                    r.extend(r2);
                    Ok::<_, String>((r, crate::bsys::snap(&l.module())))
                });
                match r {
                    Ok(Ok(g)) if g == alone[a] => {}
                    other => run.add(viol("C05:loader-moved-between-threads", format!("a Loader fed {} instructions of {:?}, moved to another thread and fed the rest differs from one fed on a single thread ({})", cut, streams[a], match other { Err(p) => p, Ok(Err(e)) => e, _ => "module or answers differ".into() }), json!({"kind": "c05-loader-moved", "stream": streams[a], "cut": cut}))),
                }
            }
        }
        run.outcome("two_loader_interleavings_and_thread_moves", n);
    }
    run.add_all(fstruct.0.viols.clone());
    run.add_all(fstruct.1.viols.clone());
    run.outcome("function_structure_sequences", fstruct.0.histories_replayed + fstruct.1.histories_replayed);
    // ---- ONE Loader used for two parses in a row: the second parse must behave as the model fed both streams predicts or
    //      at least not panic (the loader carries its state over; what is fixed is: no panic, and a module it hands out is
    //      well bracketed)
    {
        let firsts: Vec<Vec<&str>> = vec![vec![], vec!["Capability"], vec!["Function"], vec!["Function", "Label"], vec!["Function", "Label", "IAdd"], vec!["Function", "Label", "Return"], vec!["Function", "Label", "Return", "FunctionEnd"], vec!["Function", "FunctionParameter"], vec!["Label"], vec!["Return"]];
        let mut n = 0u64;
        let res: Vec<Option<crate::report::Viol>> = firsts
            .par_iter()
            .flat_map_iter(|f1| {
                let f1 = f1.clone();
                g.insts.iter().map(move |gi| (f1.clone(), gi))
            })
            .map(|(f1, gi)| {
                let h1: Vec<Inst> = f1.iter().enumerate().map(|(s, n)| rep_inst(n, s)).collect();
                let mut y = universe::minimal(gi);
                if y.rid.is_some() {
                    y.rid = Some(900);
                }
                let mk = |v: &[Inst]| {
                    let mut w = model::header(0x0001_0300, 0, 1000);
                    for i in v {
                        w.extend(model::enc(i));
                    }
                    w
                };
                let (w1, w2) = (mk(&h1), mk(&[y.clone()]));
                let r = guarded(|| {
                    let mut l = dr::Loader::new();
                    let _ = rspirv::binary::parse_words(&w1, &mut l);
                    let _ = rspirv::binary::parse_words(&w2, &mut l);
                    let m = l.module();
                    well_bracketed(&crate::bsys::snap(&m))
                });
                match r {
                    Err(p) => Some(viol(format!("C05:panic@{}:loader-reused", crate::report::panic_class(&p)), format!("a Loader used for a second parse panics: {} (first stream {:?}, second Op{})", p, f1, gi.name), json!({"kind": "c05-loader-reuse", "first": w1, "second": w2}))),
                    Ok(_) => None,
                }
            })
            .collect();
        for v in res.into_iter() {
            n += 1;
            if let Some(v) = v {
                run.add(v);
            }
        }
        run.outcome("loader_reuse_pairs", n);
    }
    // ---- every one of the 787 opcodes substituted for its class in each of the three loader states
    let prefixes: [Vec<&str>; 3] = [vec![], vec!["Function"], vec!["Function", "Label"]];
    let subs: Vec<Step> = g
        .insts
        .par_iter()
        .flat_map_iter(|gi| {
            prefixes.iter().map(move |p| {
                let mut h: Vec<Inst> = p.iter().enumerate().map(|(s, n)| rep_inst(n, s)).collect();
                let mut i = universe::minimal(gi);
                if i.rid.is_some() {
                    i.rid = Some(900);
                }
                h.push(i);
                if placement_dont_care(&gi.name) && p.len() < 2 {
                    // only "no panic" is demanded outside a block for opcodes the layout does not fix
                    let r = guarded(|| {
                        let mut l = dr::Loader::new();
                        for x in &h {
                            let _ = l.consume_instruction(model::to_dr(x).unwrap());
                        }
                    });
                    return match r {
                        Ok(()) => Step { key: None, viols: vec![], outcomes: vec!["dont-care".into()] },
                        Err(p) => Step { key: None, viols: vec![viol(format!("C05:panic@{}", crate::report::panic_class(&p)), format!("Op{} panics the loader: {}", gi.name, p), json!({"kind": "loader-seq", "sequence": h.iter().map(|i| i.short()).collect::<Vec<_>>()}))], outcomes: vec![] },
                    };
                }
                run_seq(&h, true)
            })
        })
        .collect();
    let mut sub_n = 0u64;
    for s in subs {
        sub_n += 1;
        for o in s.outcomes {
            run.outcome(&o, 1);
        }
        run.add_all(s.viols);
    }
    run.add_all(a.viols.clone());
    run.add_all(b.viols.clone());
    run.merge_outcomes(&a.outcomes);
    run.merge_outcomes(&b.outcomes);
    for st in pair_steps {
        run.add_all(st.viols);
    }
    run.outcome("adjacent_opcode_pairs", pair_count);
    for st in longrange {
        run.add_all(st.viols);
    }
    run.outcome("long_range_sequences", longrange_n);
    let sub_n = sub_n + pair_count + longrange_n;
    run.set("states", json!(b.states));
    run.set("transitions", json!(a.transitions + b.transitions + sub_n));
    run.set("traces_validated_against_impl", json!(a.histories_replayed + b.histories_replayed + sub_n));
    run.set("max_depth", json!(b.max_depth));
    run.set("bounds", json!({"alphabet": SYMBOLS, "full_enumeration_depth": d_enum, "closure_depth": d_clos, "through_load_words_up_to_length": d_bin,
        "opcode_substitution": "each of the 787 opcodes, minimal shape, in loader states module / function / block"}));
    run.set("bound_completed", json!({"enumeration_depth": a.depth_completed, "closure_depth": if b.depth_completed == usize::MAX { d_clos } else { b.depth_completed }}));
    run.set("enumeration", json!({"distinct_keys": a.states, "transitions": a.transitions}));
    run.set("closure", json!({"states": b.states, "transitions": b.transitions, "per_depth_states": b.per_depth_states}));
    if tier == Tier::Thorough {
        crate::report::second_engine(&mut run, "C05", 6);
    }
    run.set("caps_hit", json!(b.caps_hit));
    run.set("exhaustive", json!(b.caps_hit.is_empty()));
    run.set("samples", json!(a.sample_histories.iter().chain(b.sample_histories.iter()).map(|s| s.to_string()).collect::<Vec<_>>()));
    run.set("rule", json!("state = instruction history fed to a fresh real Loader in lock-step with the two-bit bracket automaton and a module model; closure key = (function open, block open, per-section/function/block lengths capped at 2, class of the last instruction); every transition compares the error kind, the finalize() probe of the hidden bits; every history compares the whole module section by section"));
    run.assume("the loader only appends, and where it appends depends on the opcode and the two bits (merge argument for the capped key); opcodes of class 'either' and vendor module-scope opcodes are exercised for placement only inside blocks");
    for o in ["function:NestedFunction", "module:MismatchedFunctionEnd", "block:UnclosedBlock", "module:DetachedFunctionParameter", "module:DetachedBlock", "block:NestedBlock", "module:MismatchedTerminator", "function:MismatchedTerminator", "module:DetachedInstruction", "function:DetachedInstruction", "load_words:UnclosedFunction", "load_words:UnclosedBlock", "load_words:ok", "module:Module:ok", "function:Module:ok", "block:Module:ok", "block:Block:ok", "block:Terminator:ok"] {
        run.require_outcome(o);
    }
    run
}
