pub mod c08;
pub mod c09;
pub mod c16;
pub mod c17;
