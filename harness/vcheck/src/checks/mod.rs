pub mod c08;
pub mod c09;
pub mod c11;
pub mod c14;
pub mod c16;
pub mod c17;
pub mod c19;
