//! C04 — parsing, loading, assembling and disassembling never panic on any input (shape B, fault enumeration).
//! Rides on C03's binary universe (every corruption of every seed, all opcode numbers, U-hostile) and on
//! C11's decoder request space; the oracle is "returns normally" under catch_unwind.
use crate::checks::{c03, c11};
use crate::mutate::Mutant;
use crate::report::{guarded, hex, panic_class, viol, Run, Tier, Viol};
use crate::util::Collector;
use rayon::prelude::*;
use rspirv::binary::{Assemble, Disassemble};
use serde_json::json;
use std::collections::BTreeMap;

pub fn check_mutant(seed_id: &str, m: &Mutant) -> (Option<Viol>, String, bool) {
    let bytes = &m.bytes;
    let mk = |stage: &str, p: String| {
        Some(viol(
            format!("C04:panic@{}", panic_class(&p)),
            format!("{} panics on seed {} corruption {}: {}", stage, seed_id, m.what, p),
            json!({"kind": "bytes", "bytes": hex(bytes), "seed": seed_id, "corruption": m.what, "stage": stage}),
        ))
    };
    // byte granularity
    if let Err(p) = guarded(|| {
        let mut c = Collector::default();
        let _ = rspirv::binary::parse_bytes(bytes, &mut c);
    }) {
        return (mk("parse_bytes", p), "panic".into(), false);
    }
    // the same bytes as a slice that does NOT start on a word boundary (a sub-slice of a file image)
    {
        let mut container = vec![0xEEu8; bytes.len() + 8];
        let base = container.as_ptr() as usize;
        let start = (4 - base % 4) % 4 + 1 + (bytes.len() % 3);
        container[start..start + bytes.len()].copy_from_slice(bytes);
        let sub = &container[start..start + bytes.len()];
        match guarded(|| (crate::util::parse_collect(sub), crate::util::parse_collect(bytes))) {
            Err(p) => return (mk("parse_bytes on a misaligned slice", p), "panic".into(), false),
            Ok(((ra, ca), (rb, cb))) => {
                let same = ra.as_ref().map_err(|e| crate::util::state_name(e)) == rb.as_ref().map_err(|e| crate::util::state_name(e)) && ca.insts.len() == cb.insts.len() && ca.insts.iter().zip(cb.insts.iter()).all(|(x, y)| crate::model::from_dr(x) == crate::model::from_dr(y));
                if !same {
                    return (
                        Some(viol(format!("C04:misaligned-differs:{}", seed_id.split(':').next().unwrap_or("")), format!("seed {} corruption {}: parsing the same bytes from a slice that starts off a word boundary gives a different result", seed_id, m.what), json!({"kind": "bytes", "bytes": hex(bytes), "misaligned": true}))),
                        "misaligned-differs".into(),
                        false,
                    );
                }
            }
        }
    }
    // word granularity
    let words: Vec<u32> = bytes.chunks_exact(4).map(|c| u32::from_le_bytes([c[0], c[1], c[2], c[3]])).collect();
    if let Err(p) = guarded(|| {
        let mut c = Collector::default();
        let _ = rspirv::binary::parse_words(&words, &mut c);
    }) {
        return (mk("parse_words", p), "panic".into(), false);
    }
    // loader, then assemble + disassemble of everything it accepts
    match guarded(|| rspirv::dr::load_bytes(bytes)) {
        Err(p) => (mk("load_bytes", p), "panic".into(), false),
        Ok(Err(_)) => (None, "load_err".into(), false),
        Ok(Ok(module)) => {
            if let Err(p) = guarded(|| module.assemble()) {
                return (mk("assemble", p), "panic".into(), true);
            }
            if let Err(p) = guarded(|| module.disassemble()) {
                return (mk("disassemble", p), "panic".into(), true);
            }
            for i in module.all_inst_iter() {
                if let Err(p) = guarded(|| (i.assemble(), i.disassemble())) {
                    return (mk("instruction assemble/disassemble", p), "panic".into(), true);
                }
            }
            (None, "loaded_assembled_disassembled".into(), true)
        }
    }
}

pub fn run(tier: Tier) -> Run {
    let mut run = Run::new("C04", tier, "fault_enumeration");
    let sw = c03::sweep(tier, &check_mutant);
    run.add_all(sw.viols);
    run.merge_outcomes(&sw.outcomes);
    // structural sequences: every word over the 21-class alphabet up to length L through the same calls
    {
        use crate::checks::c05::{rep_inst, SYMBOLS};
        let l = tier.pick(4, 5);
        let ns = SYMBOLS.len() as u8;
        let mut prefixes: Vec<Vec<u8>> = vec![];
        for a in 0..ns {
            prefixes.push(vec![a]);
            for b in 0..ns {
                prefixes.push(vec![a, b]);
            }
        }
        let res: Vec<(u64, Vec<Viol>)> = prefixes
            .par_iter()
            .map(|p| {
                let mut n = 0u64;
                let mut vs: Vec<Viol> = vec![];
                let mut stack = vec![p.clone()];
                while let Some(s) = stack.pop() {
                    let mut words = crate::model::header(0x0001_0000, 0, 1000);
                    for (i, &k) in s.iter().enumerate() {
                        words.extend(crate::model::enc(&rep_inst(SYMBOLS[k as usize], i)));
                    }
                    let m = Mutant { what: format!("seq{:?}", s.iter().map(|&k| SYMBOLS[k as usize]).collect::<Vec<_>>()), bytes: crate::model::words_to_bytes(&words) };
                    let (v, _, _) = check_mutant("class-sequence", &m);
                    n += 1;
                    if let Some(v) = v {
                        if !vs.iter().any(|x| x.key == v.key) {
                            vs.push(v);
                        }
                    }
                    if s.len() >= 2 && s.len() < l {
                        for k in 0..ns {
                            let mut t = s.clone();
                            t.push(k);
                            stack.push(t);
                        }
                    }
                }
                (n, vs)
            })
            .collect();
        let mut seqn = 0;
        for (n, v) in res {
            seqn += n;
            run.add_all(v);
        }
        run.outcome("class_sequences", seqn);
    }
    // every narrow typed constant (all 16-bit patterns x high halves behind 8-/16-bit types) through the disassembler
    {
        let (n, vs) = crate::checks::c07::narrow_sweep(tier);
        for v in vs.into_iter().filter(|v| v.key.starts_with("C07:panic@")) {
            run.add(Viol { key: v.key.replacen("C07:", "C04:", 1), what: v.what, replay: v.replay });
        }
        run.outcome("narrow_typed_constants_disassembled", n);
    }
    // decoder request space
    let reqs = c11::requests();
    let mut bufs = c11::buffers(&[0x00, 0x02, 0xFF], tier.pick(5, 7));
    bufs.push(b"ok\0".to_vec());
    let d = tier.pick(3, 4);
    let res: Vec<(u64, Vec<Viol>)> = bufs
        .par_iter()
        .map(|b| {
            let f = |h: &[c11::Req]| c11::run_hist(b, h);
            let st = crate::xs::enumerate(&reqs, d, &f);
            let v: Vec<Viol> = st
                .viols
                .into_iter()
                .filter(|v| v.what.contains("panic"))
                .map(|v| {
                    let class = v.what.rsplit_once(": ").map(|x| panic_class(x.1)).unwrap_or_default();
                    Viol { key: format!("C04:panic@{}", class), what: format!("decoder: {}", v.what), replay: v.replay }
                })
                .collect();
            (st.histories_replayed, v)
        })
        .collect();
    let mut dec = 0u64;
    for (n, v) in res {
        dec += n;
        run.add_all(v);
    }
    run.outcome("decoder_request_sequences", dec);
    run.set("evaluations", json!(sw.evaluations + dec));
    run.set("distinct_nontrivial", json!(sw.distinct));
    run.set("rule", json!("every binary of the C03 universe (every single-point corruption of every seed, all 65536 opcode numbers, U-hostile; thorough: two-point corruptions) through parse_bytes, parse_words and load_bytes under catch_unwind; every module the loader accepts through assemble and disassemble (module and per instruction); every decoder request sequence of depth d on every small buffer with limits 0,1,2,usize::MAX. distinct_nontrivial = distinct binaries (by hash) longer than the header"));
    run.set("exhaustive", json!(true));
    run.set("bounds", json!({"seeds": sw.seeds, "corruptions_k": sw.k_completed, "decoder_buffers": bufs.len(), "decoder_depth": d}));
    run.set("bound_completed", json!({"corruptions": sw.k_completed}));
    run.set("samples", json!(sw.samples));
    run.assume("a call that returns at all terminates (no watchdog: the library has no loops whose bound is not the input length); allocation failure is out of scope");
    run.assume("reads outside the buffer are observable as a panic (safe Rust indexing) except inside parse_words' unsafe reinterpretation, covered by the Miri pass on committed replays (supplementary)");
    let _: BTreeMap<String, u64> = BTreeMap::new();
    run.require_outcome("loaded_assembled_disassembled");
    run.require_outcome("load_err");
    run
}
