//! C04 — parsing, loading, assembling and disassembling never panic on any input (shape B, fault enumeration).
//! Rides on C03's binary universe (every corruption of every seed, all opcode numbers, U-hostile) and on
//! C11's decoder request space; the oracle is "returns normally" under catch_unwind.
use crate::checks::{c03, c11};
use crate::mutate::Mutant;
use crate::report::{guarded, hex, panic_class, viol, Run, Tier, Viol};
use crate::util::Collector;
use rayon::prelude::*;
use rspirv::binary::{Assemble, Disassemble};
use serde_json::json;
use std::collections::BTreeMap;

pub fn check_mutant(seed_id: &str, m: &Mutant) -> (Option<Viol>, String, bool) {
    let bytes = &m.bytes;
    let mk = |stage: &str, p: String| {
        Some(viol(
            format!("C04:panic@{}", panic_class(&p)),
            format!("{} panics on seed {} corruption {}: {}", stage, seed_id, m.what, p),
            json!({"kind": "bytes", "bytes": hex(bytes), "seed": seed_id, "corruption": m.what, "stage": stage}),
        ))
    };
    // byte granularity
    if let Err(p) = guarded(|| {
        let mut c = Collector::default();
        let _ = rspirv::binary::parse_bytes(bytes, &mut c);
    }) {
        return (mk("parse_bytes", p), "panic".into(), false);
    }
    // the same bytes as a slice that does NOT start on a word boundary (a sub-slice of a file image)
    {
        let mut container = vec![0xEEu8; bytes.len() + 8];
        let base = container.as_ptr() as usize;
        let start = (4 - base % 4) % 4 + 1 + (bytes.len() % 3);
        container[start..start + bytes.len()].copy_from_slice(bytes);
        let sub = &container[start..start + bytes.len()];
        match guarded(|| (crate::util::parse_collect(sub), crate::util::parse_collect(bytes))) {
            Err(p) => return (mk("parse_bytes on a misaligned slice", p), "panic".into(), false),
            Ok(((ra, ca), (rb, cb))) => {
                let same = ra.as_ref().map_err(|e| crate::util::state_name(e)) == rb.as_ref().map_err(|e| crate::util::state_name(e)) && ca.insts.len() == cb.insts.len() && ca.insts.iter().zip(cb.insts.iter()).all(|(x, y)| crate::model::from_dr(x) == crate::model::from_dr(y));
                if !same {
                    return (
                        Some(viol(format!("C04:misaligned-differs:{}", seed_id.split(':').next().unwrap_or("")), format!("seed {} corruption {}: parsing the same bytes from a slice that starts off a word boundary gives a different result", seed_id, m.what), json!({"kind": "bytes", "bytes": hex(bytes), "misaligned": true}))),
                        "misaligned-differs".into(),
                        false,
                    );
                }
            }
        }
    }
    // word granularity
    let words: Vec<u32> = bytes.chunks_exact(4).map(|c| u32::from_le_bytes([c[0], c[1], c[2], c[3]])).collect();
    if let Err(p) = guarded(|| {
        let mut c = Collector::default();
        let _ = rspirv::binary::parse_words(&words, &mut c);
    }) {
        return (mk("parse_words", p), "panic".into(), false);
    }
    // loader, then assemble + disassemble of everything it accepts
    match guarded(|| rspirv::dr::load_bytes(bytes)) {
        Err(p) => (mk("load_bytes", p), "panic".into(), false),
        Ok(Err(_)) => (None, "load_err".into(), false),
        Ok(Ok(module)) => {
            if let Err(p) = guarded(|| module.assemble()) {
                return (mk("assemble", p), "panic".into(), true);
            }
            // into a caller's buffer: with a large spare capacity, then the same buffer cleared and used again
            if let Err(p) = guarded(|| {
                let mut buf: Vec<u32> = Vec::with_capacity(bytes.len() + 4096);
                module.assemble_into(&mut buf);
                buf.clear();
                module.assemble_into(&mut buf);
                let mut small: Vec<u32> = Vec::with_capacity(1);
                small.push(7);
                module.assemble_into(&mut small);
            }) {
                return (mk("assemble_into", p), "panic".into(), true);
            }
            if let Err(p) = guarded(|| module.disassemble()) {
                return (mk("disassemble", p), "panic".into(), true);
            }
            for i in module.all_inst_iter() {
                if let Err(p) = guarded(|| (i.assemble(), i.disassemble())) {
                    return (mk("instruction assemble/disassemble", p), "panic".into(), true);
                }
            }
            (None, "loaded_assembled_disassembled".into(), true)
        }
    }
}

pub fn run(tier: Tier) -> Run {
    let mut run = Run::new("C04", tier, "fault_enumeration");
    let sw = c03::sweep(tier, &check_mutant);
    run.add_all(sw.viols);
    run.merge_outcomes(&sw.outcomes);
    // structural sequences: every word over the 21-class alphabet up to length L through the same calls
    {
        use crate::checks::c05::{rep_inst, SYMBOLS};
        let l = tier.pick(4, 5);
        let ns = SYMBOLS.len() as u8;
        let mut prefixes: Vec<Vec<u8>> = vec![];
        for a in 0..ns {
            prefixes.push(vec![a]);
            for b in 0..ns {
                prefixes.push(vec![a, b]);
            }
        }
        let res: Vec<(u64, Vec<Viol>)> = prefixes
            .par_iter()
            .map(|p| {
                let mut n = 0u64;
                let mut vs: Vec<Viol> = vec![];
                let mut stack = vec![p.clone()];
                while let Some(s) = stack.pop() {
                    let mut words = crate::model::header(0x0001_0000, 0, 1000);
                    for (i, &k) in s.iter().enumerate() {
                        words.extend(crate::model::enc(&rep_inst(SYMBOLS[k as usize], i)));
                    }
                    let m = Mutant { what: format!("seq{:?}", s.iter().map(|&k| SYMBOLS[k as usize]).collect::<Vec<_>>()), bytes: crate::model::words_to_bytes(&words) };
                    let (v, _, _) = check_mutant("class-sequence", &m);
                    n += 1;
                    if let Some(v) = v {
                        if !vs.iter().any(|x| x.key == v.key) {
                            vs.push(v);
                        }
                    }
                    if s.len() >= 2 && s.len() < l {
                        for k in 0..ns {
                            let mut t = s.clone();
                            t.push(k);
                            stack.push(t);
                        }
                    }
                }
                (n, vs)
            })
            .collect();
        let mut seqn = 0;
        for (n, v) in res {
            seqn += n;
            run.add_all(v);
        }
        run.outcome("class_sequences", seqn);
    }
    // id-relation sequences (values typed by values, id rings, use before declaration) through the same calls
    {
        let seqs = crate::universe::id_relation_sequences(tier.pick(3, 4));
        let res: Vec<Option<Viol>> = seqs
            .par_iter()
            .map(|(n, v)| {
                let mut words = crate::model::header(0x0001_0300, 0, 20);
                for i in v {
                    words.extend(crate::model::enc(i));
                }
                check_mutant("id-relations", &Mutant { what: format!("ids[{}]", n), bytes: crate::model::words_to_bytes(&words) }).0
            })
            .collect();
        run.outcome("id_relation_sequences", seqs.len() as u64);
        for v in res.into_iter().flatten() {
            run.add(v);
        }
    }
    // ---- re-entrancy: a consumer that runs a complete second parse from inside a callback of the first (every ordered pair
    //      of 12 small binaries x 7 callback positions): both parses give what they give alone
    {
        let (n, bad) = crate::util::nested_parse_sweep();
        run.outcome("nested_parses", n);
        for (why, rep) in bad.into_iter().take(3) {
            let class = why.split(':').next().unwrap_or("").to_string();
            run.add(viol(format!("C04:nested-parse:{}", class), why, rep));
        }
    }
    // deep nesting (the recursion depth a reader may reach is bounded by the instruction, never by the stack)
    {
        let deep = crate::universe::deep_nesting_words();
        let res: Vec<Option<Viol>> = deep.par_iter().map(|(n, w)| check_mutant("deep-nesting", &Mutant { what: n.clone(), bytes: crate::model::words_to_bytes(w) }).0).collect();
        run.outcome("deep_nesting_binaries", deep.len() as u64);
        for v in res.into_iter().flatten() {
            run.add(v);
        }
    }
    // LARGE well-formed modules whose ids are dense: K type declarations %1..%K (so the id bound is K+1 and the module has
    // more words than ids), then a constant and a value of the last and of the middle type. Anything sized after the
    // header bound or after the number of ids seen (tables, caps, 16-/17-bit counters) is exercised at full size.
    {
        let ks: Vec<u32> = if tier == Tier::Thorough { vec![65_534, 65_535, 65_536, 70_000, 131_072, 300_000, 1_100_000, 2_200_000] } else { vec![65_535, 65_536, 70_000, 131_072, 300_000, 1_100_000] };
        let res: Vec<Option<Viol>> = ks
            .par_iter()
            .map(|&k| {
                let mut words = crate::model::header(0x0001_0300, 0, k + 10);
                for i in 1..=k {
                    // widths are all different and all unsupported except the middle and the last one
                    let w = if i == k { 64 } else if i == k / 2 { 16 } else { 1000 + i };
                    words.extend(crate::model::enc(&crate::model::Inst::new("TypeInt", None, Some(i), vec![crate::model::Arg::Lit32(w), crate::model::Arg::Lit32(0)])));
                }
                words.extend(crate::model::enc(&crate::model::Inst::new("Constant", Some(k), Some(k + 1), vec![crate::model::Arg::Lit64(0x1_0000_0002)])));
                words.extend(crate::model::enc(&crate::model::Inst::new("Constant", Some(k / 2), Some(k + 2), vec![crate::model::Arg::Lit32(0xFFFF)])));
                words.extend(crate::model::enc(&crate::model::Inst::new("Function", Some(k - 1), Some(k + 6), vec![crate::model::Arg::Mask("FunctionControl", 0), crate::model::Arg::IdRef(k - 2)])));
                words.extend(crate::model::enc(&crate::model::Inst::new("Label", None, Some(k + 4), vec![])));
                words.extend(crate::model::enc(&crate::model::Inst::new("Undef", Some(k), Some(k + 3), vec![])));
                words.extend(crate::model::enc(&crate::model::Inst::new("Switch", None, None, vec![crate::model::Arg::IdRef(k + 3), crate::model::Arg::IdRef(k + 4), crate::model::Arg::Lit64(5), crate::model::Arg::IdRef(k + 5)])));
                words.extend(crate::model::enc(&crate::model::Inst::new("Label", None, Some(k + 5), vec![])));
                words.extend(crate::model::enc(&crate::model::Inst::new("Return", None, None, vec![])));
                words.extend(crate::model::enc(&crate::model::Inst::new("FunctionEnd", None, None, vec![])));
                let bytes = crate::model::words_to_bytes(&words);
                let m = Mutant { what: format!("dense-ids:{}", k), bytes };
                let (v, o, _) = check_mutant("dense-big-module", &m);
                if v.is_some() {
                    return v.map(|mut v| {
                        v.replay = serde_json::json!({"kind": "c04-dense", "types": k});
                        v
                    });
                }
                if o != "loaded_assembled_disassembled" {
                    return Some(crate::report::viol("C04:dense-big-module:not-loaded", format!("a well-formed module of {} type declarations with dense ids is not loaded ({})", k, o), serde_json::json!({"kind": "c04-dense", "types": k})));
                }
                None
            })
            .collect();
        run.outcome("dense_big_modules", ks.len() as u64);
        for v in res.into_iter().flatten() {
            run.add(v);
        }
    }
    // ONE consumer object used for two parses in a row (the Loader carries its state from one parse to the next): first
    // binaries that stop in every loader state, second binaries of every opcode: no panic in either parse
    {
        let g = crate::golden::golden();
        let firsts: Vec<Vec<crate::model::Inst>> = {
            use crate::model::{Arg, Inst};
            let f = Inst::new("Function", Some(2), Some(5), vec![Arg::Mask("FunctionControl", 0), Arg::IdRef(6)]);
            let l = Inst::new("Label", None, Some(7), vec![]);
            let r = Inst::new("Return", None, None, vec![]);
            let e = Inst::new("FunctionEnd", None, None, vec![]);
            let nop = Inst::new("Nop", None, None, vec![]);
            let cap = Inst::new("Capability", None, None, vec![Arg::Enum("Capability", 1)]);
            vec![
                vec![],
                vec![cap.clone()],
                vec![f.clone()],
                vec![f.clone(), l.clone()],
                vec![f.clone(), l.clone(), nop.clone()],
                vec![f.clone(), l.clone(), r.clone()],
                vec![f.clone(), l.clone(), r.clone(), e.clone()],
                vec![f.clone(), l.clone(), r.clone(), l.clone()],
                vec![f.clone(), l.clone(), f.clone()],
                vec![l.clone()],
                vec![r.clone()],
                vec![f.clone(), e.clone(), f.clone(), l.clone()],
            ]
        };
        let mut seconds: Vec<Vec<crate::model::Inst>> = g.insts.iter().map(|gi| vec![crate::universe::minimal(gi)]).collect();
        seconds.extend(firsts.iter().cloned());
        let pairs: Vec<(usize, usize, usize)> = (0..firsts.len()).flat_map(|a| (0..seconds.len()).flat_map(move |b| (0..3usize).map(move |cut| (a, b, cut)))).collect();
        let res: Vec<Option<Viol>> = pairs
            .par_iter()
            .map(|&(a, b, cut)| {
                let mk = |v: &Vec<crate::model::Inst>| {
                    let mut w = crate::model::header(0x0001_0300, 0, 100);
                    for i in v {
                        w.extend(crate::model::enc(i));
                    }
                    w
                };
                let mut w1 = mk(&firsts[a]);
                // cut 0: whole; 1: last word dropped (stream error inside the last instruction); 2: a surplus word 0 appended
                match cut {
                    1 if w1.len() > 5 => {
                        w1.pop();
                    }
                    2 => w1.push(0),
                    _ => {}
                }
                let w2 = mk(&seconds[b]);
                let r = guarded(|| {
                    let mut loader = rspirv::dr::Loader::new();
                    let b1 = crate::model::words_to_bytes(&w1);
                    let b2 = crate::model::words_to_bytes(&w2);
                    let _ = rspirv::binary::parse_bytes(&b1, &mut loader);
                    let _ = rspirv::binary::parse_bytes(&b2, &mut loader);
                    let _ = rspirv::binary::parse_words(&w2, &mut loader);
                    let m = loader.module();
                    let _ = m.disassemble();
                });
                match r {
                    Ok(()) => None,
                    Err(p) => Some(crate::report::viol(format!("C04:panic@{}:loader-reused", panic_class(&p)), format!("one Loader used for two parses in a row panics: {} (first binary {:?}, variant {}, second {:?})", p, firsts[a].iter().map(|i| i.short()).collect::<Vec<_>>(), cut, seconds[b].iter().map(|i| i.short()).collect::<Vec<_>>()), serde_json::json!({"kind": "c04-loader-reuse", "first": w1, "second": w2}))),
                }
            })
            .collect();
        run.outcome("loader_reuse_pairs", pairs.len() as u64);
        for v in res.into_iter().flatten() {
            run.add(v);
        }
    }
    // every narrow typed constant (all 16-bit patterns x high halves behind 8-/16-bit types) through the disassembler
    {
        let (n, vs) = crate::checks::c07::narrow_sweep(tier);
        for v in vs.into_iter().filter(|v| v.key.starts_with("C07:panic@")) {
            run.add(Viol { key: v.key.replacen("C07:", "C04:", 1), what: v.what, replay: v.replay });
        }
        run.outcome("narrow_typed_constants_disassembled", n);
    }
    // decoder request space
    let reqs = c11::requests();
    let mut bufs = c11::buffers(&[0x00, 0x02, 0xFF], tier.pick(5, 7));
    bufs.push(b"ok\0".to_vec());
    let d = tier.pick(3, 4);
    let res: Vec<(u64, Vec<Viol>)> = bufs
        .par_iter()
        .map(|b| {
            let f = |h: &[c11::Req]| c11::run_hist(b, h);
            let st = crate::xs::enumerate(&reqs, d, &f);
            let v: Vec<Viol> = st
                .viols
                .into_iter()
                .filter(|v| v.what.contains("panic"))
                .map(|v| {
                    let class = v.what.rsplit_once(": ").map(|x| panic_class(x.1)).unwrap_or_default();
                    Viol { key: format!("C04:panic@{}", class), what: format!("decoder: {}", v.what), replay: v.replay }
                })
                .collect();
            (st.histories_replayed, v)
        })
        .collect();
    let mut dec = 0u64;
    for (n, v) in res {
        dec += n;
        run.add_all(v);
    }
    run.outcome("decoder_request_sequences", dec);
    run.set("evaluations", json!(sw.evaluations + dec));
    run.set("distinct_nontrivial", json!(sw.distinct));
    run.set("rule", json!("every binary of the C03 universe (every single-point corruption of every seed, all 65536 opcode numbers, U-hostile; thorough: two-point corruptions) through parse_bytes, parse_words and load_bytes under catch_unwind; every module the loader accepts through assemble and disassemble (module and per instruction); every decoder request sequence of depth d on every small buffer with limits 0,1,2,usize::MAX. distinct_nontrivial = distinct binaries (by hash) longer than the header"));
    run.set("exhaustive", json!(true));
    run.set("bounds", json!({"seeds": sw.seeds, "corruptions_k": sw.k_completed, "decoder_buffers": bufs.len(), "decoder_depth": d}));
    run.set("bound_completed", json!({"corruptions": sw.k_completed}));
    run.set("samples", json!(sw.samples));
    run.assume("a call that returns at all terminates (no watchdog: the library has no loops whose bound is not the input length); allocation failure is out of scope");
    run.assume("reads outside the buffer are observable as a panic (safe Rust indexing) except inside parse_words' unsafe reinterpretation, covered by the Miri pass on committed replays (supplementary)");
    let _: BTreeMap<String, u64> = BTreeMap::new();
    run.require_outcome("loaded_assembled_disassembled");
    run.require_outcome("load_err");
    run
}
