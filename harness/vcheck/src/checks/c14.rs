//! C14 — parser drives the consumer in protocol order and obeys its actions (shape S, deviation-bounded).
//! Real `Parser` + scripted logging consumer; one deviation (a non-continue answer) per run is the maximum
//! observable since parsing ends there. Every callback position of every binary gets Stop and Error.
use crate::model::{self, enc, Arg, Inst};
use crate::report::{guarded, hex, viol, Run, Tier, Viol};
use crate::util::state_name;
use rayon::prelude::*;
use rspirv::binary::{Consumer, ParseAction, ParseState};
use rspirv::dr;
use serde_json::json;
use std::collections::BTreeMap;
use std::fmt;

#[derive(Debug, Clone, PartialEq)]
enum Ev {
    Init,
    Header(u32, u32), // version word, bound
    /// the delivered instruction as a model value (compared field by field, not through the subject's PartialEq) and its name
    Inst(Inst, &'static str),
    Fin,
}

#[derive(Debug)]
struct ScriptErr(usize);
impl fmt::Display for ScriptErr {
    fn fmt(&self, f: &mut fmt::Formatter) -> fmt::Result {
        write!(f, "scripted error at callback {}", self.0)
    }
}
impl std::error::Error for ScriptErr {}

#[derive(Clone, Copy, Debug, PartialEq)]
enum Answer {
    Stop,
    Error,
    /// an error whose value is itself a `ParseState` (a consumer forwarding the failure of a nested parse)
    ErrorState(u8),
    /// an error whose value is a std::io::Error of the k-th kind (Interrupted, WouldBlock, TimedOut, UnexpectedEof ..), a
    /// std::fmt::Error, a string, a number parse error: whatever the consumer answers with, an Error ends the parse
    ErrorOther(u8),
}

const OTHER_ERRORS: u8 = 24;
fn other_error(k: u8) -> Box<dyn std::error::Error + Send + Sync> {
    use std::io::ErrorKind as K;
    const KINDS: [K; 20] = [
        K::Interrupted, K::WouldBlock, K::TimedOut, K::UnexpectedEof, K::NotFound, K::PermissionDenied, K::ConnectionRefused, K::ConnectionReset, K::ConnectionAborted, K::NotConnected,
        K::AddrInUse, K::AddrNotAvailable, K::BrokenPipe, K::AlreadyExists, K::InvalidInput, K::InvalidData, K::WriteZero, K::Other, K::Unsupported, K::OutOfMemory,
    ];
    match k {
        k if (k as usize) < KINDS.len() => Box::new(std::io::Error::new(KINDS[k as usize], "scripted")),
        20 => Box::new(std::fmt::Error),
        21 => Box::new("x".parse::<u32>().unwrap_err()),
        22 => Box::new(std::str::from_utf8(&[0xFF]).unwrap_err()),
        _ => Box::new(std::io::Error::from_raw_os_error(4)),
    }
}

fn forwarded_state(k: u8) -> ParseState {
    match k {
        0 => ParseState::HeaderIncorrect,
        1 => ParseState::ConsumerStopRequested,
        2 => ParseState::Complete,
        _ => ParseState::OperandExpected(12, 34),
    }
}

struct Scripted {
    log: Vec<Ev>,
    /// answer at callback number `at` (0-based over all callbacks made)
    script: Option<(usize, Answer)>,
}

impl Scripted {
    fn answer(&mut self) -> ParseAction {
        let idx = self.log.len() - 1;
        match self.script {
            Some((at, Answer::Stop)) if at == idx => ParseAction::Stop,
            Some((at, Answer::Error)) if at == idx => ParseAction::Error(Box::new(ScriptErr(idx))),
            Some((at, Answer::ErrorState(k))) if at == idx => ParseAction::Error(Box::new(forwarded_state(k))),
            Some((at, Answer::ErrorOther(k))) if at == idx => ParseAction::Error(other_error(k)),
            _ => ParseAction::Continue,
        }
    }
}

impl Consumer for Scripted {
    fn initialize(&mut self) -> ParseAction {
        self.log.push(Ev::Init);
        self.answer()
    }
    fn finalize(&mut self) -> ParseAction {
        self.log.push(Ev::Fin);
        self.answer()
    }
    fn consume_header(&mut self, h: dr::ModuleHeader) -> ParseAction {
        self.log.push(Ev::Header(h.version & 0x00FF_FF00, h.bound));
        self.answer()
    }
    fn consume_instruction(&mut self, i: dr::Instruction) -> ParseAction {
        self.log.push(Ev::Inst(model::from_dr(&i), i.class.opname));
        self.answer()
    }
}

#[derive(Clone, Debug)]
struct Case {
    name: String,
    bytes: Vec<u8>,
    /// None = header fault (no header event)
    header: Option<(u32, u32)>,
    good: Vec<Inst>,
    /// Some(class) = parsing ends with this ParseState class after `good` ("*" = any parse error); None = accepted
    fault: Option<&'static str>,
    /// false: only the all-continue script, Stop at the last callback and Error at the one before it
    all_scripts: bool,
}

fn good_kinds() -> Vec<Inst> {
    vec![
        Inst::new("Capability", None, None, vec![Arg::Enum("Capability", 1)]),
        Inst::new("Name", None, None, vec![Arg::IdRef(7), Arg::Str("name".into())]),
        Inst::new("TypeInt", None, Some(3), vec![Arg::Lit32(32), Arg::Lit32(0)]),
    ]
}

/// the seven parse-error classes as (label, expected ParseState name, prefix instructions, malformed words)
fn malformed() -> Vec<(&'static str, &'static str, Vec<Inst>, Vec<u32>)> {
    let g = crate::golden::golden();
    let op = |n: &str| g.opcode(n) as u32;
    vec![
        ("wc0", "WordCountZero", vec![], vec![op("Nop")]),
        ("unknown-opcode", "OpcodeUnknown", vec![], vec![(1 << 16) | 9]),
        ("operand-missing", "OperandExpected", vec![], vec![(1 << 16) | op("Capability")]),
        ("operand-surplus", "OperandExceeded", vec![], vec![(2 << 16) | op("Nop"), 5]),
        ("operand-undecodable", "OperandError", vec![], vec![(2 << 16) | op("Capability"), 0xFFFF]),
        (
            "type-unsupported",
            "TypeUnsupported",
            vec![Inst::new("TypeInt", None, Some(9), vec![Arg::Lit32(128), Arg::Lit32(0)])],
            vec![(4 << 16) | op("Constant"), 9, 10, 1],
        ),
        ("spec-op", "SpecConstantOpIntegerIncorrect", vec![], vec![(4 << 16) | op("SpecConstantOp"), 1, 2, 9]),
    ]
}

fn cases(max_good: usize) -> Vec<Case> {
    let kinds = good_kinds();
    let mut out = vec![];
    let hdr = model::header(0x0001_0300, 0, 77);
    // all sequences of 0..=max_good good instructions over the 3 kinds
    let mut seqs: Vec<Vec<usize>> = vec![vec![]];
    let mut layer = vec![vec![]];
    for _ in 0..max_good {
        let mut next = vec![];
        for s in &layer {
            for k in 0..kinds.len() {
                let mut t: Vec<usize> = s.clone();
                t.push(k);
                next.push(t);
            }
        }
        seqs.extend(next.iter().cloned());
        layer = next;
    }
    for s in &seqs {
        let good: Vec<Inst> = s.iter().map(|&k| kinds[k].clone()).collect();
        let mut words = hdr.clone();
        for i in &good {
            words.extend(enc(i));
        }
        out.push(Case { name: format!("ok{:?}", s), bytes: model::words_to_bytes(&words), header: Some((0x0001_0300, 77)), good: good.clone(), fault: None, all_scripts: true });
        // malformed instruction at every position 0..=len (the instructions after it are never reached)
        for (label, class, prefix, mw) in malformed() {
            for pos in 0..=good.len() {
                let mut words = hdr.clone();
                let mut delivered = vec![];
                for i in &good[..pos] {
                    words.extend(enc(i));
                    delivered.push(i.clone());
                }
                for i in &prefix {
                    words.extend(enc(i));
                    delivered.push(i.clone());
                }
                words.extend(mw.iter());
                for i in &good[pos..] {
                    words.extend(enc(i));
                }
                out.push(Case { name: format!("{}@{}in{:?}", label, pos, s), bytes: model::words_to_bytes(&words), header: Some((0x0001_0300, 77)), good: delivered, fault: Some(class), all_scripts: true });
            }
        }
    }
    // header faults
    for n in 0..20 {
        let full = model::words_to_bytes(&hdr);
        out.push(Case { name: format!("header-truncated-{}", n), bytes: full[..n].to_vec(), header: None, good: vec![], fault: Some("HeaderIncomplete"), all_scripts: true });
    }
    let mut wrong = hdr.clone();
    wrong[0] = 0x1234_5678;
    wrong.extend(enc(&kinds[0]));
    out.push(Case { name: "wrong-magic".into(), bytes: model::words_to_bytes(&wrong), header: None, good: vec![], fault: Some("HeaderIncorrect"), all_scripts: true });
    let mut sw = hdr.clone();
    sw[0] = sw[0].swap_bytes();
    sw.extend(enc(&kinds[0]));
    out.push(Case { name: "swapped-magic".into(), bytes: model::words_to_bytes(&sw), header: None, good: vec![], fault: Some("EndiannessUnsupported"), all_scripts: true });
    out
}

fn expected_log(c: &Case) -> Vec<Ev> {
    let mut full = vec![Ev::Init];
    if let Some((v, b)) = c.header {
        // (major / minor bytes of the version word: the other two are reserved)
        full.push(Ev::Header(v & 0x00FF_FF00, b));
        for i in &c.good {
            let d = model::to_dr(i).expect("good instruction constructible");
            full.push(Ev::Inst(model::from_dr(&d), d.class.opname));
        }
        if c.fault.is_none() {
            full.push(Ev::Fin);
        }
    }
    full
}

fn check_case(c: &Case) -> (Vec<Viol>, BTreeMap<String, u64>, u64) {
    let mut out = vec![];
    let mut oc: BTreeMap<String, u64> = BTreeMap::new();
    let full = expected_log(c);
    let mut runs = 0u64;
    // positions 0..=full.len() : one beyond the last callback too (script never fires)
    let mut scripts: Vec<Option<(usize, Answer)>> = vec![None];
    if !c.all_scripts {
        scripts.push(Some((full.len() - 1, Answer::Stop)));
        if full.len() >= 2 {
            scripts.push(Some((full.len() - 2, Answer::Error)));
        }
    }
    for p in 0..=if c.all_scripts { full.len() } else { 0 } {
        if !c.all_scripts {
            break;
        }
        scripts.push(Some((p, Answer::Stop)));
        scripts.push(Some((p, Answer::Error)));
        for k in 0..4 {
            scripts.push(Some((p, Answer::ErrorState(k))));
        }
        for k in 0..OTHER_ERRORS {
            scripts.push(Some((p, Answer::ErrorOther(k))));
        }
    }
    // both entry points: parse_bytes, and parse_words when the input is a whole number of words
    let words: Option<Vec<u32>> = if c.bytes.len() % 4 == 0 { Some(c.bytes.chunks(4).map(|b| u32::from_le_bytes([b[0], b[1], b[2], b[3]])).collect()) } else { None };
    let entries: Vec<bool> = if words.is_some() { vec![false, true] } else { vec![false] };
    for (script, via_words) in scripts.into_iter().flat_map(|s| entries.iter().map(move |e| (s, *e))) {
        runs += 1;
        let key = |what: &str| format!("C14:{}{}:{}:{}", if via_words { "parse_words:" } else { "" }, c.name.split(|ch| ch == '@' || ch == '[').next().unwrap_or(&c.name), match script { None => "continue".to_string(), Some((_, a)) => format!("{:?}", a) }, what);
        let rep = json!({"kind": "c14", "case": c.name, "bytes": hex(&c.bytes), "script": format!("{:?}", script)});
        let r = guarded(|| {
            let mut cons = Scripted { log: vec![], script };
            let res = if via_words { rspirv::binary::parse_words(words.as_ref().unwrap(), &mut cons) } else { rspirv::binary::parse_bytes(&c.bytes, &mut cons) };
            (res, cons.log)
        });
        let (res, log) = match r {
            Err(p) => {
                out.push(viol(key("panic"), format!("case {} script {:?}: panic {}", c.name, script, p), rep));
                continue;
            }
            Ok(x) => x,
        };
        let fires = script.filter(|(p, _)| *p < full.len());
        let want_log: &[Ev] = match fires {
            Some((p, _)) => &full[..=p],
            None => &full[..],
        };
        if log != want_log {
            let show = |l: &[Ev]| l.iter().map(|e| match e { Ev::Init => "initialize".to_string(), Ev::Header(..) => "header".to_string(), Ev::Inst(_, n) => format!("inst({})", n), Ev::Fin => "finalize".to_string() }).collect::<Vec<_>>().join(" ");
            let what = if log.len() > want_log.len() { "extra-callback" } else if log.len() < want_log.len() { "missing-callback" } else { "different-callback" };
            out.push(viol(key(what), format!("case {} script {:?}: callbacks were [{}], protocol demands [{}]", c.name, script, show(&log), show(want_log)), rep.clone()));
            continue;
        }
        // result
        match (fires, &res) {
            (Some((_, Answer::Stop)), Err(ParseState::ConsumerStopRequested)) => *oc.entry("stop_honoured".into()).or_insert(0) += 1,
            (Some((p, Answer::Error)), Err(ParseState::ConsumerError(e))) => {
                match e.downcast_ref::<ScriptErr>() {
                    Some(ScriptErr(q)) if *q == p => *oc.entry("error_carried".into()).or_insert(0) += 1,
                    other => out.push(viol(key("error-payload"), format!("case {} script {:?}: ConsumerError carries {:?}, not the consumer's own error", c.name, script, other), rep.clone())),
                }
            }
            (Some((_, Answer::ErrorState(k))), Err(ParseState::ConsumerError(e))) => match e.downcast_ref::<ParseState>() {
                Some(st) if state_name(st) == state_name(&forwarded_state(k)) => *oc.entry("forwarded_state_carried".into()).or_insert(0) += 1,
                other => out.push(viol(key("error-payload"), format!("case {} script {:?}: ConsumerError carries {:?}, not the consumer's own ParseState value", c.name, script, other.map(state_name)), rep.clone())),
            },
            (Some((_, Answer::ErrorOther(k))), Err(ParseState::ConsumerError(e))) => {
                if e.to_string() == other_error(k).to_string() {
                    *oc.entry("other_error_carried".into()).or_insert(0) += 1
                } else {
                    out.push(viol(key("error-payload"), format!("case {} script {:?}: ConsumerError carries {:?}, not the consumer's own error value", c.name, script, e.to_string()), rep.clone()))
                }
            }
            (None, Ok(())) if c.fault.is_none() => *oc.entry("complete".into()).or_insert(0) += 1,
            (None, Err(e)) if c.fault == Some(state_name(e)) || c.fault == Some("*") && !state_name(e).starts_with("Consumer") && state_name(e) != "Complete" => *oc.entry(format!("parse_error_{}", state_name(e))).or_insert(0) += 1,
            (f, r) => out.push(viol(
                key("result"),
                format!("case {} script {:?}: result {:?}, expected {}", c.name, script, r.as_ref().map_err(|e| state_name(e)), match f { Some((_, Answer::Stop)) => "ConsumerStopRequested".to_string(), Some((_, Answer::Error)) | Some((_, Answer::ErrorState(_))) | Some((_, Answer::ErrorOther(_))) => "ConsumerError".to_string(), None => format!("{:?}", c.fault.unwrap_or("Ok")) }),
                rep.clone(),
            )),
        }
    }
    // the loader, being such a consumer, yields a module only for binaries parsed to the end
    runs += 1;
    match guarded(|| dr::load_bytes(&c.bytes)) {
        Err(p) => out.push(viol(format!("C14:{}:loader:panic", c.name), format!("load_bytes panicked: {}", p), json!({"kind": "bytes", "bytes": hex(&c.bytes)}))),
        Ok(Ok(m)) => {
            if c.fault.is_some() {
                out.push(viol(format!("C14:loader:module-from-partial-parse"), format!("case {}: load_bytes returned a module although parsing ends with {:?}", c.name, c.fault), json!({"kind": "bytes", "bytes": hex(&c.bytes)})));
            } else {
                let n = m.all_inst_iter().count();
                // (universe binaries: a second OpMemoryModel replaces the first, so only the hand-built cases count)
                if n != c.good.len() && c.all_scripts {
                    out.push(viol(format!("C14:loader:instruction-count"), format!("case {}: loaded module holds {} instructions, binary has {}", c.name, n, c.good.len()), json!({"kind": "bytes", "bytes": hex(&c.bytes)})));
                }
                *oc.entry("loader_module".into()).or_insert(0) += 1;
            }
        }
        Ok(Err(e)) => {
            // (universe binaries may be complete for the parser and still structurally unacceptable for the loader)
            if c.fault.is_none() && c.all_scripts {
                out.push(viol(format!("C14:loader:rejects-complete"), format!("case {}: load_bytes failed with {:?} on a well-formed module-level binary", c.name, state_name(&e)), json!({"kind": "bytes", "bytes": hex(&c.bytes)})));
            } else {
                *oc.entry("loader_no_module".into()).or_insert(0) += 1;
            }
        }
    }
    (out, oc, runs)
}

/// one binary of the C03 corruption universe: the expected callbacks come from the reference acceptor
fn universe_case(id: &str, m: &crate::mutate::Mutant) -> (Option<Viol>, String, bool) {
    use crate::acceptor::{accept, Verdict};
    let class = m.what.split(|c| c == ':' || c == '@').next().unwrap_or("").to_string();
    let (header, good, fault, label): (Option<(u32, u32)>, Vec<Inst>, Option<&'static str>, &str) = match accept(&m.bytes) {
        Verdict::HeaderIncomplete => (None, vec![], Some("HeaderIncomplete"), "header-fault"),
        Verdict::WrongMagic => (None, vec![], Some("HeaderIncorrect"), "header-fault"),
        Verdict::SwappedMagic => (None, vec![], Some("EndiannessUnsupported"), "header-fault"),
        Verdict::Accept { version, bound, insts } => (Some((version, bound)), insts, None, "accepted"),
        Verdict::Reject { version, bound, insts, .. } => (Some((version, bound)), insts, Some("*"), "rejected"),
    };
    if good.iter().any(|i| model::to_dr(i).is_none()) {
        return (None, "model-unconstructible".into(), false);
    }
    let c = Case { name: format!("universe-{}@{}/{}", class, id, m.what), bytes: m.bytes.clone(), header, good, fault, all_scripts: false };
    let (v, _oc, _n) = check_case(&c);
    (v.into_iter().next(), label.to_string(), fault.is_none())
}

pub fn run(tier: Tier) -> Run {
    let mut run = Run::new("C14", tier, "model_checking");
    // ---- the whole C03 corruption universe (every opcode shape, every single-point corruption): callbacks expected
    //      by the reference acceptor; scripts all-continue, Stop at the last callback, Error at the one before it
    let sw = crate::checks::c03::sweep(tier, &universe_case);
    run.add_all(sw.viols.iter().cloned());
    for (o, c) in &sw.outcomes {
        run.outcome(&format!("universe:{}", o), *c);
    }
    let cs = cases(tier.pick(3, 5));
    let res: Vec<(Vec<Viol>, BTreeMap<String, u64>, u64)> = cs.par_iter().map(check_case).collect();
    let mut runs = 0;
    for (v, oc, n) in res {
        run.add_all(v);
        run.merge_outcomes(&oc);
        runs += n;
    }
    let positions: u64 = cs.iter().map(|c| expected_log(c).len() as u64 + 1).sum();
    run.set("states", json!(positions + sw.evaluations));
    run.set("transitions", json!(runs + 4 * sw.evaluations));
    run.set("traces_validated_against_impl", json!(runs + 4 * sw.evaluations));
    run.set("bounds", json!({"universe_binaries": sw.evaluations, "universe_seeds": sw.seeds, "universe_scripts": "all-continue, Stop at the last expected callback, Error at the one before it, the real Loader", "binaries": cs.len(), "good_instructions_per_binary": format!("0..{}", tier.pick(3, 5)), "instruction_kinds": 3, "parse_error_classes": 7,
        "malformed_position": "every position", "header_faults": "every truncation 0..19 bytes, wrong magic, swapped magic",
        "consumer_scripts": "all-continue; Stop and Error at every callback position and one past the last"}));
    run.set("bound_completed", json!({"deviations": 1}));
    run.set("exhaustive", json!(true));
    run.set("samples", json!(cs.iter().step_by(cs.len() / 5 + 1).map(|c| json!({"case": c.name, "bytes": hex(&c.bytes), "expected_callbacks": expected_log(c).len()})).collect::<Vec<_>>()));
    // ---- re-entrancy: a consumer that runs a complete second parse from inside a callback of the first (every ordered pair
    //      of 12 small binaries x 7 callback positions): both parses give what they give alone
    {
        let (n, bad) = crate::util::nested_parse_sweep();
        run.outcome("nested_parses", n);
        for (why, rep) in bad.into_iter().take(3) {
            let class = why.split(':').next().unwrap_or("").to_string();
            run.add(viol(format!("C14:nested-parse:{}", class), why, rep));
        }
    }
    run.set("rule", json!("state = (binary, callback position); every state is driven with answers continue / stop / error on the real Parser; the log of callbacks is compared with the protocol prefix, the result with the answer given, the ConsumerError payload with the consumer's own error by identity; the real Loader is run on every binary. The same is done, with three scripts per binary, for every binary of the C03 corruption universe, where the expected callbacks (the instructions preceding the first malformed one) come from the reference acceptor"));
    run.require_outcome("universe:accepted");
    run.require_outcome("universe:rejected");
    run.require_outcome("universe:header-fault");
    for o in ["stop_honoured", "error_carried", "forwarded_state_carried", "complete", "loader_module", "loader_no_module", "parse_error_WordCountZero", "parse_error_OpcodeUnknown", "parse_error_OperandExpected", "parse_error_OperandExceeded", "parse_error_OperandError", "parse_error_TypeUnsupported", "parse_error_SpecConstantOpIntegerIncorrect", "parse_error_HeaderIncomplete", "parse_error_HeaderIncorrect", "parse_error_EndiannessUnsupported"] {
        run.require_outcome(o);
    }
    run
}
