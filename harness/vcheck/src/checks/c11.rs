//! C11 — decoder consumes exactly what it returns and honours limits (shape S).
//! Real `binary::Decoder` driven in lock-step with the A.7 reference model on every buffer of a small universe.
use crate::golden::golden;
use crate::report::{guarded, hex, viol, Run, Tier, Viol};
use crate::xs::{self, Step};
use rayon::prelude::*;
use rspirv::binary::{DecodeError, Decoder};
use serde_json::json;
use std::collections::BTreeMap;

#[derive(Clone, Copy, Debug, PartialEq, Eq)]
pub enum Req {
    Word,
    Words(usize),
    Str,
    Bit32,
    Bit64,
    Id,
    ExtInst,
    SourceLanguage,
    MemoryAccess,
    SetLimit(usize),
    ClearLimit,
}

pub fn requests() -> Vec<Req> {
    vec![
        Req::Word,
        Req::Str,
        Req::SetLimit(1),
        Req::SetLimit(0),
        Req::ClearLimit,
        Req::Words(0),
        Req::Words(2),
        Req::Words(usize::MAX),
        Req::Bit32,
        Req::Bit64,
        Req::Id,
        Req::ExtInst,
        Req::SourceLanguage,
        Req::MemoryAccess,
        Req::SetLimit(2),
        Req::SetLimit(usize::MAX),
        // numeric edges: n * 4 just fits / offset + n * 4 overflows / n * 4 wraps to 0; limits beyond 16 and 32 bits
        Req::Words(usize::MAX / 4),
        Req::Words(usize::MAX / 4 - 1),
        Req::Words(1 << 62),
        Req::SetLimit(1 << 16),
        Req::SetLimit(1 << 32),
    ]
}

fn req_str(r: &Req) -> String {
    match r {
        Req::Words(n) if *n == usize::MAX => "words(MAX)".into(),
        Req::Words(n) if *n == usize::MAX / 4 => "words(MAX/4)".into(),
        Req::Words(n) if *n == usize::MAX / 4 - 1 => "words(MAX/4-1)".into(),
        Req::Words(n) => format!("words({})", n),
        Req::SetLimit(n) if *n == usize::MAX => "set_limit(MAX)".into(),
        Req::SetLimit(n) => format!("set_limit({})", n),
        Req::Word => "word".into(),
        Req::Str => "string".into(),
        Req::Bit32 => "bit32".into(),
        Req::Bit64 => "bit64".into(),
        Req::Id => "id".into(),
        Req::ExtInst => "ext_inst_integer".into(),
        Req::SourceLanguage => "source_language".into(),
        Req::MemoryAccess => "memory_access".into(),
        Req::ClearLimit => "clear_limit".into(),
    }
}

pub fn hist_str(h: &[Req]) -> String {
    h.iter().map(req_str).collect::<Vec<_>>().join(",")
}

/// reference model state: offset, and for the limit the words still allowed.
/// `budget` = n - words consumed by SUCCESSFUL requests since set_limit(n) (what the property fixes);
/// `[lo, hi]` = possible values of the decoder's internal counter (a failed request may or may not be charged).
#[derive(Clone, Debug)]
struct Model {
    off: usize,
    lim: Option<(usize, usize, usize)>, // (lo, hi, budget)
}

fn word_at(b: &[u8], off: usize) -> Option<u32> {
    if off + 4 <= b.len() {
        Some(u32::from_le_bytes([b[off], b[off + 1], b[off + 2], b[off + 3]]))
    } else {
        None
    }
}

/// string outcome for an exact remaining limit `left` (None = unlimited): Some((string, words)) or None
fn string_model(b: &[u8], off: usize, left: Option<usize>) -> Option<(String, usize)> {
    if off > b.len() {
        return None;
    }
    let win = match left {
        None => b.len(),
        Some(l) => b.len().min(off.saturating_add(l.saturating_mul(4))),
    };
    let p = (off..win).find(|&i| b[i] == 0)?;
    let s = std::str::from_utf8(&b[off..p]).ok()?;
    let k = (p - off) / 4 + 1;
    if off + 4 * k > b.len() {
        return None;
    }
    if let Some(l) = left {
        if k > l {
            return None;
        }
    }
    Some((s.to_string(), k))
}

fn is_limit_err(e: &DecodeError) -> Option<usize> {
    if let DecodeError::LimitReached(o) = e {
        Some(*o)
    } else {
        None
    }
}
fn is_stream_err(e: &DecodeError) -> Option<usize> {
    if let DecodeError::StreamExpected(o) = e {
        Some(*o)
    } else {
        None
    }
}

/// Replays `h` on a fresh real decoder over `buf`, comparing every step with the model.
/// a string for messages: quoted, long ones abbreviated to their length
fn short_str(s: &str) -> String {
    if s.len() <= 48 {
        format!("{:?}", s)
    } else {
        format!("<string of {} bytes>", s.len())
    }
}

/// the buffer as text: hex, abbreviated for large buffers (the scale sweep names its buffers instead)
fn buf_text(buf: &[u8]) -> String {
    if buf.len() <= 256 {
        hex(buf)
    } else {
        format!("{}..({} bytes)", hex(&buf[..16]), buf.len())
    }
}

/// the same history on a copy of the buffer that starts `mis` bytes off a word boundary (the Decoder takes any
/// `&[u8]`: a sub-slice of a file image, an embedded module)
pub fn run_hist_misaligned(buf: &[u8], h: &[Req], mis: usize) -> Step {
    let mut container = vec![0xEEu8; buf.len() + mis + 8];
    // Vec<u8> storage comes from the allocator word-aligned; make sure of the misalignment all the same
    let base = container.as_ptr() as usize;
    let start = (4 - base % 4) % 4 + mis;
    container[start..start + buf.len()].copy_from_slice(buf);
    let mut st = run_hist(&container[start..start + buf.len()], h);
    for v in st.viols.iter_mut() {
        v.what = format!("(buffer placed {} byte(s) off a word boundary) {}", mis, v.what);
    }
    st
}

pub fn run_hist(buf: &[u8], h: &[Req]) -> Step {
    let g = golden();
    let hex = |b: &[u8]| buf_text(b);
    let key_of = |what: &str| format!("C11:{}:{}", hex(buf), what);
    let mut outcomes: Vec<String> = vec![];
    let res = guarded(|| -> (Option<String>, Model) {
        let mut d = Decoder::new(buf);
        let mut m = Model { off: 0, lim: None };
        macro_rules! fail {
            ($($a:tt)*) => { return (Some(format!($($a)*)), m) };
        }
        for (i, r) in h.iter().enumerate() {
            let off0 = m.off;
            // how many words may still be consumed: by the property (budget) and by the real counter [lo, hi]
            let (lo, hi, budget) = match m.lim {
                None => (usize::MAX, usize::MAX, usize::MAX),
                Some(x) => x,
            };
            // generic n-word read prediction: must_succeed / must_fail / either
            let words_avail = (buf.len().saturating_sub(off0)) / 4;
            let predict = |n: usize| -> (bool, bool) {
                // (may_succeed, may_fail)
                if n > words_avail || n > hi {
                    (false, true)
                } else if n <= lo {
                    (true, false)
                } else {
                    (true, true)
                }
            };
            // applies a successful consumption of k words to the model
            let consume = |m: &mut Model, k: usize| {
                m.off += 4 * k;
                if let Some((lo, hi, b)) = m.lim.as_mut() {
                    *lo = lo.saturating_sub(k);
                    *hi = hi.saturating_sub(k);
                    *b = b.saturating_sub(k);
                }
            };
            // applies a failed request: observed offset delta j words; the failing word may have been charged
            let failed = |m: &mut Model, j: usize| {
                m.off += 4 * j;
                if let Some((lo, hi, b)) = m.lim.as_mut() {
                    *lo = lo.saturating_sub(j + 1);
                    *hi = hi.saturating_sub(j);
                    *b = b.saturating_sub(j);
                }
            };
            match *r {
                Req::SetLimit(n) => {
                    d.set_limit(n);
                    m.lim = Some((n, n, n));
                    outcomes.push("set_limit".into());
                }
                Req::ClearLimit => {
                    d.clear_limit();
                    m.lim = None;
                    outcomes.push("clear_limit".into());
                }
                Req::Word | Req::Bit32 | Req::Id | Req::ExtInst => {
                    let got = match *r {
                        Req::Word => d.word(),
                        Req::Bit32 => d.bit32(),
                        Req::Id => d.id(),
                        _ => d.ext_inst_integer(),
                    };
                    let (may_ok, may_fail) = predict(1);
                    match got {
                        Ok(w) => {
                            if !may_ok {
                                fail!("step {} {}: succeeded although no word is available inside buffer and limit (offset {}, len {}, limit budget {:?})", i, req_str(r), off0, buf.len(), m.lim.map(|x| x.2));
                            }
                            if budget == 0 {
                                fail!("step {} {}: consumed a word beyond the limit", i, req_str(r));
                            }
                            if Some(w) != word_at(buf, off0) {
                                fail!("step {} {}: returned {:#x}, the little-endian word at offset {} is {:?}", i, req_str(r), w, off0, word_at(buf, off0));
                            }
                            consume(&mut m, 1);
                            outcomes.push("word_ok".into());
                        }
                        Err(e) => {
                            if !may_fail {
                                fail!("step {} {}: failed with {:?} although a word is available at offset {} inside the limit", i, req_str(r), e, off0);
                            }
                            // a failed raw-word request leaves the offset unchanged and reports that offset
                            if d.offset() != off0 {
                                fail!("step {} {}: failed but moved the offset from {} to {}", i, req_str(r), off0, d.offset());
                            }
                            match (is_limit_err(&e), is_stream_err(&e)) {
                                (Some(o), _) | (_, Some(o)) => {
                                    if o != off0 {
                                        fail!("step {} {}: error reports offset {} instead of {}", i, req_str(r), o, off0);
                                    }
                                }
                                _ => fail!("step {} {}: unexpected error kind {:?}", i, req_str(r), e),
                            }
                            if m.lim.is_some() && hi == 0 && words_avail >= 1 && is_limit_err(&e).is_none() {
                                fail!("step {} {}: limit exhausted but the error is {:?}, not LimitReached", i, req_str(r), e);
                            }
                            if (m.lim.is_none() || lo >= 1) && words_avail == 0 && is_stream_err(&e).is_none() {
                                fail!("step {} {}: stream exhausted (no limit in the way) but the error is {:?}", i, req_str(r), e);
                            }
                            if is_limit_err(&e).is_some() {
                                outcomes.push("word_err_limit".into());
                            } else {
                                outcomes.push("word_err_stream".into());
                            }
                            failed(&mut m, 0);
                        }
                    }
                }
                Req::Words(_) | Req::Bit64 => {
                    let n = if let Req::Words(n) = *r { n } else { 2 };
                    let got: Result<Vec<u32>, DecodeError> = if let Req::Words(_) = *r {
                        d.words(n)
                    } else {
                        d.bit64().map(|v| vec![v as u32, (v >> 32) as u32])
                    };
                    let (may_ok, may_fail) = predict(n);
                    match got {
                        Ok(ws) => {
                            if !may_ok {
                                fail!("step {} {}: succeeded although {} words are not available inside buffer and limit", i, req_str(r), n);
                            }
                            if n > budget {
                                fail!("step {} {}: consumed words beyond the limit", i, req_str(r));
                            }
                            let want: Vec<u32> = (0..n).map(|j| word_at(buf, off0 + 4 * j).unwrap()).collect();
                            if ws != want {
                                fail!("step {} {}: returned {:x?}, buffer holds {:x?} (low word first)", i, req_str(r), ws, want);
                            }
                            consume(&mut m, n);
                            outcomes.push(if n == 0 { "words0_ok".into() } else { "words_ok".into() });
                        }
                        Err(_e) => {
                            if !may_fail {
                                fail!("step {} {}: failed although {} words are available at offset {} inside the limit", i, req_str(r), n, off0);
                            }
                            // consumption of a failed multi-word request is unspecified: adopt the observed offset
                            let now = d.offset();
                            if now < off0 || (now - off0) % 4 != 0 || now > buf.len() {
                                fail!("step {} {}: failed and left the offset at {} (was {}, len {})", i, req_str(r), now, off0, buf.len());
                            }
                            let j = (now - off0) / 4;
                            if j > budget {
                                fail!("step {} {}: failed request consumed {} words, more than the limit allows", i, req_str(r), j);
                            }
                            failed(&mut m, j);
                            outcomes.push("words_err".into());
                        }
                    }
                }
                Req::SourceLanguage | Req::MemoryAccess => {
                    let got: Result<u32, DecodeError> = if *r == Req::SourceLanguage {
                        d.source_language().map(|v| v as u32)
                    } else {
                        d.memory_access().map(|v| v.bits())
                    };
                    let (may_ok, may_fail) = predict(1);
                    let w = word_at(buf, off0);
                    let declared = |w: u32| {
                        if *r == Req::SourceLanguage {
                            g.enums["SourceLanguage"].declared().contains(&w)
                        } else {
                            w & !g.masks["MemoryAccess"].all() == 0
                        }
                    };
                    match got {
                        Ok(v) => {
                            if !may_ok || w.is_none() {
                                fail!("step {} {}: succeeded although no word is available inside buffer and limit", i, req_str(r));
                            }
                            if budget == 0 {
                                fail!("step {} {}: consumed a word beyond the limit", i, req_str(r));
                            }
                            if Some(v) != w || !declared(v) {
                                fail!("step {} {}: returned value {} for word {:?} (declared: {})", i, req_str(r), v, w, declared(v));
                            }
                            consume(&mut m, 1);
                            outcomes.push("enum_ok".into());
                        }
                        Err(e) => {
                            let word_ok_but_unknown = w.map_or(false, |w| !declared(w)) && may_ok;
                            if !may_fail && !word_ok_but_unknown {
                                fail!("step {} {}: failed with {:?} although a declared value {:?} is available inside the limit", i, req_str(r), e, w);
                            }
                            let now = d.offset();
                            if now < off0 || (now - off0) % 4 != 0 || now > buf.len() || (now - off0) / 4 > 1 {
                                fail!("step {} {}: failed and left the offset at {} (was {})", i, req_str(r), now, off0);
                            }
                            let j = (now - off0) / 4;
                            if j > budget {
                                fail!("step {} {}: failed request consumed a word beyond the limit", i, req_str(r));
                            }
                            if j == 1 {
                                // the word was read (and charged) and then found undeclared
                                if w.map_or(true, declared) {
                                    fail!("step {} {}: rejected a declared value {:?} after reading it", i, req_str(r), w);
                                }
                                consume(&mut m, 1);
                                outcomes.push("enum_err_unknown".into());
                            } else {
                                failed(&mut m, 0);
                                outcomes.push("enum_err_nostream".into());
                            }
                        }
                    }
                }
                Req::Str => {
                    let got = d.string();
                    // outcome for every value the real counter may have
                    let cands: Vec<Option<usize>> = match m.lim {
                        None => vec![None],
                        Some((lo, hi, _)) => {
                            if hi - lo <= 8 {
                                (lo..=hi).map(Some).collect()
                            } else {
                                vec![Some(lo), Some(hi)]
                            }
                        }
                    };
                    let preds: Vec<Option<(String, usize)>> = cands.iter().map(|c| string_model(buf, off0, *c)).collect();
                    match got {
                        Ok(s) => {
                            let now = d.offset();
                            if now > buf.len() {
                                fail!("step {} string: returned Ok({}) and advanced the offset to {} beyond the buffer length {}", i, short_str(&s), now, buf.len());
                            }
                            if now < off0 || (now - off0) % 4 != 0 {
                                fail!("step {} string: offset moved from {} to {}", i, off0, now);
                            }
                            let k = (now - off0) / 4;
                            if k > budget {
                                fail!("step {} string: consumed {} words, the limit allows {}", i, k, budget);
                            }
                            if !preds.iter().any(|p| p.as_ref() == Some(&(s.clone(), k))) {
                                fail!("step {} string: returned Ok({}) consuming {} words at offset {}; the reference model (NUL-terminated UTF-8 inside buffer and limit, whole words) gives {:?}", i, short_str(&s), k, off0, preds.iter().map(|p| p.as_ref().map(|(t, n)| (short_str(t), *n))).collect::<Vec<_>>());
                            }
                            consume(&mut m, k);
                            outcomes.push(if k > 1 { "string_ok_multiword".into() } else { "string_ok".into() });
                        }
                        Err(e) => {
                            if preds.iter().all(|p| p.is_some()) {
                                fail!("step {} string: failed with {:?} although a NUL-terminated UTF-8 string {:?} lies inside buffer and limit", i, e, preds[0].as_ref().map(|(t, n)| (short_str(t), *n)));
                            }
                            let now = d.offset();
                            if now < off0 || (now - off0) % 4 != 0 || now > buf.len() {
                                fail!("step {} string: failed and left the offset at {} (was {}, len {})", i, now, off0, buf.len());
                            }
                            let j = (now - off0) / 4;
                            if j > budget {
                                fail!("step {} string: failed request consumed {} words beyond the limit", i, j);
                            }
                            failed(&mut m, j);
                            outcomes.push(match e {
                                DecodeError::LimitReached(_) => "string_err_limit".into(),
                                DecodeError::StreamExpected(_) => "string_err_stream".into(),
                                DecodeError::DecodeStringFailed(..) => "string_err_utf8".into(),
                                _ => "string_err_other".into(),
                            });
                        }
                    }
                }
            }
            // ---- invariants after every request
            if d.offset() != m.off {
                fail!("step {} {}: offset is {} but {} words were returned since offset {} (expected {})", i, req_str(r), d.offset(), (m.off - off0) / 4, off0, m.off);
            }
            if d.offset() > buf.len() {
                fail!("step {} {}: offset {} beyond the end of the buffer ({})", i, req_str(r), d.offset(), buf.len());
            }
            if d.has_limit() != m.lim.is_some() {
                fail!("step {} {}: has_limit() = {}", i, req_str(r), d.has_limit());
            }
            let lr = d.limit_reached();
            match m.lim.as_mut() {
                None => {
                    if lr {
                        fail!("step {} {}: limit_reached() is true without a limit", i, req_str(r));
                    }
                }
                Some((lo, hi, b)) => {
                    if *b == 0 && !lr {
                        fail!("step {} {}: all words of the limit were consumed but limit_reached() is false", i, req_str(r));
                    }
                    if *lo > 0 && lr {
                        fail!("step {} {}: limit_reached() is true although at least {} more word(s) are allowed", i, req_str(r), lo);
                    }
                    // adopt the observation (whether failures are charged is unspecified)
                    if lr {
                        *lo = 0;
                        *hi = 0;
                    } else if *lo == 0 {
                        *lo = 1.min(*hi);
                    }
                }
            }
        }
        (None, m)
    });
    let rep = |what: String| viol(key_of(&hist_str(h)), what, json!({"kind": "c11", "buffer": hex(buf), "requests": hist_str(h)}));
    match res {
        Err(p) => Step { key: None, viols: vec![rep(format!("panic on buffer {} after requests [{}]: {}", hex(buf), hist_str(h), p))], outcomes: vec!["panic".into()] },
        Ok((Some(why), _)) => Step { key: None, viols: vec![rep(format!("buffer {} requests [{}]: {}", hex(buf), hist_str(h), why))], outcomes },
        Ok((None, m)) => {
            let cap = |x: usize| if x == usize::MAX { 99 } else { x.min(5) };
            let key = format!("{}|{:?}", m.off, m.lim.map(|(lo, hi, b)| (cap(lo), cap(hi), cap(b))));
            Step { key: Some(key), viols: vec![], outcomes }
        }
    }
}

pub fn buffers(alpha: &[u8], max_len: usize) -> Vec<Vec<u8>> {
    let mut out = vec![vec![]];
    let mut layer: Vec<Vec<u8>> = vec![vec![]];
    for _ in 0..max_len {
        let mut next = vec![];
        for b in &layer {
            for &a in alpha {
                let mut c = b.clone();
                c.push(a);
                next.push(c);
            }
        }
        out.extend(next.iter().cloned());
        layer = next;
    }
    out
}

/// Reduces violations to root-cause keys: the buffer/request specifics stay in the replay, the key names
/// the first failing request kind and the class of what went wrong.
fn root_key(v: &Viol) -> String {
    let what = &v.what;
    let class = if what.contains("panic") {
        format!("panic@{}", crate::report::panic_class(what.rsplit_once(": ").map(|x| x.1).unwrap_or(what)))
    } else if what.contains("beyond the buffer length") {
        "string:offset-beyond-buffer".to_string()
    } else {
        // "buffer .. requests [..]: step N <request>: <message>"
        let mut parts = what.splitn(3, ": ");
        let _ = parts.next();
        let step = parts.next().unwrap_or("");
        let msg = parts.next().unwrap_or(what);
        let req = step.split_whitespace().nth(2).unwrap_or("").split('(').next().unwrap_or("");
        let words: Vec<&str> = msg.split_whitespace().filter(|w| !w.chars().any(|c| c.is_ascii_digit())).take(7).collect();
        format!("{}:{}", req, words.join("_"))
    };
    format!("C11:{}", class)
}

pub fn run(tier: Tier) -> Run {
    let mut run = Run::new("C11", tier, "model_checking");
    let reqs = requests();
    let mut bufs = buffers(&[0x00, 0x02, 0xFF], tier.pick(6, 8));
    // strings with complete and incomplete multi-byte sequences
    bufs.extend(buffers(&[0x00, 0xC3, 0xA9], tier.pick(5, 6)).into_iter().filter(|b| b.iter().any(|&x| x >= 0x80)));
    // buffers that begin with the magic number or its byte-swapped form (a decoder must not care what the words mean)
    for first in [[0x03u8, 0x02, 0x23, 0x07], [0x07, 0x23, 0x02, 0x03]] {
        for tail in buffers(&[0x00, 0x01, 0xFF], tier.pick(4, 5)) {
            let mut b = first.to_vec();
            b.extend(tail);
            bufs.push(b);
        }
    }
    // a UTF-8 byte order mark (EF BB BF) in front of / inside a string
    bufs.extend(buffers(&[0x00, 0xEF, 0xBB, 0xBF, 0x61], tier.pick(5, 6)).into_iter().filter(|b| b.windows(3).any(|w| w == [0xEF, 0xBB, 0xBF])));
    // bytes on which word-at-a-time zero-byte tricks misfire: 0x01 next to a NUL, 0x80 / 0x81
    bufs.extend(buffers(&[0x00, 0x01, 0x80, 0x81], tier.pick(5, 6)).into_iter().filter(|b| b.iter().any(|&x| x != 0) && b.len() >= 2));
    // the UTF-8 zoo: every class of ill-formed sequence (overlong forms, surrogates, CESU-8 pairs, beyond U+10FFFF, lone
    // continuation bytes, truncated sequences, the bytes FE / FF), and well-formed neighbours (U+FFFD itself, non-characters,
    // the last / first code point of each length), each as the whole string, inside ASCII, and followed by a second string
    {
        let zoo: Vec<&[u8]> = vec![
            &[0xC0, 0x80], &[0xC1, 0xBF], &[0xE0, 0x80, 0x80], &[0xE0, 0x9F, 0xBF], &[0xF0, 0x80, 0x80, 0x80], &[0xF0, 0x8F, 0xBF, 0xBF],
            &[0xED, 0xA0, 0x80], &[0xED, 0xBF, 0xBF], &[0xED, 0xA0, 0x80, 0xED, 0xB0, 0x80], &[0xED, 0xAF, 0xBF, 0xED, 0xBF, 0xBF], &[0xED, 0xA0, 0xBD, 0xED, 0xB8, 0x80],
            &[0xF4, 0x90, 0x80, 0x80], &[0xF5, 0x80, 0x80, 0x80], &[0xF8, 0x88, 0x80, 0x80, 0x80], &[0xFC, 0x84, 0x80, 0x80, 0x80, 0x80], &[0xFE], &[0xFF], &[0xFE, 0xFF], &[0xFF, 0xFE],
            &[0x80], &[0xBF], &[0x80, 0x80], &[0xC3], &[0xE2, 0x82], &[0xF0, 0x9F, 0x98], &[0xC3, 0x28], &[0xE2, 0x28, 0xA1], &[0xE2, 0x82, 0x28], &[0xF0, 0x28, 0x8C, 0xBC], &[0xF0, 0x90, 0x28, 0xBC], &[0xF0, 0x28, 0x8C, 0x28],
            &[0xEF, 0xBF, 0xBD], &[0xEF, 0xBF, 0xBE], &[0xEF, 0xBF, 0xBF], &[0xEF, 0xB7, 0x90], &[0x7F], &[0xC2, 0x80], &[0xDF, 0xBF], &[0xE0, 0xA0, 0x80], &[0xED, 0x9F, 0xBF], &[0xEE, 0x80, 0x80], &[0xF0, 0x90, 0x80, 0x80], &[0xF4, 0x8F, 0xBF, 0xBF],
        ];
        for z in zoo {
            for (pre, post) in [(&b""[..], &b""[..]), (&b"a"[..], &b"b"[..]), (&b"abc"[..], &b""[..]), (&b""[..], &b"abcd"[..])] {
                let mut b: Vec<u8> = pre.to_vec();
                b.extend_from_slice(z);
                b.extend_from_slice(post);
                b.push(0);
                while b.len() % 4 != 0 {
                    b.push(0);
                }
                b.extend_from_slice(b"ok\0\0");
                bufs.push(b);
            }
        }
    }
    // the same string twice (8 words + terminator each), then a word: a string is decoded from the bytes at the offset under
    // the limit in force now, whatever was decoded before
    for unit in [&b"0123456789abcdef0123456789abcde"[..], &b"0123456789abcdef0123456789abcdefXYZ"[..], "0123456789abcdef01234567é9abcde".as_bytes()] {
        let mut one: Vec<u8> = unit.to_vec();
        one.push(0);
        while one.len() % 4 != 0 {
            one.push(0);
        }
        let mut b = one.clone();
        b.extend_from_slice(&one);
        b.extend_from_slice(&one);
        b.extend_from_slice(&[9, 0, 0, 0]);
        bufs.push(b);
    }
    bufs.push(b"ok\0".to_vec());
    bufs.push(b"ok\0\0".to_vec());
    bufs.push(b"abcd\0\0\0\0".to_vec());
    bufs.push("é€😀\0\0".as_bytes().to_vec());
    let d_enum = tier.pick(3, 4);
    let d_clos = tier.pick(6, 10);
    let per: Vec<(xs::Stats, xs::Stats)> = bufs
        .par_iter()
        .map(|b| {
            let f = |h: &[Req]| run_hist(b, h);
            let mut e = xs::enumerate(&reqs, d_enum, &f);
            // the same buffer 1, 2 and 3 bytes off a word boundary, one step shallower
            for mis in 1..4 {
                let fm = |h: &[Req]| run_hist_misaligned(b, h, mis);
                let em = xs::enumerate(&reqs, d_enum - 1, &fm);
                e.viols.extend(em.viols);
                e.transitions += em.transitions;
                e.histories_replayed += em.histories_replayed;
            }
            (e, xs::closure(&reqs, d_clos, 100_000, &f))
        })
        .collect();
    let mut states = 0u64;
    let mut trans = 0u64;
    let mut hists = 0u64;
    let mut fix = 0u64;
    let mut samples = vec![];
    let mut oc: BTreeMap<String, u64> = BTreeMap::new();
    for (i, (a, b)) in per.iter().enumerate() {
        states += b.states.max(a.states);
        trans += a.transitions + b.transitions;
        hists += a.histories_replayed + b.histories_replayed;
        if b.depth_completed == usize::MAX {
            fix += 1;
        }
        for st in [a, b] {
            for (k, n) in &st.outcomes {
                *oc.entry(k.clone()).or_insert(0) += n;
            }
            for v in &st.viols {
                let mut v2 = v.clone();
                v2.key = root_key(v);
                run.add(v2);
            }
        }
        if i % 400 == 7 && samples.len() < 5 {
            samples.push(json!({"buffer": hex(&bufs[i]), "histories": b.sample_histories}));
        }
    }
    run.merge_outcomes(&oc);
    // U-scale: large buffers (strings and word runs around 2^16 words / 2^16, 2^18, 2^24 bytes)
    let (scale_n, scale_v) = crate::checks::c11_scale::run(tier);
    for v in scale_v {
        let mut v2 = v.clone();
        v2.key = format!("{}:scale", root_key(&v));
        run.add(v2);
    }
    run.outcome("histories_on_large_buffers", scale_n);
    hists += scale_n;
    trans += scale_n;
    run.set("states", json!(states));
    run.set("transitions", json!(trans));
    run.set("traces_validated_against_impl", json!(hists));
    run.set("max_depth", json!(d_clos));
    run.set("bounds", json!({"buffers": bufs.len(), "buffer_universe": format!("every byte string of length 0..{} over {{00,02,FF}}{} + 4 hand-picked", tier.pick(6, 8), tier.pick("", " + every string of length 0..6 over {00,C3,A9} with a high byte")),
        "requests": reqs.iter().map(req_str).collect::<Vec<_>>(), "full_enumeration_depth": d_enum, "closure_depth": d_clos}));
    run.set("bound_completed", json!({"enumeration_depth": d_enum, "closure_depth": d_clos, "buffers_whose_closure_reached_a_fixpoint": fix}));
    run.set("exhaustive", json!(true));
    run.set("samples", json!(samples));
    run.set("rule", json!("per buffer: state = request history replayed on a fresh real Decoder in lock-step with the A.7 model (offset, limit budget, interval of the possibly-charged internal counter); closure key = (offset, limit interval and budget capped at 5 words, more than any buffer holds)"));
    run.assume("decoder behaviour depends only on (bytes, offset, limit); limits above 5 words behave alike on buffers of <= 9 bytes");
    for o in ["word_ok", "word_err_limit", "word_err_stream", "string_ok", "string_err_limit", "string_err_utf8", "enum_ok", "enum_err_unknown", "words_ok", "words_err"] {
        run.require_outcome(o);
    }
    run
}
