//! C09 — grammar tables are total, unique and match the snapshot (shape E, complete for the core table).
use crate::golden::{golden, GExt, Quant};
use crate::report::{viol, Run, Tier};
use rspirv::grammar as g;
use rspirv::spirv;
use serde_json::json;
use std::collections::BTreeSet;

fn q(x: g::OperandQuantifier) -> Quant {
    match x {
        g::OperandQuantifier::One => Quant::One,
        g::OperandQuantifier::ZeroOrOne => Quant::ZeroOrOne,
        g::OperandQuantifier::ZeroOrMore => Quant::ZeroOrMore,
    }
}

fn ops(l: &[g::LogicalOperand]) -> Vec<(String, Quant)> {
    l.iter().map(|o| (format!("{:?}", o.kind), q(o.quantifier))).collect()
}

fn well_formed(ops: &[(String, Quant)]) -> Result<(), String> {
    let n_rt = ops.iter().filter(|o| o.0 == "IdResultType").count();
    let n_rid = ops.iter().filter(|o| o.0 == "IdResult").count();
    if n_rt > 1 {
        return Err("more than one result type".into());
    }
    if n_rid > 1 {
        return Err("more than one result id".into());
    }
    if n_rt == 1 && ops[0].0 != "IdResultType" {
        return Err("result type is not the first operand".into());
    }
    if n_rid == 1 {
        let want = n_rt; // index 0 without a result type, index 1 right after it
        if ops.get(want).map(|o| o.0.as_str()) != Some("IdResult") {
            return Err("result id is not at the front / right after the result type".into());
        }
    }
    for o in ops.iter().filter(|o| o.0 == "IdResultType" || o.0 == "IdResult") {
        if o.1 != Quant::One {
            return Err("result type / result id must be required".into());
        }
    }
    let mut seen_opt = false;
    for (i, o) in ops.iter().enumerate() {
        match o.1 {
            Quant::One => {
                if seen_opt {
                    return Err(format!("required operand #{} after an optional one", i));
                }
            }
            Quant::ZeroOrOne => seen_opt = true,
            Quant::ZeroOrMore => {
                seen_opt = true;
                if i + 1 != ops.len() {
                    return Err(format!("variadic operand #{} is not last", i));
                }
            }
        }
    }
    Ok(())
}

/// what every lookup of the three tables answers, as one string; `order` picks the table to start with and the direction
pub fn fingerprint(order: usize) -> String {
    let mut parts: [String; 3] = [String::new(), String::new(), String::new()];
    let nums: Vec<u32> = if (order / 3) % 2 == 0 { (0..=260u32).rev().collect() } else { (0..=260u32).collect() };
    for k in 0..3 {
        let t = (order + k) % 3;
        let mut o = String::new();
        match t {
            0 => {
                for &n in &nums {
                    o.push_str(g::OpenCLStd100InstructionTable::lookup_opcode(n).map_or("-", |e| e.opname));
                    o.push(';');
                }
            }
            1 => {
                for &n in &nums {
                    o.push_str(g::GlslStd450InstructionTable::lookup_opcode(n).map_or("-", |e| e.opname));
                    o.push(';');
                }
            }
            _ => {
                let core: Vec<u16> = if (order / 3) % 2 == 0 { (0..=7000u16).rev().collect() } else { (0..=7000u16).collect() };
                for n in core {
                    o.push_str(g::CoreInstructionTable::lookup_opcode(n).map_or("-", |e| e.opname));
                    o.push(';');
                }
            }
        }
        parts[t] = o;
    }
    // direction-independent form: the per-number answers sorted back into ascending order
    let norm = |s: &str, rev: bool| -> String {
        let mut v: Vec<&str> = s.split(';').filter(|x| !x.is_empty()).collect();
        if rev {
            v.reverse();
        }
        v.join(";")
    };
    let rev = (order / 3) % 2 == 0;
    format!("{}|{}|{}", norm(&parts[0], rev), norm(&parts[1], rev), norm(&parts[2], rev))
}

/// `vcheck --c09-first-use`: 16 threads released together make the FIRST grammar lookups of this process; each prints
/// the fingerprint of what it was answered
pub fn first_use_probe() {
    let n = 16;
    // a spinning barrier: the threads leave it within nanoseconds of each other (a blocking barrier wakes them one by one)
    let arrived = std::sync::Arc::new(std::sync::atomic::AtomicUsize::new(0));
    let hs: Vec<_> = (0..n)
        .map(|i| {
            let a = arrived.clone();
            std::thread::spawn(move || {
                a.fetch_add(1, std::sync::atomic::Ordering::AcqRel);
                while a.load(std::sync::atomic::Ordering::Acquire) < n {
                    std::hint::spin_loop();
                }
                // first: every entry of one table (thread i: table i % 3), LAST entry first, must be found under its own
                // number at once (iter() only reads the static table)
                let mut early = String::new();
                match i % 3 {
                    0 => {
                        let t: Vec<_> = g::OpenCLStd100InstructionTable::iter().collect();
                        for e in t.iter().rev() {
                            if g::OpenCLStd100InstructionTable::lookup_opcode(e.opcode).map(|x| x.opname) != Some(e.opname) {
                                early = format!("OpenCL.std {} ({}) not found by the first lookups of thread {}", e.opcode, e.opname, i);
                                break;
                            }
                        }
                    }
                    1 => {
                        let t: Vec<_> = g::GlslStd450InstructionTable::iter().collect();
                        for e in t.iter().rev() {
                            if g::GlslStd450InstructionTable::lookup_opcode(e.opcode).map(|x| x.opname) != Some(e.opname) {
                                early = format!("GLSL.std.450 {} ({}) not found by the first lookups of thread {}", e.opcode, e.opname, i);
                                break;
                            }
                        }
                    }
                    _ => {
                        let t: Vec<_> = g::CoreInstructionTable::iter().collect();
                        for e in t.iter().rev() {
                            if g::CoreInstructionTable::lookup_opcode(e.opcode as u16).map(|x| x.opname) != Some(e.opname) {
                                early = format!("core opcode {} ({}) not found by the first lookups of thread {}", e.opcode as u16, e.opname, i);
                                break;
                            }
                        }
                    }
                }
                if !early.is_empty() {
                    return format!("EARLY {}", early);
                }
                fingerprint(i)
            })
        })
        .collect();
    for h in hs {
        match h.join() {
            Ok(f) => println!("{}", f),
            Err(_) => println!("PANIC"),
        }
    }
}

pub fn run(tier: Tier) -> Run {
    let gd = golden();
    let mut run = Run::new("C09", tier, "exploration");
    let mut evals = 0u64;
    let mut nontrivial = 0u64;
    // 0. SUPPLEMENTARY, SAMPLED (not exhaustive, decides nothing by itself): fresh processes in which 16 threads make the
    //    first lookups of the process at the same moment; every thread must be answered exactly what a single thread is
    //    answered later. The tables of the tree as it stands are immutable statics; this only guards against a lazily
    //    built index being published before it is complete. (The schedules are whatever the OS produces.)
    {
        let want = fingerprint(3);
        let runs = tier.pick(150, 1500);
        let exe = std::env::current_exe().ok();
        let mut bad = 0u64;
        let mut done = 0u64;
        if let Some(exe) = exe {
            use rayon::prelude::*;
            // one process at a time: its 16 threads get the 16 cores to themselves
            let outs: Vec<Option<String>> = (0..runs).map(|_| std::process::Command::new(&exe).arg("--c09-first-use").output().ok().map(|o| String::from_utf8_lossy(&o.stdout).to_string())).collect();
            for o in outs.into_iter().flatten() {
                done += 1;
                for (ti, line) in o.lines().enumerate() {
                    if line != want {
                        bad += 1;
                        if bad <= 2 {
                            let pos = line.split(';').zip(want.split(';')).position(|(a, b)| a != b);
                            run.add(viol("C09:concurrent-first-use", format!("in a fresh process, thread {} of 16 making the first lookups concurrently was answered differently from a single thread (first differing answer at position {:?}: {:?})", ti, pos, pos.and_then(|p| line.split(';').nth(p))), json!({"kind": "c09-first-use"})));
                        }
                    }
                }
            }
        }
        run.outcome("sampled_concurrent_first_use_processes", done);
        evals += done * 16;
    }
    // 0b. repetition: the same declared number looked up 300 times (and a few 70 000 times), then its neighbours: a lookup
    //     must not depend on how often an entry was used before
    {
        let tables: [(&str, Vec<u32>, Box<dyn Fn(u32) -> Option<&'static str> + Sync>); 3] = [
            ("OpenCL.std", gd.opencl.iter().map(|e| e.opcode).collect(), Box::new(|n| g::OpenCLStd100InstructionTable::lookup_opcode(n).map(|e| e.opname))),
            ("GLSL.std.450", gd.glsl.iter().map(|e| e.opcode).collect(), Box::new(|n| g::GlslStd450InstructionTable::lookup_opcode(n).map(|e| e.opname))),
            ("core", gd.insts.iter().map(|i| i.opcode as u32).collect(), Box::new(|n| if n <= 0xFFFF { g::CoreInstructionTable::lookup_opcode(n as u16).map(|e| e.opname) } else { None })),
        ];
        for (tn, declared, look) in &tables {
            let sequential: std::collections::HashMap<u32, Option<&'static str>> = declared.iter().flat_map(|&n| [n.wrapping_sub(1), n, n + 1]).map(|n| (n, look(n))).collect();
            for (i, &n) in declared.iter().enumerate() {
                let reps = if i % 40 == 0 { 70_000 } else { 300 };
                for _ in 0..reps {
                    let _ = look(n);
                }
                evals += reps as u64;
                for m in [n + 1, n.wrapping_sub(1), n] {
                    let got = look(m);
                    if got != sequential[&m] {
                        run.add(viol(format!("C09:{}:after-repetition", tn), format!("{}: lookup_opcode({}) after {} lookups of {} gives {:?}, otherwise {:?}", tn, m, reps, n, got, sequential[&m]), json!({"kind": "c09-repetition", "table": tn, "repeated": n, "then": m, "times": reps})));
                    }
                }
            }
        }
    }

    // 1. all 65 536 opcode numbers
    for n in 0..=u16::MAX {
        evals += 1;
        let got = g::CoreInstructionTable::lookup_opcode(n);
        let want = gd.lookup(n);
        match (got, want) {
            (None, None) => run.outcome("lookup_none", 1),
            (Some(e), Some(w)) => {
                nontrivial += 1;
                run.outcome("lookup_some", 1);
                if e.opcode as u32 != n as u32 || e.opname != w.name {
                    run.add(viol(
                        format!("C09:core:{}:identity", w.name),
                        format!("lookup_opcode({}) returned entry {:?}/{} instead of {}", n, e.opcode, e.opname, w.name),
                        json!({"kind": "c09-lookup", "opcode": n}),
                    ));
                }
            }
            (Some(e), None) => run.add(viol(
                format!("C09:core:#{}:lookup", n),
                format!("lookup_opcode({}) found entry {} for an undeclared opcode number", n, e.opname),
                json!({"kind": "c09-lookup", "opcode": n}),
            )),
            (None, Some(w)) => run.add(viol(
                format!("C09:core:{}:lookup", w.name),
                format!("lookup_opcode({}) found nothing for declared opcode Op{}", n, w.name),
                json!({"kind": "c09-lookup", "opcode": n}),
            )),
        }
    }
    // 2. get() on every Op value: never fails, returns that opcode's entry
    for w in &gd.insts {
        evals += 1;
        let Some(op) = spirv::Op::from_u32(w.opcode as u32) else {
            run.add(viol(format!("C09:core:{}:get", w.name), "spirv::Op::from_u32 rejects a declared opcode", json!({"kind": "c09-get", "opcode": w.opcode})));
            continue;
        };
        match crate::report::guarded(|| g::CoreInstructionTable::get(op)) {
            Ok(e) => {
                if e.opcode != op || e.opname != w.name {
                    run.add(viol(format!("C09:core:{}:get", w.name), format!("get({:?}) returned entry {}", op, e.opname), json!({"kind": "c09-get", "opcode": w.opcode})));
                }
            }
            Err(p) => run.add(viol(format!("C09:core:{}:get", w.name), format!("get({:?}) panicked: {}", op, p), json!({"kind": "c09-get", "opcode": w.opcode}))),
        }
    }
    // 3. every entry through iter(): uniqueness, well-formedness, equality with the golden
    let mut seen_op = BTreeSet::new();
    let mut seen_name = BTreeSet::new();
    let mut n_entries = 0;
    for e in g::CoreInstructionTable::iter() {
        evals += 1;
        n_entries += 1;
        if !seen_op.insert(e.opcode as u32) {
            run.add(viol(format!("C09:core:{}:duplicate", e.opname), "two entries share an opcode", json!({"kind": "c09-entry", "name": e.opname})));
        }
        if !seen_name.insert(e.opname) {
            run.add(viol(format!("C09:core:{}:duplicate", e.opname), "two entries share a name", json!({"kind": "c09-entry", "name": e.opname})));
        }
        let o = ops(e.operands);
        if let Err(why) = well_formed(&o) {
            run.add(viol(format!("C09:core:{}:well-formed", e.opname), why, json!({"kind": "c09-entry", "name": e.opname})));
        }
        match gd.by_name.get(e.opname).map(|&i| &gd.insts[i]) {
            None => run.add(viol(format!("C09:core:{}:undeclared", e.opname), "entry not in the golden", json!({"kind": "c09-entry", "name": e.opname}))),
            Some(w) => {
                if w.opcode as u32 != e.opcode as u32 {
                    run.add(viol(format!("C09:core:{}:opcode", e.opname), format!("opcode {} vs golden {}", e.opcode as u32, w.opcode), json!({"kind": "c09-entry", "name": e.opname})));
                }
                if o != w.operands {
                    run.add(viol(format!("C09:core:{}:operands", e.opname), format!("operands {:?} vs golden {:?}", o, w.operands), json!({"kind": "c09-entry", "name": e.opname})));
                }
                let caps: Vec<String> = e.capabilities.iter().map(|c| format!("{:?}", c)).collect();
                if caps != w.caps {
                    run.add(viol(format!("C09:core:{}:capabilities", e.opname), format!("{:?} vs golden {:?}", caps, w.caps), json!({"kind": "c09-entry", "name": e.opname})));
                }
                let exts: Vec<String> = e.extensions.iter().map(|c| c.to_string()).collect();
                if exts != w.exts {
                    run.add(viol(format!("C09:core:{}:extensions", e.opname), format!("{:?} vs golden {:?}", exts, w.exts), json!({"kind": "c09-entry", "name": e.opname})));
                }
            }
        }
    }
    if n_entries != gd.insts.len() {
        run.add(viol("C09:core:count", format!("table has {} entries, golden {}", n_entries, gd.insts.len()), json!({"kind": "c09-entry"})));
    }
    // golden entries are well-formed too (sanity of the oracle)
    for w in &gd.insts {
        if well_formed(&w.operands).is_err() {
            run.machinery(format!("golden entry {} is not well-formed", w.name));
        }
    }

    // 4. extended instruction tables
    fn ext_check(
        run: &mut Run,
        set: &str,
        gold: &[GExt],
        lookup: &dyn Fn(u32) -> Option<&'static g::ExtendedInstruction<'static>>,
        enum_accepts: &dyn Fn(u32) -> bool,
        get: &dyn Fn(u32) -> Option<&'static g::ExtendedInstruction<'static>>,
        iter: Vec<&'static g::ExtendedInstruction<'static>>,
        evals: &mut u64,
        nontrivial: &mut u64,
    ) {
        let mut nums: BTreeSet<u32> = (0..=0xFFFFu32).collect();
        for e in gold {
            nums.insert(e.opcode.wrapping_add(1));
            nums.insert(e.opcode.wrapping_sub(1));
            nums.insert(e.opcode | 0x10000);
            nums.insert(e.opcode | 0x8000_0000);
        }
        nums.insert(u32::MAX);
        for n in nums {
            *evals += 1;
            let want = gold.iter().find(|e| e.opcode == n);
            let got = lookup(n);
            if got.is_some() != want.is_some() {
                run.add(viol(format!("C09:{}:#{}:lookup", set, n), format!("{} lookup_opcode({}) is_some = {}, declared = {}", set, n, got.is_some(), want.is_some()), json!({"kind": "c09-ext", "set": set, "number": n})));
            }
            if enum_accepts(n) != want.is_some() {
                run.add(viol(format!("C09:{}:#{}:enum", set, n), format!("{} opcode enumeration accepts {} = {}, table declares = {}", set, n, enum_accepts(n), want.is_some()), json!({"kind": "c09-ext", "set": set, "number": n})));
            }
            if let (Some(e), Some(w)) = (got, want) {
                *nontrivial += 1;
                if e.opcode != n || e.opname != w.name {
                    run.add(viol(format!("C09:{}:{}:identity", set, w.name), format!("lookup_opcode({}) returned {}/{}", n, e.opcode, e.opname), json!({"kind": "c09-ext", "set": set, "number": n})));
                }
                match crate::report::guarded(|| get(n)) {
                    Ok(Some(e2)) if e2.opcode == n && e2.opname == w.name => {}
                    other => run.add(viol(format!("C09:{}:{}:get", set, w.name), format!("get({}) gave {:?}", n, other.map(|o| o.map(|e| e.opname))), json!({"kind": "c09-ext", "set": set, "number": n}))),
                }
            }
        }
        let mut so = BTreeSet::new();
        let mut sn = BTreeSet::new();
        if iter.len() != gold.len() {
            run.add(viol(format!("C09:{}:count", set), format!("{} entries vs golden {}", iter.len(), gold.len()), json!({"kind": "c09-ext", "set": set})));
        }
        for e in iter {
            *evals += 1;
            if !so.insert(e.opcode) || !sn.insert(e.opname) {
                run.add(viol(format!("C09:{}:{}:duplicate", set, e.opname), "duplicate number or name", json!({"kind": "c09-ext", "set": set})));
            }
            let o = ops(e.operands);
            if let Err(why) = well_formed(&o) {
                run.add(viol(format!("C09:{}:{}:well-formed", set, e.opname), why, json!({"kind": "c09-ext", "set": set})));
            }
            if let Some(w) = gold.iter().find(|w| w.name == e.opname) {
                let caps: Vec<String> = e.capabilities.iter().map(|c| format!("{:?}", c)).collect();
                let exts: Vec<String> = e.extensions.iter().map(|c| c.to_string()).collect();
                if w.opcode != e.opcode || o != w.operands || caps != w.caps || exts != w.exts {
                    run.add(viol(format!("C09:{}:{}:entry", set, e.opname), format!("entry differs from golden: {} {:?} {:?} {:?}", e.opcode, o, caps, exts), json!({"kind": "c09-ext", "set": set})));
                }
            } else {
                run.add(viol(format!("C09:{}:{}:undeclared", set, e.opname), "entry not in the golden", json!({"kind": "c09-ext", "set": set})));
            }
        }
    }
    ext_check(
        &mut run,
        "GLSL.std.450",
        &gd.glsl,
        &|n| g::GlslStd450InstructionTable::lookup_opcode(n),
        &|n| spirv::GLOp::from_u32(n).is_some(),
        &|n| spirv::GLOp::from_u32(n).map(g::GlslStd450InstructionTable::get),
        g::GlslStd450InstructionTable::iter().collect(),
        &mut evals,
        &mut nontrivial,
    );
    ext_check(
        &mut run,
        "OpenCL.std",
        &gd.opencl,
        &|n| g::OpenCLStd100InstructionTable::lookup_opcode(n),
        &|n| spirv::CLOp::from_u32(n).is_some(),
        &|n| spirv::CLOp::from_u32(n).map(g::OpenCLStd100InstructionTable::get),
        g::OpenCLStd100InstructionTable::iter().collect(),
        &mut evals,
        &mut nontrivial,
    );

    // every ordered pair of declared opcodes looked up one after the other (a lookup must not depend on the previous one)
    {
        use rayon::prelude::*;
        let ops: Vec<(u16, String)> = gd.insts.iter().map(|i| (i.opcode, i.name.clone())).collect();
        let bad: Vec<crate::report::Viol> = ops
            .par_iter()
            .filter_map(|(a, an)| {
                for (b, bn) in &ops {
                    let _ = g::CoreInstructionTable::lookup_opcode(*a);
                    let got = crate::report::guarded(|| g::CoreInstructionTable::lookup_opcode(*b).map(|e| e.opname)).unwrap_or(None);
                    if got != Some(bn.as_str()) {
                        return Some(viol(format!("C09:core:pair:{}", bn), format!("lookup_opcode({}) directly after lookup_opcode({}) [Op{}] gives {:?}, declared Op{}", b, a, an, got, bn), json!({"kind": "c09-pair", "first": a, "second": b})));
                    }
                    if let (Some(oa), Some(ob)) = (spirv::Op::from_u32(*a as u32), spirv::Op::from_u32(*b as u32)) {
                        let _ = crate::report::guarded(|| g::CoreInstructionTable::get(oa).opname);
                        let got = crate::report::guarded(|| g::CoreInstructionTable::get(ob).opname).ok();
                        if got != Some(bn.as_str()) {
                            return Some(viol(format!("C09:core:pair:{}", bn), format!("get(Op{}) directly after get(Op{}) gives {:?}", bn, an, got), json!({"kind": "c09-pair", "first": a, "second": b})));
                        }
                    }
                }
                None
            })
            .collect();
        evals += (ops.len() * ops.len() * 2) as u64;
        for v in bad.into_iter().take(10) {
            run.add(v);
        }
    }
    // every declared opcode a against EVERY 16-bit number b, in both orders (a memo keyed on part of the number shows up as
    // an alias between a declared and an undeclared number)
    {
        use rayon::prelude::*;
        let alone: Vec<Option<&'static str>> = (0..=u16::MAX).map(|n| g::CoreInstructionTable::lookup_opcode(n).map(|e| e.opname)).collect();
        let ops: Vec<u16> = gd.insts.iter().map(|i| i.opcode).collect();
        let bad: Vec<crate::report::Viol> = ops
            .par_iter()
            .filter_map(|&a| {
                for b in 0..=u16::MAX {
                    let _ = g::CoreInstructionTable::lookup_opcode(a);
                    let got = g::CoreInstructionTable::lookup_opcode(b).map(|e| e.opname);
                    if got != alone[b as usize] {
                        return Some(viol("C09:core:after-declared", format!("lookup_opcode({}) directly after lookup_opcode({}) gives {:?}, alone {:?}", b, a, got, alone[b as usize]), json!({"kind": "c09-pair", "first": a, "second": b})));
                    }
                    let got = g::CoreInstructionTable::lookup_opcode(a).map(|e| e.opname);
                    if got != alone[a as usize] {
                        return Some(viol("C09:core:after-any", format!("lookup_opcode({}) directly after lookup_opcode({}) gives {:?}, alone {:?}", a, b, got, alone[a as usize]), json!({"kind": "c09-pair", "first": b, "second": a})));
                    }
                }
                None
            })
            .collect();
        evals += ops.len() as u64 * 65536 * 2;
        for v in bad.into_iter().take(5) {
            run.add(v);
        }
        // the same for the two extended tables over 0..=4095 x declared
        for (tn, declared, look) in [
            ("OpenCL.std", gd.opencl.iter().map(|e| e.opcode).collect::<Vec<u32>>(), (|n| g::OpenCLStd100InstructionTable::lookup_opcode(n).map(|e| e.opname)) as fn(u32) -> Option<&'static str>),
            ("GLSL.std.450", gd.glsl.iter().map(|e| e.opcode).collect::<Vec<u32>>(), (|n| g::GlslStd450InstructionTable::lookup_opcode(n).map(|e| e.opname)) as fn(u32) -> Option<&'static str>),
        ] {
            let alone: Vec<Option<&'static str>> = (0..4096u32).map(look).collect();
            'outer: for &a in &declared {
                for b in 0..4096u32 {
                    let _ = look(a);
                    if look(b) != alone[b as usize] || look(a) != alone[a as usize] {
                        run.add(viol(format!("C09:{}:after-declared", tn), format!("{}: lookups of {} and {} one after the other differ from the lookups alone", tn, a, b), json!({"kind": "c09-pair", "table": tn, "first": a, "second": b})));
                        break 'outer;
                    }
                    evals += 3;
                }
            }
        }
    }
    // SUPPLEMENTARY, SAMPLED: 16 threads look different declared numbers up at the same time for a short while (steady state,
    // after every lazily built structure is complete); each answer must be the entry of the number asked for
    {
        let wrong = std::sync::atomic::AtomicU64::new(0);
        let asked = std::sync::atomic::AtomicU64::new(0);
        let cl: Vec<(u32, &str)> = gd.opencl.iter().map(|e| (e.opcode, e.name.as_str())).collect();
        let gl: Vec<(u32, &str)> = gd.glsl.iter().map(|e| (e.opcode, e.name.as_str())).collect();
        let co: Vec<(u16, &str)> = gd.insts.iter().map(|e| (e.opcode, e.name.as_str())).collect();
        let rounds = tier.pick(300, 3000);
        std::thread::scope(|sc| {
            for t in 0..16usize {
                let (cl, gl, co, wrong, asked) = (&cl, &gl, &co, &wrong, &asked);
                sc.spawn(move || {
                    let mut n = 0u64;
                    let mut w = 0u64;
                    for r in 0..rounds {
                        for k in 0..cl.len() {
                            let (num, name) = cl[(k * (t + 1) + r) % cl.len()];
                            n += 1;
                            if g::OpenCLStd100InstructionTable::lookup_opcode(num).map(|e| e.opname) != Some(name) {
                                w += 1;
                            }
                        }
                        for k in 0..gl.len() {
                            let (num, name) = gl[(k * (t + 1) + r) % gl.len()];
                            n += 1;
                            if g::GlslStd450InstructionTable::lookup_opcode(num).map(|e| e.opname) != Some(name) {
                                w += 1;
                            }
                        }
                        for k in (t..co.len()).step_by(7) {
                            let (num, name) = co[(k + r) % co.len()];
                            n += 1;
                            if g::CoreInstructionTable::lookup_opcode(num).map(|e| e.opname) != Some(name) {
                                w += 1;
                            }
                        }
                    }
                    wrong.fetch_add(w, std::sync::atomic::Ordering::Relaxed);
                    asked.fetch_add(n, std::sync::atomic::Ordering::Relaxed);
                });
            }
        });
        let (w, n) = (wrong.into_inner(), asked.into_inner());
        run.outcome("sampled_concurrent_steady_state_lookups", n);
        evals += n;
        if w > 0 {
            run.add(viol("C09:concurrent-steady-state", format!("{} of {} lookups made by 16 threads at the same time returned the entry of another number (or none)", w, n), json!({"kind": "c09-concurrent"})));
        }
    }
    // lookups made WHILE A THREAD EXITS (from the destructor of a thread-local of the caller): the tables are static data, so a
    // lookup there must answer like anywhere else. Enumerated: {guard first touched before / after the thread's first lookups}
    // x {each table} x every declared number; a panic inside the destructor is caught there (it would abort the process).
    {
        use std::sync::{Arc, Mutex};
        type Log = Arc<Mutex<Vec<String>>>;
        struct Guard(Option<(Log, Vec<(u32, String)>, Vec<(u32, String)>, Vec<(u16, String)>)>);
        impl Drop for Guard {
            fn drop(&mut self) {
                if let Some((log, cl, gl, co)) = self.0.take() {
                    let r = std::panic::catch_unwind(std::panic::AssertUnwindSafe(|| {
                        let mut bad = vec![];
                        for (num, name) in &cl {
                            if g::OpenCLStd100InstructionTable::lookup_opcode(*num).map(|e| e.opname) != Some(name.as_str()) { bad.push(format!("OpenCL.std:#{}", num)); }
                        }
                        for (num, name) in &gl {
                            if g::GlslStd450InstructionTable::lookup_opcode(*num).map(|e| e.opname) != Some(name.as_str()) { bad.push(format!("GLSL.std.450:#{}", num)); }
                        }
                        for (num, name) in &co {
                            if g::CoreInstructionTable::lookup_opcode(*num).map(|e| e.opname) != Some(name.as_str()) { bad.push(format!("core:#{}", num)); }
                        }
                        bad
                    }));
                    let mut l = log.lock().unwrap_or_else(|e| e.into_inner());
                    match r {
                        Ok(bad) => { for b in bad.into_iter().take(3) { l.push(format!("wrong:{}", b)); } l.push("done".into()); }
                        Err(_) => l.push(format!("panic:{}", crate::report::LAST_PANIC_ANYWHERE.lock().ok().and_then(|g| g.clone()).unwrap_or_default())),
                    }
                }
            }
        }
        thread_local! { static TEARDOWN_GUARD: std::cell::RefCell<Guard> = const { std::cell::RefCell::new(Guard(None)) }; }
        let cl: Vec<(u32, String)> = gd.opencl.iter().map(|e| (e.opcode, e.name.clone())).collect();
        let gl: Vec<(u32, String)> = gd.glsl.iter().map(|e| (e.opcode, e.name.clone())).collect();
        let co: Vec<(u16, String)> = gd.insts.iter().map(|e| (e.opcode, e.name.clone())).collect();
        for guard_first in [true, false] {
            let log: Log = Arc::new(Mutex::new(vec![]));
            let (l2, cl2, gl2, co2) = (log.clone(), cl.clone(), gl.clone(), co.clone());
            let touch = |c: &[(u32, String)], g_: &[(u32, String)], o: &[(u16, String)]| {
                let _ = g::OpenCLStd100InstructionTable::lookup_opcode(c[0].0);
                let _ = g::GlslStd450InstructionTable::lookup_opcode(g_[0].0);
                let _ = g::CoreInstructionTable::lookup_opcode(o[0].0);
            };
            let h = std::thread::spawn(move || {
                if !guard_first { touch(&cl2, &gl2, &co2); }
                let (c3, g3, o3) = (cl2.clone(), gl2.clone(), co2.clone());
                TEARDOWN_GUARD.with(|g_| *g_.borrow_mut() = Guard(Some((l2, cl2, gl2, co2))));
                if guard_first { touch(&c3, &g3, &o3); }
            });
            let _ = h.join();
            let l = log.lock().unwrap_or_else(|e| e.into_inner()).clone();
            evals += (cl.len() + gl.len() + co.len()) as u64;
            run.outcome("lookups_during_thread_teardown", (cl.len() + gl.len() + co.len()) as u64);
            for e in l.iter().filter(|e| e.as_str() != "done") {
                let kind = if e.starts_with("panic") { "panic" } else { "wrong" };
                run.add(viol(format!("C09:thread-teardown:{}", kind), format!("lookups made from a thread-local destructor while the thread exits (guard first touched {} the thread's first lookups): {}", if guard_first { "before" } else { "after" }, e), json!({"kind": "c09-thread-teardown", "guard_first": guard_first})));
            }
            if l.is_empty() {
                run.add(viol("C09:thread-teardown:no-answer", "the thread-local destructor making the lookups did not report (process-level failure during thread exit)".to_string(), json!({"kind": "c09-thread-teardown", "guard_first": guard_first})));
            }
        }
    }
    // interleaved lookups: the same number through one table, then the other, then the first again
    for n in (0..=0xFFFFu32).chain([0x1_0000, 0x1_001F, u32::MAX]) {
        evals += 3;
        let wg = gd.glsl.iter().find(|e| e.opcode == n).map(|e| e.name.as_str());
        let wc = gd.opencl.iter().find(|e| e.opcode == n).map(|e| e.name.as_str());
        let g1 = g::GlslStd450InstructionTable::lookup_opcode(n).map(|e| e.opname);
        let c1 = g::OpenCLStd100InstructionTable::lookup_opcode(n).map(|e| e.opname);
        let g2 = g::GlslStd450InstructionTable::lookup_opcode(n).map(|e| e.opname);
        if g1 != wg || g2 != wg || c1 != wc {
            run.add(viol(format!("C09:ext:#{}:interleaved", n), format!("number {}: GLSL {:?} / OpenCL {:?} / GLSL again {:?}; declared GLSL {:?}, OpenCL {:?}", n, g1, c1, g2, wg, wc), json!({"kind": "c09-ext-interleaved", "number": n})));
        }
    }
    run.set("evaluations", json!(evals));
    run.set("distinct_nontrivial", json!(nontrivial));
    run.set("rule", json!("every 16-bit opcode number through lookup_opcode; every declared Op through get; every table entry through iter; ext-inst numbers [0,2^16) plus each declared number +-1, |2^16, |2^31 and u32::MAX through lookup/get and the GLOp/CLOp enumerations. non-trivial = numbers for which an entry exists (distinct entries compared field by field with the golden)"));
    run.set("exhaustive", json!(true));
    run.set("bounds", json!({"core_opcode_numbers": 65536, "core_entries": gd.insts.len(), "ext_inst_numbers": "[0,2^16) + boundary set; the full 2^32 x linear search (4e11 comparisons) is not attempted", "glsl_entries": gd.glsl.len(), "opencl_entries": gd.opencl.len()}));
    run.set("samples", json!([
        {"lookup_opcode": 128, "gives": g::CoreInstructionTable::lookup_opcode(128).map(|e| e.opname)},
        {"lookup_opcode": 9, "gives": g::CoreInstructionTable::lookup_opcode(9).map(|e| e.opname)},
        {"glsl lookup_opcode": 81, "gives": g::GlslStd450InstructionTable::lookup_opcode(81).map(|e| e.opname)},
        {"opencl lookup_opcode": 111, "gives": g::OpenCLStd100InstructionTable::lookup_opcode(111).map(|e| e.opname)}
    ]));
    run.assume("golden snapshot equals the Khronos grammar of the pinned SDK release to the extent DESIGN.md section 3 argues");
    run.require_outcome("lookup_some");
    run.require_outcome("lookup_none");
    run
}
