//! C18 — lifting preserves module structure on the supported subset (shape B).
//! The lifted module is read structurally through its `Debug` rendering (all SR types are Debug; tokens print as Token(n)).
use crate::golden::{golden, GInst, Quant};
use crate::model::{self, enc, Arg, Inst};
use crate::report::{guarded, viol, Run, Tier, Viol};
use crate::universe::{self, class_of, Class};
use rayon::prelude::*;
use rspirv::dr;
use rspirv::lift::LiftContext;
use serde_json::json;
use std::collections::BTreeMap;

// ------------------------------------------------------------------ Debug lexer

#[derive(Clone, Debug, PartialEq)]
pub enum Atom {
    Int(u64),
    Neg(i64),
    Float(String),
    Token(u32),
    Str(String),
    Word(String),
}

/// lexes a Debug rendering into leaves: field names, `Some`, punctuation and `|` are structure, not leaves
pub fn lex(s: &str) -> Vec<Atom> {
    let cs: Vec<char> = s.chars().collect();
    let mut out = vec![];
    let mut i = 0;
    while i < cs.len() {
        let c = cs[i];
        if c == '"' {
            let mut j = i + 1;
            let mut raw = String::from("\"");
            while j < cs.len() {
                raw.push(cs[j]);
                if cs[j] == '\\' {
                    j += 1;
                    raw.push(cs[j]);
                } else if cs[j] == '"' {
                    break;
                }
                j += 1;
            }
            out.push(Atom::Str(crate::disasm_ref::unquote(&raw).unwrap_or(raw)));
            i = j + 1;
        } else if c == '-' && cs[i + 1..].iter().collect::<String>().starts_with("inf") {
            // Debug of f32::NEG_INFINITY
            out.push(Atom::Float("-inf".into()));
            i += 4;
        } else if c.is_ascii_alphabetic() || c == '_' {
            let mut j = i;
            while j < cs.len() && (cs[j].is_ascii_alphanumeric() || cs[j] == '_') {
                j += 1;
            }
            let w: String = cs[i..j].iter().collect();
            if j < cs.len() && cs[j] == ':' {
                // field name
            } else if w == "Token" && j < cs.len() && cs[j] == '(' {
                let mut k = j + 1;
                while k < cs.len() && cs[k].is_ascii_digit() {
                    k += 1;
                }
                out.push(Atom::Token(cs[j + 1..k].iter().collect::<String>().parse().unwrap_or(u32::MAX)));
                j = k + 1;
            } else if w == "Some" {
            } else {
                out.push(Atom::Word(w));
            }
            i = j;
        } else if c.is_ascii_digit() || (c == '-' && i + 1 < cs.len() && cs[i + 1].is_ascii_digit()) {
            let mut j = i + 1;
            while j < cs.len() && (cs[j].is_ascii_alphanumeric() || cs[j] == '.' || cs[j] == '-' || cs[j] == '+') {
                j += 1;
            }
            let w: String = cs[i..j].iter().collect();
            if let Some(h) = w.strip_prefix("0x") {
                out.push(Atom::Int(u64::from_str_radix(h, 16).unwrap_or(u64::MAX)));
            } else if let Ok(v) = w.parse::<u64>() {
                out.push(Atom::Int(v));
            } else if let Ok(v) = w.parse::<i64>() {
                out.push(Atom::Neg(v));
            } else {
                out.push(Atom::Float(w));
            }
            i = j;
        } else {
            i += 1;
        }
    }
    out
}

// ------------------------------------------------------------------ expected leaves

#[derive(Clone, Debug)]
pub enum Exp {
    /// an id: the raw number, or a token of the referenced type / constant
    Id(u32),
    Int(u64),
    Word(String),
    Str(String),
    /// a mask: kind word, then the set bit names (or the number 0)
    Mask(String, Vec<String>),
    None,
}

fn bit_names(kind: &str, bits: u32) -> Vec<String> {
    let g = golden();
    g.masks[kind].bits.iter().filter(|b| b.1 != 0 && bits & b.1 != 0).map(|b| b.0.clone()).collect()
}

fn exp_of_arg(a: &Arg) -> Vec<Exp> {
    let g = golden();
    match a {
        Arg::IdRef(v) | Arg::IdScope(v) | Arg::IdMemSem(v) => vec![Exp::Id(*v)],
        Arg::Lit32(v) => vec![Exp::Int(*v as u64)],
        Arg::Lit64(v) => vec![Exp::Int(*v)],
        Arg::ExtInstNo(v) => vec![Exp::Int(*v as u64)],
        Arg::Enum(k, n) => vec![Exp::Word(g.enums[*k].name_of(*n).unwrap_or("?").to_string())],
        Arg::Mask(k, b) => vec![Exp::Mask(k.to_string(), bit_names(k, *b))],
        Arg::SpecOp(o) => vec![Exp::Word(model::opname(*o))],
        Arg::Str(s) => vec![Exp::Str(s.clone())],
    }
}

/// expected leaves of the operands of `i` in grammar order: absent optional operands are `None` leaves
pub fn expected_leaves(gi: &GInst, i: &Inst) -> Vec<Exp> {
    let g = golden();
    let mut out = vec![];
    let mut idx = 0usize;
    let width = |kind: &str, args: &[Arg], at: usize| -> usize {
        if kind.starts_with("Pair") {
            2
        } else if g.params.contains_key(kind) {
            1 + match args.get(at) {
                Some(Arg::Enum(k, n)) => g.enum_params(k, *n).len(),
                Some(Arg::Mask(k, b)) => g.mask_params(k, *b).len(),
                _ => 0,
            }
        } else if kind == "LiteralSpecConstantOpInteger" {
            args.len() - at
        } else {
            1
        }
    };
    for (kind, q) in gi.value_operands() {
        match q {
            Quant::One => {
                let w = width(&kind, &i.args, idx);
                for a in &i.args[idx..(idx + w).min(i.args.len())] {
                    out.extend(exp_of_arg(a));
                }
                idx += w;
            }
            Quant::ZeroOrOne => {
                if idx < i.args.len() {
                    let w = width(&kind, &i.args, idx);
                    for a in &i.args[idx..(idx + w).min(i.args.len())] {
                        out.extend(exp_of_arg(a));
                    }
                    idx += w;
                } else {
                    out.push(Exp::None);
                }
            }
            Quant::ZeroOrMore => {
                while idx < i.args.len() {
                    let w = width(&kind, &i.args, idx);
                    for a in &i.args[idx..(idx + w).min(i.args.len())] {
                        out.extend(exp_of_arg(a));
                    }
                    idx += w;
                }
            }
        }
    }
    out
}

/// matches lexed atoms against expected leaves; `type_index`/`const_index`: id -> storage index
pub fn leaves_match(atoms: &[Atom], exp: &[Exp], type_index: &BTreeMap<u32, u32>, const_index: &BTreeMap<u32, u32>) -> Result<(), String> {
    let mut i = 0usize;
    for (n, e) in exp.iter().enumerate() {
        let got = atoms.get(i);
        let ok = match e {
            Exp::Id(v) => match got {
                Some(Atom::Int(x)) => *x == *v as u64,
                Some(Atom::Token(t)) => type_index.get(v) == Some(t) || const_index.get(v) == Some(t),
                _ => false,
            },
            Exp::Int(v) => matches!(got, Some(Atom::Int(x)) if x == v),
            Exp::Word(w) => matches!(got, Some(Atom::Word(x)) if x == w),
            Exp::Str(s) => matches!(got, Some(Atom::Str(x)) if x == s),
            Exp::None => matches!(got, Some(Atom::Word(x)) if x == "None"),
            Exp::Mask(k, bits) => {
                if !matches!(got, Some(Atom::Word(x)) if x == k) {
                    false
                } else if bits.is_empty() {
                    i += 1;
                    matches!(atoms.get(i), Some(Atom::Int(0)))
                } else {
                    let mut ok = true;
                    for b in bits {
                        i += 1;
                        if !matches!(atoms.get(i), Some(Atom::Word(x)) if x == b) {
                            ok = false;
                            break;
                        }
                    }
                    ok
                }
            }
        };
        if !ok {
            return Err(format!("operand leaf {} is {:?}, expected {:?}", n, atoms.get(i), e));
        }
        i += 1;
    }
    if i != atoms.len() {
        return Err(format!("{} extra leaves {:?}", atoms.len() - i, &atoms[i..]));
    }
    Ok(())
}

// ------------------------------------------------------------------ part (a): every block opcode with a result

pub const N_TYPES: u32 = 48;
pub const TYPE_BASE: u32 = 100;

/// preamble: N_TYPES distinct declared types (ids TYPE_BASE..), so that every id operand position can carry a distinct declared type id
fn preamble() -> Vec<Inst> {
    let mut v = vec![
        Inst::new("Capability", None, None, vec![Arg::Enum("Capability", 1)]),
        Inst::new("MemoryModel", None, None, vec![Arg::Enum("AddressingModel", 0), Arg::Enum("MemoryModel", 1)]),
    ];
    for j in 0..N_TYPES {
        v.push(Inst::new("TypeInt", None, Some(TYPE_BASE + j), vec![Arg::Lit32(j + 1), Arg::Lit32(0)]));
    }
    v
}

/// replaces the payload of every id argument by a distinct declared type id (by flattened position)
fn retarget_ids(i: &mut Inst) -> bool {
    let mut ok = true;
    for (p, a) in i.args.iter_mut().enumerate() {
        let nid = TYPE_BASE + 2 + p as u32;
        if p as u32 + 2 >= N_TYPES {
            ok = false;
        }
        match a {
            Arg::IdRef(v) | Arg::IdScope(v) | Arg::IdMemSem(v) => *v = nid.min(TYPE_BASE + N_TYPES - 1),
            _ => {}
        }
    }
    ok
}

fn lift_words(words: &[u32]) -> Result<Result<rspirv::sr::module::Module, String>, String> {
    guarded(|| {
        let mut m = dr::load_words(words).map_err(|e| format!("load: {:?}", crate::util::state_name(&e)))?;
        // the loader stamps its own generator word: put the input's back (a dr::Module is plain data, and the lifter
        // must not care who produced it)
        if let Some(h) = m.header.as_mut() {
            h.generator = words[2];
        }
        let first = LiftContext::convert(&m).map_err(|e| format!("{:?}", e));
        // second use: lifting the same module again gives the same result
        let second = LiftContext::convert(&m).map_err(|e| format!("{:?}", e));
        let show = |r: &Result<rspirv::sr::module::Module, String>| match r {
            Ok(x) => format!("{:#x} {:?} {:?} {:?} {:?} {:?} {:?} {:?}", x.version, x.capabilities, x.extensions, x.ext_inst_imports, x.types, x.constants, x.ops, x.functions.iter().map(|f| format!("{:?} {} {:?}", f.control, f.result.index(), f.blocks)).collect::<Vec<_>>()),
            Err(e) => format!("Err {}", e),
        };
        if show(&first) != show(&second) {
            return Err(format!("lifting the same module twice gives different results: {} / {}", show(&first).chars().take(200).collect::<String>(), show(&second).chars().take(200).collect::<String>()));
        }
        first
    })
}

/// the one entry of a Debug-printed Storage: `Storage { data: [ ... ] }`
fn storage_entries(dbg: &str) -> Vec<String> {
    // split the top-level list on commas at depth 0
    let Some(start) = dbg.find('[') else { return vec![] };
    let inner = &dbg[start + 1..dbg.rfind(']').unwrap_or(dbg.len())];
    let mut out = vec![];
    let mut depth = 0i32;
    let mut cur = String::new();
    let mut in_str = false;
    let mut prev = ' ';
    for c in inner.chars() {
        if in_str {
            cur.push(c);
            if c == '"' && prev != '\\' {
                in_str = false;
            }
        } else {
            match c {
                '"' => {
                    in_str = true;
                    cur.push(c)
                }
                '{' | '(' | '[' => {
                    depth += 1;
                    cur.push(c)
                }
                '}' | ')' | ']' => {
                    depth -= 1;
                    cur.push(c)
                }
                ',' if depth == 0 => {
                    out.push(cur.trim().to_string());
                    cur.clear();
                }
                _ => cur.push(c),
            }
        }
        prev = c;
    }
    if !cur.trim().is_empty() {
        out.push(cur.trim().to_string());
    }
    out
}

pub fn check_op_shape(gi: &GInst, shape_id: &str, inst: &Inst, unsupported: &[&str]) -> (Vec<Viol>, &'static str) {
    check_op_shape_gen(gi, shape_id, inst, unsupported, 0)
}

/// the same with a given generator word in the module header (the lifted operation must not depend on who produced the module)
pub fn check_op_shape_gen(gi: &GInst, shape_id: &str, inst: &Inst, unsupported: &[&str], generator: u32) -> (Vec<Viol>, &'static str) {
    let mut i = inst.clone();
    i.rtype = i.rtype.map(|_| TYPE_BASE + 1);
    i.rid = Some(600);
    if !retarget_ids(&mut i) {
        return (vec![], "too-many-ids");
    }
    let mut insts = preamble();
    insts.push(Inst::new("Function", Some(TYPE_BASE), Some(500), vec![Arg::Mask("FunctionControl", 0), Arg::IdRef(TYPE_BASE + 1)]));
    insts.push(Inst::new("Label", None, Some(501), vec![]));
    insts.push(i.clone());
    insts.push(Inst::new("Return", None, None, vec![]));
    insts.push(Inst::new("FunctionEnd", None, None, vec![]));
    let mut words = model::header(0x0001_0500, generator, 1000);
    for x in &insts {
        words.extend(enc(x));
    }
    let rep = json!({"kind": "words", "words": words, "shape": shape_id});
    let type_index: BTreeMap<u32, u32> = (0..N_TYPES).map(|j| (TYPE_BASE + j, j)).collect();
    let none = BTreeMap::new();
    // a parameterised mask whose set bits carry parameters: the SR types have no field for them (root cause of its own)
    let mask_with_params: Option<&'static str> = i.args.iter().find_map(|a| match a {
        Arg::Mask(k, b) if !golden().mask_params(k, *b).is_empty() => Some(*k),
        _ => None,
    });
    match lift_words(&words) {
        Err(p) => (vec![viol(format!("C18:panic:{}", gi.name), format!("shape {}: lifting panics: {}", shape_id, p), rep)], "panic"),
        Ok(Err(e)) => {
            if unsupported.contains(&gi.name.as_str()) && e.contains("WrongOpcode") {
                (vec![], "outside-subset(no lift_op arm)")
            } else {
                let key = match mask_with_params {
                    Some(k) => format!("C18:mask-parameters:{}:error", k),
                    None => format!("C18:error:{}", gi.name),
                };
                (vec![viol(key, format!("shape {}: lifting fails with {}", shape_id, e), rep)], "error")
            }
        }
        Ok(Ok(m)) => {
            let dbg = format!("{:?}", m.ops);
            let entries = storage_entries(&dbg);
            if entries.len() != 1 {
                return (vec![viol(format!("C18:{}:count", gi.name), format!("shape {}: {} operations lifted for one result-producing instruction: {}", shape_id, entries.len(), dbg), rep)], "count");
            }
            let atoms = lex(&entries[0]);
            if !matches!(atoms.first(), Some(Atom::Word(w)) if w == &gi.name) {
                return (vec![viol(format!("C18:{}:variant", gi.name), format!("shape {}: lifted as {:?}", shape_id, atoms.first()), rep)], "variant");
            }
            let exp = expected_leaves(gi, &i);
            match leaves_match(&atoms[1..], &exp, &type_index, &none) {
                Ok(()) => (vec![], "lifted"),
                Err(why) => {
                    // which operand kind differs first
                    let key = match mask_with_params {
                        Some(k) => format!("C18:mask-parameters:{}:dropped", k),
                        None => format!("C18:{}:operands", gi.name),
                    };
                    (vec![viol(key, format!("shape {}: {} ; lifted {} ; instruction {}", shape_id, why, entries[0], i.short()), rep)], "operands")
                }
            }
        }
    }
}

// ------------------------------------------------------------------ part (b): module structure

#[derive(Clone, Debug)]
struct ModSpec {
    caps: Vec<u32>,
    types: Vec<&'static str>,
    consts: usize,
    /// per function: blocks, each with (number of result-producing instructions, phi count, terminator)
    funcs: Vec<Vec<(usize, usize, &'static str)>>,
    control: u32,
    /// opcode of the result-producing block instructions (all its operands are ids)
    op: &'static str,
    /// number of id operands of `op`
    arity: usize,
    /// every operation takes the result of the operation before it as its operands (a def-use chain that ends in the
    /// block's terminator) instead of two unrelated ids
    /// 0: no; 1: every operand is the previous result; 2: the first operand is a module constant, the others the previous
    /// result; 3: the first operand is the previous result, the others a module constant
    chain: u8,
}

fn build_module(s: &ModSpec) -> Option<(Vec<Inst>, Expected)> {
    let mut insts = vec![];
    for c in &s.caps {
        insts.push(Inst::new("Capability", None, None, vec![Arg::Enum("Capability", *c)]));
    }
    insts.push(Inst::new("MemoryModel", None, None, vec![Arg::Enum("AddressingModel", 0), Arg::Enum("MemoryModel", 1)]));
    let mut next = 10u32;
    let mut type_ids: Vec<(u32, &'static str)> = vec![];
    let find = |ids: &Vec<(u32, &'static str)>, k: &str| ids.iter().rev().find(|x| x.1 == k).map(|x| x.0);
    let mut type_debug: Vec<String> = vec![];
    // always: void(10) int(11) so that functions and constants have what they need
    for t in ["void", "int"].iter().chain(s.types.iter()) {
        let id = next;
        next += 1;
        let idx = |ids: &Vec<(u32, &'static str)>, id: u32| ids.iter().position(|x| x.0 == id).unwrap();
        let (inst, dbg) = match *t {
            "void" => (Inst::new("TypeVoid", None, Some(id), vec![]), "Void".to_string()),
            "bool" => (Inst::new("TypeBool", None, Some(id), vec![]), "Bool".to_string()),
            "int" => (Inst::new("TypeInt", None, Some(id), vec![Arg::Lit32(32), Arg::Lit32(1)]), "Int 32 1".to_string()),
            "float" => (Inst::new("TypeFloat", None, Some(id), vec![Arg::Lit32(32)]), "Float 32 None".to_string()),
            "vector" => {
                let c = find(&type_ids, "float").or(find(&type_ids, "int"))?;
                (Inst::new("TypeVector", None, Some(id), vec![Arg::IdRef(c), Arg::Lit32(4)]), format!("Vector T{} 4", idx(&type_ids, c)))
            }
            "matrix" => {
                let c = find(&type_ids, "vector")?;
                (Inst::new("TypeMatrix", None, Some(id), vec![Arg::IdRef(c), Arg::Lit32(3)]), format!("Matrix T{} 3", idx(&type_ids, c)))
            }
            "pointer" => {
                let c = type_ids.last()?.0;
                (Inst::new("TypePointer", None, Some(id), vec![Arg::Enum("StorageClass", 7), Arg::IdRef(c)]), format!("Pointer Function T{}", idx(&type_ids, c)))
            }
            "runtime_array" => {
                let c = type_ids.last()?.0;
                (Inst::new("TypeRuntimeArray", None, Some(id), vec![Arg::IdRef(c)]), format!("RuntimeArray T{}", idx(&type_ids, c)))
            }
            "struct" => {
                let a = type_ids[0].0;
                let b = type_ids.last()?.0;
                (Inst::new("TypeStruct", None, Some(id), vec![Arg::IdRef(b), Arg::IdRef(a)]), format!("Struct T{} T{}", idx(&type_ids, b), idx(&type_ids, a)))
            }
            "function" => {
                let r = type_ids[0].0;
                let p = type_ids.last()?.0;
                (Inst::new("TypeFunction", None, Some(id), vec![Arg::IdRef(r), Arg::IdRef(p)]), format!("Function T{} T{}", idx(&type_ids, r), idx(&type_ids, p)))
            }
            _ => return None,
        };
        insts.push(inst);
        type_ids.push((id, t));
        type_debug.push(dbg);
    }
    // constants of the int type, then a composite of the first two
    let int = find(&type_ids, "int")?;
    let mut const_debug = vec![];
    let mut const_ids = vec![];
    for k in 0..s.consts {
        let id = next;
        next += 1;
        if k == 3 && const_ids.len() >= 2 && find(&type_ids, "vector").is_some() {
            insts.push(Inst::new("ConstantComposite", Some(find(&type_ids, "vector").unwrap()), Some(id), vec![Arg::IdRef(const_ids[2]), Arg::IdRef(const_ids[0])]));
            const_debug.push("Composite T2 T0".to_string());
        } else if k == 1 && find(&type_ids, "float").is_some() {
            // a 32-bit float constant with a telling bit pattern (negative zero, smallest denormal, infinities, largest
            // finite, 0.1, NaNs): lifted as the very same value
            const BITS: [u32; 8] = [0x8000_0000, 0x0000_0001, 0x7F80_0000, 0xFF80_0000, 0x7F7F_FFFF, 0x3DCC_CCCD, 0x7FC0_0000, 0xBF80_0000];
            let v = BITS[(s.types.len() + s.consts + s.caps.len() + s.funcs.len()) % BITS.len()];
            insts.push(Inst::new("Constant", Some(find(&type_ids, "float").unwrap()), Some(id), vec![Arg::Lit32(v)]));
            const_debug.push(format!("Float {:?}", f32::from_bits(v)));
        } else {
            // the third declaration repeats the first one's value: one constant per DECLARATION, equal or not
            let v = 0xFFFF_FFF0u32 + (k % 2) as u32;
            insts.push(Inst::new("Constant", Some(int), Some(id), vec![Arg::Lit32(v)]));
            const_debug.push(format!("Int {}", v as i32));
        }
        const_ids.push(id);
    }
    let void = type_ids[0].0;
    let mut exp_funcs = vec![];
    let mut n_ops = 0usize;
    let mut op_args: Vec<Vec<u32>> = vec![];
    for (fi, blocks) in s.funcs.iter().enumerate() {
        let fid = next;
        next += 1;
        // every function has its own control mask and result type, so that a value taken from the wrong function shows
        let control = (s.control + 5 * fi as u32) & 0xF;
        let (rt, rt_index) = if fi % 2 == 0 { (void, 0usize) } else { (int, type_ids.iter().position(|x| x.0 == int).unwrap()) };
        // the function-type operand names a declared OpTypeFunction when the module has one (its return type is the
        // FIRST declared type, so for odd functions it differs from the OpFunction's own result type: the lifted
        // function must keep the latter), otherwise an id that is no function type at all
        let fty = find(&type_ids, "function").unwrap_or(int);
        insts.push(Inst::new("Function", Some(rt), Some(fid), vec![Arg::Mask("FunctionControl", control), Arg::IdRef(fty)]));
        let mut labels = vec![];
        let mut exp_blocks = vec![];
        // (id, type index) of the last operation of the blocks before the current one
        let mut prev_op: Option<(u32, usize)> = None;
        let mut prev_op_next: Option<(u32, usize)> = None;
        for (bi, (nops, nphi, term)) in blocks.iter().enumerate() {
            let l = next;
            next += 1;
            insts.push(Inst::new("Label", None, Some(l), vec![]));
            let mut last_val = None;
            let mut phis = vec![];
            let block_start = insts.len();
            for j in 0..*nphi {
                let id = next;
                next += 1;
                // each phi has its own result type. Sources: for odd j an id that is no lifted op (a constant: the lifter
                // looks no further); for even j the last operation of an EARLIER block, which has the phi's own type
                // (a well-typed phi of any declared type - scalar, pointer, array, struct - must lift)
                let (src, pt) = match (j % 2, prev_op) {
                    (0, Some((op_id, op_ty))) => (op_id, op_ty),
                    _ => (const_ids.first().copied().unwrap_or(9), (bi + j + fi) % type_ids.len()),
                };
                let from = labels.last().copied().unwrap_or(l);
                insts.push(Inst::new("Phi", Some(type_ids[pt].0), Some(id), vec![Arg::IdRef(src), Arg::IdRef(from)]));
                phis.push(pt);
            }
            for k in 0..*nops {
                let id = next;
                next += 1;
                // the last operation of a block takes its result type from the whole type list in turn
                let ot = if k + 1 == *nops { (bi + fi + type_ids.len() - 1) % type_ids.len() } else { type_ids.iter().position(|x| x.0 == int).unwrap() };
                let args: Vec<Arg> = if s.chain > 0 {
                    let a = last_val.or(const_ids.first().copied()).unwrap_or(int);
                    let c = const_ids.first().copied().unwrap_or(int);
                    (0..s.arity).map(|q| Arg::IdRef(match (s.chain, q) { (1, _) => a, (2, 0) => c, (2, _) => a, (3, 0) => a, _ => c })).collect()
                } else {
                    (0..s.arity).map(|q| Arg::IdRef(if q % 2 == 0 { int } else { void })).collect()
                };
                op_args.push(args.iter().filter_map(|a| if let Arg::IdRef(x) = a { Some(*x) } else { None }).collect::<Vec<u32>>());
                insts.push(Inst::new(s.op, Some(type_ids[ot].0), Some(id), args));
                last_val = Some(id);
                prev_op_next = Some((id, ot));
                n_ops += 1;
            }
            prev_op = prev_op_next;
            // in every other block the first operation comes BEFORE the phis (the subset does not order them)
            if (bi + fi) % 2 == 1 && *nphi > 0 && *nops > 0 {
                let first_op = insts.remove(block_start + *nphi);
                insts.insert(block_start, first_op);
            }
            let (t, tdbg) = match *term {
                "Return" => (Inst::new("Return", None, None, vec![]), "Return".to_string()),
                "Kill" => (Inst::new("Kill", None, None, vec![]), "Kill".to_string()),
                "Unreachable" => (Inst::new("Unreachable", None, None, vec![]), "Unreachable".to_string()),
                "ReturnValue" => {
                    let v = last_val.or(const_ids.first().copied())?;
                    (Inst::new("ReturnValue", None, None, vec![Arg::IdRef(v)]), format!("ReturnValue {}", v))
                }
                // branches can only target blocks the lifter has already seen (earlier ones)
                "Branch" => {
                    if bi == 0 {
                        return None;
                    }
                    (Inst::new("Branch", None, None, vec![Arg::IdRef(labels[bi - 1])]), format!("Branch {}", labels[bi - 1]))
                }
                "BranchConditional" => {
                    if bi == 0 {
                        return None;
                    }
                    let c = last_val.or(const_ids.first().copied())?;
                    (Inst::new("BranchConditional", None, None, vec![Arg::IdRef(c), Arg::IdRef(labels[0]), Arg::IdRef(labels[bi - 1])]), format!("BranchConditional {} {} {}", c, labels[0], labels[bi - 1]))
                }
                _ => return None,
            };
            insts.push(t);
            labels.push(l);
            exp_blocks.push((phis, tdbg));
        }
        insts.push(Inst::new("FunctionEnd", None, None, vec![]));
        exp_funcs.push((control, rt_index, exp_blocks));
    }
    Some((insts, Expected { caps: s.caps.clone(), types: type_debug, consts: const_debug, n_ops, op_args, funcs: exp_funcs }))
}

struct Expected {
    caps: Vec<u32>,
    types: Vec<String>,
    consts: Vec<String>,
    n_ops: usize,
    /// the id operands of every operation, in declaration order
    op_args: Vec<Vec<u32>>,
    funcs: Vec<(u32, usize, Vec<(Vec<usize>, String)>)>,
}

fn atoms_compact(s: &str) -> String {
    lex(s)
        .iter()
        .map(|a| match a {
            Atom::Int(v) => v.to_string(),
            Atom::Neg(v) => v.to_string(),
            Atom::Float(f) => f.clone(),
            Atom::Token(t) => format!("T{}", t),
            Atom::Str(s) => format!("{:?}", s),
            Atom::Word(w) => w.clone(),
        })
        .filter(|w| w != "StructMember" && w != "decorations")
        .collect::<Vec<_>>()
        .join(" ")
}

fn check_module(s: &ModSpec) -> (Vec<Viol>, &'static str) {
    let g = golden();
    let Some((insts, exp)) = build_module(s) else { return (vec![], "not-constructible") };
    let version = 0x0001_0000 | ((s.caps.len() as u32) << 8);
    let mut words = model::header(version, 0, 1000);
    for x in &insts {
        words.extend(enc(x));
    }
    let rep = json!({"kind": "words", "words": words, "spec": format!("{:?}", s)});
    let m = match lift_words(&words) {
        Err(p) => return (vec![viol("C18:module:panic", format!("module {:?}: lifting panics: {}", s, p), rep)], "panic"),
        Ok(Err(e)) => return (vec![viol("C18:module:error", format!("module {:?}: lifting fails: {}", s, e), rep)], "error"),
        Ok(Ok(m)) => m,
    };
    let mut v = vec![];
    let mut bad = |what: &str, why: String| v.push(viol(format!("C18:module:{}", what), format!("module {:?}: {}", s, why), rep.clone()));
    if m.version != version {
        bad("version", format!("version word {:#x}, input {:#x}", m.version, version));
    }
    let caps: Vec<u32> = m.capabilities.iter().map(|c| *c as u32).collect();
    if caps != exp.caps {
        bad("capabilities", format!("capabilities {:?}, input order {:?}", caps, exp.caps));
    }
    let mm = format!("{:?}", m.memory_model);
    if atoms_compact(&mm) != "MemoryModel Logical GLSL450" {
        bad("memory-model", format!("memory model lifted as {}", mm));
    }
    let types: Vec<String> = storage_entries(&format!("{:?}", m.types)).iter().map(|e| atoms_compact(e)).collect();
    if types != exp.types {
        bad("types", format!("types {:?}, one per declaration in order would be {:?}", types, exp.types));
    }
    let consts: Vec<String> = storage_entries(&format!("{:?}", m.constants)).iter().map(|e| atoms_compact(e)).collect();
    if consts != exp.consts {
        bad("constants", format!("constants {:?}, expected {:?}", consts, exp.consts));
    }
    let nops = storage_entries(&format!("{:?}", m.ops)).len();
    // the operations are lifted in declaration order, each with its id operands in the positions they were written in
    {
        let entries = storage_entries(&format!("{:?}", m.ops));
        if entries.len() == exp.op_args.len() {
            for (k, (e, want)) in entries.iter().zip(exp.op_args.iter()).enumerate() {
                let ints: Vec<u32> = atoms_compact(e).split(' ').filter_map(|w| w.parse::<u32>().ok()).collect();
                if ints.len() == want.len() && ints != *want {
                    bad("op-operands", format!("operation #{} lifted as {} ; its id operands were written as {:?}", k, e, want));
                    break;
                }
            }
        }
    }
    if nops != exp.n_ops {
        bad("ops", format!("{} operations for {} result-producing non-phi block instructions", nops, exp.n_ops));
    }
    if m.functions.len() != exp.funcs.len() {
        bad("functions", format!("{} functions lifted for {}", m.functions.len(), exp.funcs.len()));
    } else {
        for (fi, (f, (ctl, rti, blocks))) in m.functions.iter().zip(exp.funcs.iter()).enumerate() {
            if f.control.bits() != *ctl {
                bad("function-control", format!("function {} control {:?}, input {:#x}", fi, f.control, ctl));
            }
            if f.result.index() as usize != *rti {
                bad("function-result", format!("function {} result type token {}, expected the token of its result type ({})", fi, f.result.index(), rti));
            }
            let bl = storage_entries(&format!("{:?}", f.blocks));
            if bl.len() != blocks.len() {
                bad("block-count", format!("function {} has {} blocks, input {}", fi, bl.len(), blocks.len()));
                continue;
            }
            for (bi, (b, (phis, term))) in bl.iter().zip(blocks.iter()).enumerate() {
                // Block { arguments: [Token(..)..], ops: [], terminator: ... }
                let a = atoms_compact(b);
                let want_args: Vec<String> = phis.iter().map(|t| format!("T{}", t)).collect();
                // terminator: compare the leaves after the arguments; jump targets are block tokens, other ids raw
                let want_term = {
                    let mut parts = term.split(' ');
                    let name = parts.next().unwrap();
                    let ids: Vec<u32> = parts.map(|x| x.parse().unwrap()).collect();
                    (name.to_string(), ids)
                };
                let toks: Vec<&str> = a.split(' ').collect();
                // expected prefix: "Block" args...
                let mut ok = toks.first() == Some(&"Block");
                for (k, w) in want_args.iter().enumerate() {
                    if toks.get(1 + k) != Some(&w.as_str()) {
                        ok = false;
                    }
                }
                let rest: Vec<&str> = toks.iter().skip(1 + want_args.len()).copied().collect();
                // rest: "Branch" <variant> leaves...
                let tname_pos = rest.iter().position(|w| *w == want_term.0);
                if !ok || tname_pos.is_none() {
                    bad("block", format!("function {} block {}: lifted {} ; expected phi argument types {:?} and terminator {}", fi, bi, b, want_args, term));
                    continue;
                }
                let leaves: Vec<&str> = rest[tname_pos.unwrap() + 1..].iter().copied().skip_while(|w| *w == want_term.0).filter(|w| *w != "Jump" && *w != "None").collect();
                let num: Vec<String> = leaves.iter().map(|x| x.to_string()).collect();
                let want: Vec<String> = want_term.1.iter().map(|x| x.to_string()).collect();
                if num != want {
                    bad("terminator", format!("function {} block {}: terminator lifted with leaves {:?}, input operands {:?} ({})", fi, bi, num, want, b));
                }
            }
        }
    }
    let _ = g;
    drop(bad);
    (v, "module-lifted")
}

pub fn run(tier: Tier) -> Run {
    let g = golden();
    let mut run = Run::new("C18", tier, "exploration");
    // the four result-producing block opcodes that have dedicated sr::instructions structs but no lift_op arm at the pinned commit
    let unsupported = ["FunctionCall", "ExtInst", "ExtInstWithForwardRefsKHR", "CooperativeMatrixPerElementOpNV"];
    // ---- (a)
    let mut work: Vec<(&GInst, String, Inst)> = vec![];
    for gi in &g.insts {
        if !gi.has_rid() || class_of(&gi.name) != Class::Block || gi.name == "Phi" {
            continue;
        }
        for s in universe::shapes(gi, tier) {
            // ids are retargeted to declared types; literal/enum/mask/string variations are kept
            if s.id.contains(":id=") || s.id.contains(":result=") {
                continue;
            }
            work.push((gi, s.id, s.inst));
        }
    }
    // U-pattern: 3-5 repetitions of variadic operands (a middle element), three-bit masks, bit-pattern literals
    for s in universe::pattern_shapes(tier) {
        let Some(gi) = g.lookup(s.inst.opcode) else { continue };
        if !gi.has_rid() || class_of(&gi.name) != Class::Block || gi.name == "Phi" || s.id.contains(":result=") {
            continue;
        }
        // id positions are retargeted anyway: only the literal / mask / repetition patterns matter here
        if s.id.contains(":pattern:arg") && matches!(s.inst.args.iter().nth(s.id.rsplit("arg").next().and_then(|x| x.split('=').next()).and_then(|x| x.parse::<usize>().ok()).unwrap_or(0)), Some(crate::model::Arg::IdRef(_)) | Some(crate::model::Arg::IdScope(_)) | Some(crate::model::Arg::IdMemSem(_))) {
            continue;
        }
        work.push((gi, s.id, s.inst));
    }
    let mut res: Vec<(Vec<Viol>, &'static str)> = work.par_iter().map(|(gi, id, i)| check_op_shape(gi, id, i, &unsupported)).collect();
    // the minimal shape of every liftable opcode under every generator word: registered tool ids 0..=45 and two
    // unregistered ones x tool versions on both sides of small numbers (a fix-up keyed on the producer is seen)
    {
        let gens: Vec<u32> = (0u32..=45).chain([0x7FFF, 0xFFFF]).flat_map(|t| [0u32, 1, 7, 8, 0xFFFF].into_iter().map(move |v| (t << 16) | v)).collect();
        let mins: Vec<(&GInst, Inst)> = g.insts.iter().filter(|gi| gi.has_rid() && class_of(&gi.name) == Class::Block && gi.name != "Phi" && !unsupported.contains(&gi.name.as_str())).map(|gi| (gi, universe::minimal(gi))).collect();
        let extra: Vec<(Vec<Viol>, &'static str)> = mins
            .par_iter()
            .map(|(gi, i)| {
                let mut out: Vec<Viol> = vec![];
                let mut label = "lifted";
                for gw in &gens {
                    let (v, l) = check_op_shape_gen(gi, &format!("{}:min:generator={:#x}", gi.name, gw), i, &unsupported, *gw);
                    if !v.is_empty() && out.is_empty() {
                        out = v.into_iter().map(|mut x| { x.key = format!("{}:generator", x.key); x }).collect();
                        label = l;
                    }
                }
                (out, label)
            })
            .collect();
        run.outcome("generator_words_x_opcodes", (gens.len() * mins.len()) as u64);
        res.extend(extra);
    }
    let mut n = 0u64;
    let mut lifted = 0u64;
    for (v, o) in res {
        n += 1;
        if o == "lifted" {
            lifted += 1;
        }
        run.add_all(v);
        run.outcome(o, 1);
    }
    // ---- (b)
    let kinds: [&'static str; 9] = ["bool", "float", "vector", "matrix", "pointer", "runtime_array", "struct", "function", "int"];
    let mut type_seqs: Vec<Vec<&'static str>> = vec![vec![]];
    let maxlen = tier.pick(3, 4);
    let mut layer: Vec<Vec<&'static str>> = vec![vec![]];
    for _ in 0..maxlen {
        let mut next = vec![];
        for s in &layer {
            for k in kinds {
                let mut t = s.clone();
                t.push(k);
                next.push(t);
            }
        }
        type_seqs.extend(next.iter().cloned());
        layer = next;
    }
    let terms = ["Return", "ReturnValue", "Kill", "Unreachable", "Branch", "BranchConditional"];
    let mut func_shapes: Vec<Vec<(usize, usize, &'static str)>> = vec![];
    for t0 in ["Return", "ReturnValue", "Kill", "Unreachable"] {
        for n0 in 0..=2usize {
            func_shapes.push(vec![(n0, 0, t0)]);
            // a phi already in the first (or only) block of a function
            func_shapes.push(vec![(n0, 1 + n0 % 2, t0)]);
            func_shapes.push(vec![(n0, 1, t0), (1, 1, "Branch")]);
            for t1 in terms {
                for p1 in 0..=2usize {
                    func_shapes.push(vec![(n0, 0, t0), (1, p1, t1)]);
                    for t2 in ["Return", "Branch", "BranchConditional"] {
                        func_shapes.push(vec![(n0, 0, t0), (1, p1, t1), (0, 1, t2)]);
                    }
                }
            }
        }
    }
    let cap_lists: Vec<Vec<u32>> = vec![vec![], vec![1], vec![1, 0], vec![6, 1, 4], vec![4, 6, 1]];
    let mut specs: Vec<ModSpec> = vec![];
    for (ti, ts) in type_seqs.iter().enumerate() {
        let caps = cap_lists[ti % cap_lists.len()].clone();
        let f = func_shapes[ti % func_shapes.len()].clone();
        specs.push(ModSpec { caps, types: ts.clone(), consts: ti % 5, funcs: vec![f], control: [0u32, 1, 2, 4, 8, 3][ti % 6], op: "IAdd", arity: 2, chain: 0 });
    }
    for (fi, f) in func_shapes.iter().enumerate() {
        for caps in &cap_lists {
            specs.push(ModSpec { caps: caps.clone(), types: vec!["float", "vector"], consts: 4, funcs: vec![f.clone()], control: (fi % 4) as u32, op: "IAdd", arity: 2, chain: 0 });
            specs.push(ModSpec { caps: caps.clone(), types: vec![], consts: fi % 5, funcs: vec![f.clone(), func_shapes[(fi * 7 + 3) % func_shapes.len()].clone()], control: 1, op: "IAdd", arity: 2, chain: 0 });
            // two functions behind a declared function type whose return type is not the second function's result type
            specs.push(ModSpec { caps: caps.clone(), types: vec!["float", "function"], consts: fi % 3, funcs: vec![func_shapes[(fi * 5 + 1) % func_shapes.len()].clone(), f.clone()], control: 2, op: "IAdd", arity: 2, chain: 0 });
        }
    }
    // ---- def-use chains: for EVERY liftable opcode whose operands are 1..3 plain ids, a chain of 1..4 such operations
    //      (each one's operands are the result of the one before) ending in the block's terminator (conditional branch on
    //      the last value / return of the last value / plain return): the terminator names the id that was written
    {
        let chain_ops: Vec<(&'static str, usize)> = g
            .insts
            .iter()
            .filter(|gi| gi.has_rid() && gi.has_rtype() && class_of(&gi.name) == Class::Block && gi.name != "Phi" && !unsupported.contains(&gi.name.as_str()))
            .filter_map(|gi| {
                let v = gi.value_operands();
                if (1..=3).contains(&v.len()) && v.iter().all(|(k, q)| k == "IdRef" && *q == crate::golden::Quant::One) {
                    Some((&*Box::leak(gi.name.clone().into_boxed_str()), v.len()))
                } else {
                    None
                }
            })
            .collect();
        // opcodes with an id operand the lifter resolves as a TYPE (OpCooperativeMatrixLengthKHR ..) cannot take a value
        // there ("declared-before-use types" is a premise of the statement): the one-operation chain whose operand is a
        // constant id tells them apart; they stay covered by part (a), where every id names a declared type
        let chain_ops: Vec<(&'static str, usize)> = chain_ops
            .into_par_iter()
            .filter(|(op, arity)| check_module(&ModSpec { caps: vec![1], types: vec!["bool"], consts: 1, funcs: vec![vec![(1, 0, "Return")]], control: 0, op, arity: *arity, chain: 1 }).0.is_empty())
            .collect();
        run.outcome("chain_opcodes", chain_ops.len() as u64);
        // operands from mixed sources (a module constant and an earlier operation, in both orders) for the opcodes with two
        // or three operands
        for (op, arity) in chain_ops.iter().filter(|x| x.1 >= 2) {
            for chain in [2u8, 3] {
                for d in [1usize, 2, 3] {
                    specs.push(ModSpec { caps: vec![1], types: vec!["bool"], consts: 2, funcs: vec![vec![(d, 0, "ReturnValue")]], control: 0, op, arity: *arity, chain });
                }
            }
        }
        // long blocks (31 .. 70 operations), with phis behind the first operation in odd blocks
        for nops in [31usize, 32, 33, 34, 40, 64, 65, 70] {
            for chain in [0u8, 1] {
                specs.push(ModSpec { caps: vec![1], types: vec!["float"], consts: 2, funcs: vec![vec![(nops, 0, "Return"), (nops, 2, "Branch"), (2, 1, "BranchConditional")]], control: 0, op: "IAdd", arity: 2, chain });
                specs.push(ModSpec { caps: vec![1], types: vec![], consts: 1, funcs: vec![vec![(1, 0, "Return"), (nops, 1, "ReturnValue")], vec![(nops, 0, "Kill")]], control: 1, op: "IAdd", arity: 2, chain });
            }
        }
        for (op, arity) in chain_ops {
            for d in 1..=4usize {
                for tail in ["BranchConditional", "ReturnValue", "Return"] {
                    let f = if tail == "BranchConditional" { vec![(d, 0, "Return"), (d, 0, tail)] } else { vec![(d, 0, tail)] };
                    specs.push(ModSpec { caps: vec![1], types: vec!["bool"], consts: 1, funcs: vec![f], control: 0, op, arity, chain: 1 });
                }
            }
        }
    }
    // ---- composite constants whose number of constituents is independent of what their type declares (vector of 2,
    //      struct of 2, arrays whose length is an unsigned / a signed constant N): k = 0..6 constituents for N = 0..5. The
    //      lifter does not validate; each declaration is lifted with every operand it has, whatever its type says. The
    //      oracle is differential: all k behave alike (k tokens of the constituent), or the type is not liftable at all
    {
        let mut n = 0u64;
        for nval in [0u32, 1, 2, 3, 5] {
            for (tname, tid) in [("array-unsigned-length", 30u32), ("array-signed-length", 31), ("vector", 32), ("struct", 33)] {
                let mut verdicts: Vec<(usize, Result<String, String>)> = vec![];
                for k in 0..=6usize {
                    let mut insts = vec![
                        Inst::new("Capability", None, None, vec![Arg::Enum("Capability", 1)]),
                        Inst::new("MemoryModel", None, None, vec![Arg::Enum("AddressingModel", 0), Arg::Enum("MemoryModel", 1)]),
                        Inst::new("TypeInt", None, Some(11), vec![Arg::Lit32(32), Arg::Lit32(0)]),
                        Inst::new("TypeInt", None, Some(12), vec![Arg::Lit32(32), Arg::Lit32(1)]),
                        Inst::new("Constant", Some(11), Some(20), vec![Arg::Lit32(nval)]),
                        Inst::new("Constant", Some(12), Some(21), vec![Arg::Lit32(nval)]),
                    ];
                    insts.push(match tid {
                        30 => Inst::new("TypeArray", None, Some(30), vec![Arg::IdRef(11), Arg::IdRef(20)]),
                        31 => Inst::new("TypeArray", None, Some(31), vec![Arg::IdRef(11), Arg::IdRef(21)]),
                        32 => Inst::new("TypeVector", None, Some(32), vec![Arg::IdRef(11), Arg::Lit32(2)]),
                        _ => Inst::new("TypeStruct", None, Some(33), vec![Arg::IdRef(11), Arg::IdRef(11)]),
                    });
                    insts.push(Inst::new("ConstantComposite", Some(tid), Some(40), (0..k).map(|_| Arg::IdRef(20)).collect()));
                    let mut words = model::header(0x0001_0300, 0, 100);
                    for x in &insts {
                        words.extend(enc(x));
                    }
                    n += 1;
                    let r = match lift_words(&words) {
                        Err(p) => Err(format!("panic: {}", p)),
                        Ok(Err(e)) => Err(e),
                        Ok(Ok(m)) => Ok(storage_entries(&format!("{:?}", m.constants)).last().map(|e| atoms_compact(e)).unwrap_or_default()),
                    };
                    verdicts.push((k, r));
                }
                let liftable = verdicts.iter().any(|(_, r)| r.is_ok());
                for (k, r) in &verdicts {
                    let want = format!("Composite{}", " T0".repeat(*k));
                    let bad = match r {
                        Ok(got) => *got != want,
                        Err(e) => liftable || e.starts_with("panic"),
                    };
                    if bad {
                        run.add(viol(format!("C18:constant-composite:{}", tname), format!("OpConstantComposite of a {} type (N = {}) with {} constituents: lifted {:?}, expected {:?} (every operand carried over, in order)", tname, nval, k, r, want), json!({"kind": "c18-composite", "type": tname, "n": nval, "constituents": k})));
                        break;
                    }
                }
            }
        }
        run.outcome("composite_constants_by_count", n);
    }
    // ---- ids do not matter: the same small module (two int types, two constants, a vector of the second type, a composite,
    //      an operation using all of them) lifted with its ids spread out by every power of two and by the multipliers /
    //      primes hash functions use gives the SAME types, constants and functions as with consecutive ids (tokens are
    //      positions; raw ids in operations are compared after mapping them back)
    {
        let render = |ids: [u32; 8]| -> Result<String, String> {
            let [ta, tb, tv, ca, cb, cc, f, l] = ids;
            let insts = vec![
                Inst::new("Capability", None, None, vec![Arg::Enum("Capability", 1)]),
                Inst::new("MemoryModel", None, None, vec![Arg::Enum("AddressingModel", 0), Arg::Enum("MemoryModel", 1)]),
                Inst::new("TypeInt", None, Some(ta), vec![Arg::Lit32(32), Arg::Lit32(0)]),
                Inst::new("TypeInt", None, Some(tb), vec![Arg::Lit32(32), Arg::Lit32(1)]),
                Inst::new("TypeVector", None, Some(tv), vec![Arg::IdRef(tb), Arg::Lit32(2)]),
                Inst::new("Constant", Some(ta), Some(ca), vec![Arg::Lit32(7)]),
                Inst::new("Constant", Some(tb), Some(cb), vec![Arg::Lit32(0xFFFF_FFF9)]),
                Inst::new("ConstantComposite", Some(tv), Some(cc), vec![Arg::IdRef(cb), Arg::IdRef(cb)]),
                Inst::new("Function", Some(ta), Some(f), vec![Arg::Mask("FunctionControl", 0), Arg::IdRef(ta)]),
                Inst::new("Label", None, Some(l), vec![]),
                Inst::new("Return", None, None, vec![]),
                Inst::new("FunctionEnd", None, None, vec![]),
            ];
            let mut words = model::header(0x0001_0300, 0, 0xFFFF_FFFF);
            for x in &insts {
                words.extend(enc(x));
            }
            match lift_words(&words) {
                Err(p) => Err(format!("panic: {}", p)),
                Ok(Err(e)) => Err(e),
                Ok(Ok(m)) => Ok(format!("{:?} | {:?} | {:?}", m.types, m.constants, m.functions.iter().map(|f| (f.control, f.result.index(), f.parameters.len())).collect::<Vec<_>>())),
            }
        };
        let base = render([11, 12, 13, 14, 15, 16, 17, 18]);
        if let Err(e) = &base {
            run.machinery(format!("the id-distance module does not lift on this tree: {}", e));
        }
        let mut deltas: Vec<u32> = (1..32).map(|k| 1u32 << k).collect();
        deltas.extend([2654435769, 2971215073, 1640531527, 0x85EB_CA6B, 0xC2B2_AE35, 16777619, 0x811C_9DC5 - 20, 65599, 5381, 31, 37, 131, 1_000_003, 0x0100_0193, 40503, 2246822519, 3266489917, 668265263, 374761393]);
        let mut n = 0u64;
        for d in deltas {
            for (pn, ids) in [
                ("types", [11, 11u32.wrapping_add(d), 13, 14, 15, 16, 17, 18]),
                ("constants", [11, 12, 13, 14, 14u32.wrapping_add(d), 16, 17, 18]),
                ("type-and-constant", [11, 12, 13, 11u32.wrapping_add(d), 15, 16, 17, 18]),
                ("vector-and-int", [11, 12, 12u32.wrapping_add(d), 14, 15, 16, 17, 18]),
            ] {
                let mut u = ids.to_vec();
                u.sort();
                u.dedup();
                if u.len() != 8 || ids.contains(&0) {
                    continue;
                }
                n += 1;
                let got = render(ids);
                if got != base {
                    run.add(viol(format!("C18:ids-spread:{}", pn), format!("the same module with two {} ids {} apart lifts to {:?}; with consecutive ids to {:?}", pn, d, got.map(|x| x.chars().take(300).collect::<String>()), base.clone().map(|x| x.chars().take(300).collect::<String>())), json!({"kind": "c18-ids", "ids": ids, "delta": d})));
                    break;
                }
            }
        }
        run.outcome("id_distance_modules", n);
    }
    // ---- a conversion that FAILS (no memory model / an instruction outside the subset / an undeclared type), then a good
    //      module converted on the same thread: the second result is what that module gives in a fresh process state
    {
        let good = |shift: u32| -> Vec<u32> {
            let insts = vec![
                Inst::new("Capability", None, None, vec![Arg::Enum("Capability", 1)]),
                Inst::new("MemoryModel", None, None, vec![Arg::Enum("AddressingModel", 0), Arg::Enum("MemoryModel", 1)]),
                Inst::new("TypeVoid", None, Some(10 + shift), vec![]),
                Inst::new("TypeInt", None, Some(11 + shift), vec![Arg::Lit32(32), Arg::Lit32(1)]),
                Inst::new("Constant", Some(11 + shift), Some(12 + shift), vec![Arg::Lit32(5)]),
                Inst::new("Function", Some(10 + shift), Some(13 + shift), vec![Arg::Mask("FunctionControl", 0), Arg::IdRef(10 + shift)]),
                Inst::new("Label", None, Some(14 + shift), vec![]),
                Inst::new("IAdd", Some(11 + shift), Some(15 + shift), vec![Arg::IdRef(12 + shift), Arg::IdRef(12 + shift)]),
                Inst::new("Return", None, None, vec![]),
                Inst::new("FunctionEnd", None, None, vec![]),
            ];
            let mut w = model::header(0x0001_0300, 0, 1000);
            for x in &insts {
                w.extend(enc(x));
            }
            w
        };
        let bads: Vec<(&str, Vec<Inst>)> = vec![
            ("no memory model", vec![Inst::new("Capability", None, None, vec![Arg::Enum("Capability", 1)]), Inst::new("TypeVoid", None, Some(10), vec![]), Inst::new("TypeInt", None, Some(11), vec![Arg::Lit32(32), Arg::Lit32(1)])]),
            ("undeclared result type", vec![Inst::new("Capability", None, None, vec![Arg::Enum("Capability", 1)]), Inst::new("MemoryModel", None, None, vec![Arg::Enum("AddressingModel", 0), Arg::Enum("MemoryModel", 1)]), Inst::new("TypeVoid", None, Some(10), vec![]), Inst::new("TypeInt", None, Some(11), vec![Arg::Lit32(32), Arg::Lit32(1)]), Inst::new("Constant", Some(77), Some(12), vec![Arg::Lit32(5)])]),
            ("an instruction outside the subset", vec![Inst::new("Capability", None, None, vec![Arg::Enum("Capability", 1)]), Inst::new("MemoryModel", None, None, vec![Arg::Enum("AddressingModel", 0), Arg::Enum("MemoryModel", 1)]), Inst::new("TypeVoid", None, Some(10), vec![]), Inst::new("TypeInt", None, Some(11), vec![Arg::Lit32(32), Arg::Lit32(1)]), Inst::new("Function", Some(10), Some(13), vec![Arg::Mask("FunctionControl", 0), Arg::IdRef(10)]), Inst::new("Label", None, Some(14), vec![]), Inst::new("FunctionCall", Some(11), Some(15), vec![Arg::IdRef(13)]), Inst::new("Return", None, None, vec![]), Inst::new("FunctionEnd", None, None, vec![])]),
        ];
        let show = |w: &[u32]| -> String {
            match lift_words(w) {
                Err(p) => format!("panic: {}", p),
                Ok(Err(e)) => format!("Err {}", e),
                Ok(Ok(m)) => format!("{:?} | {:?} | {:?} | {}", m.types, m.constants, m.ops, m.functions.len()),
            }
        };
        // on a thread of its own, so that "the same thread" is certain and nothing else has converted anything on it
        let results: Vec<(String, u32, String, String)> = std::thread::spawn(move || {
            let mut out = vec![];
            for shift in [0u32, 100] {
                let alone = show(&good(shift));
                for (bn, bi) in &bads {
                    let mut w = model::header(0x0001_0300, 0, 1000);
                    for x in bi {
                        w.extend(enc(x));
                    }
                    let _ = show(&w);
                    out.push((bn.to_string(), shift, show(&good(shift)), alone.clone()));
                }
            }
            out
        })
        .join()
        .unwrap_or_default();
        run.outcome("good_after_failed_conversions", results.len() as u64);
        if results.iter().any(|r| r.3.starts_with("Err") || r.3.starts_with("panic")) || results.is_empty() {
            run.machinery("the good module of the failed-then-good family does not lift on this tree".to_string());
        }
        for (bn, shift, after, alone) in results {
            if after != alone {
                run.add(viol("C18:after-a-failed-conversion", format!("a good module (ids from {}) converted after a conversion that failed ({}) on the same thread gives {} ; alone {}", 10 + shift, bn, after.chars().take(300).collect::<String>(), alone.chars().take(300).collect::<String>()), json!({"kind": "c18-after-failure", "failed": bn, "id_shift": shift})));
                break;
            }
        }
    }
    // ---- every capability x every addressing model x every memory model in front of one fixed body with an unsigned, a
    //      signed and a float constant and one operation: what is lifted from the body must not depend on the
    //      module-level declarations (and those are carried over as they are)
    {
        let caps: Vec<(String, u32)> = g.enums["Capability"].variants.clone();
        let ams: Vec<(String, u32)> = g.enums["AddressingModel"].variants.clone();
        let mms: Vec<(String, u32)> = g.enums["MemoryModel"].variants.clone();
        let mut work: Vec<(u32, (String, u32), (String, u32))> = vec![];
        for c in &caps {
            for a in &ams {
                for m in &mms {
                    work.push((c.1, a.clone(), m.clone()));
                }
            }
        }
        let vs: Vec<Option<Viol>> = work
            .par_iter()
            .map(|(c, a, m)| {
                let insts = vec![
                    Inst::new("Capability", None, None, vec![Arg::Enum("Capability", *c)]),
                    Inst::new("MemoryModel", None, None, vec![Arg::Enum("AddressingModel", a.1), Arg::Enum("MemoryModel", m.1)]),
                    Inst::new("TypeVoid", None, Some(10), vec![]),
                    Inst::new("TypeInt", None, Some(11), vec![Arg::Lit32(32), Arg::Lit32(0)]),
                    Inst::new("TypeInt", None, Some(12), vec![Arg::Lit32(32), Arg::Lit32(1)]),
                    Inst::new("TypeFloat", None, Some(13), vec![Arg::Lit32(32)]),
                    Inst::new("Constant", Some(11), Some(20), vec![Arg::Lit32(0xFFFF_FFF0)]),
                    Inst::new("Constant", Some(12), Some(21), vec![Arg::Lit32(0xFFFF_FFF0)]),
                    Inst::new("Constant", Some(13), Some(22), vec![Arg::Lit32(0xBFC0_0000)]),
                    Inst::new("Function", Some(10), Some(30), vec![Arg::Mask("FunctionControl", 0), Arg::IdRef(10)]),
                    Inst::new("Label", None, Some(31), vec![]),
                    Inst::new("FOrdNotEqual", Some(11), Some(32), vec![Arg::IdRef(12), Arg::IdRef(13)]),
                    Inst::new("Return", None, None, vec![]),
                    Inst::new("FunctionEnd", None, None, vec![]),
                ];
                let mut words = model::header(0x0001_0300, 0, 100);
                for x in &insts {
                    words.extend(enc(x));
                }
                let rep = json!({"kind": "words", "words": words, "capability": c, "addressing": a.0, "memory_model": m.0});
                match lift_words(&words) {
                    Err(p) => Some(viol("C18:module:panic", format!("capability {} / {} / {}: lifting panics: {}", c, a.0, m.0, p), rep)),
                    Ok(Err(e)) => Some(viol("C18:module:error", format!("capability {} / {} / {}: lifting fails: {}", c, a.0, m.0, e), rep)),
                    Ok(Ok(md)) => {
                        let consts: Vec<String> = storage_entries(&format!("{:?}", md.constants)).iter().map(|e| atoms_compact(e)).collect();
                        let ops: Vec<String> = storage_entries(&format!("{:?}", md.ops)).iter().map(|e| atoms_compact(e)).collect();
                        let mmd = atoms_compact(&format!("{:?}", md.memory_model));
                        let capv: Vec<u32> = md.capabilities.iter().map(|x| *x as u32).collect();
                        let want_consts = vec!["UInt 4294967280".to_string(), "Int -16".to_string(), "Float -1.5".to_string()];
                        if consts != want_consts {
                            Some(viol("C18:module:constants", format!("capability {} / {} / {}: constants {:?}, expected {:?}", c, a.0, m.0, consts, want_consts), rep))
                        } else if ops.len() != 1 || !ops[0].starts_with("FOrdNotEqual") {
                            Some(viol("C18:module:ops", format!("capability {} / {} / {}: operations {:?}, expected one FOrdNotEqual", c, a.0, m.0, ops), rep))
                        } else if capv != vec![*c] {
                            Some(viol("C18:module:capabilities", format!("capability {} lifted as {:?}", c, capv), rep))
                        } else if mmd != format!("MemoryModel {} {}", a.0, m.0) {
                            Some(viol("C18:module:memory-model", format!("memory model {} {} lifted as {}", a.0, m.0, mmd), rep))
                        } else {
                            None
                        }
                    }
                }
            })
            .collect();
        run.outcome("capability_x_memory_model_modules", work.len() as u64);
        n += work.len() as u64;
        let mut seen = std::collections::BTreeSet::new();
        for v in vs.into_iter().flatten() {
            if seen.insert(v.key.clone()) {
                run.add(v);
            }
        }
    }
    let res: Vec<(Vec<Viol>, &'static str)> = specs.par_iter().map(check_module).collect();
    let mut nm = 0u64;
    for (v, o) in res {
        n += 1;
        if o == "module-lifted" {
            nm += 1;
        }
        run.add_all(v);
        run.outcome(o, 1);
    }
    run.set("evaluations", json!(n));
    run.set("distinct_nontrivial", json!(lifted + nm));
    run.set("rule", json!("(a) every result-producing block opcode the lifter handles (the 4 with no lift_op arm are recorded as outside the subset, only 'no panic' applies), every U-inst shape, inside a one-block function behind 48 declared types; every id operand position carries a distinct declared type id; the Debug rendering of the lifted operation is lexed into leaves and compared positionally with the DR operands (an id may appear raw or as Token(index of the referenced type)). (b) modules over every sequence of <= L type declarations from 9 kinds (declared before use), 0-3 32-bit constants / a composite, 1-2 functions of 1-3 blocks with each non-switch terminator (branches to earlier blocks), phis, capability lists of 0-3: version word, capability order, memory model, one type / constant / operation per declaration in order, function control, result type token, block count, terminators, phi argument types. non-trivial = cases lifted and compared"));
    run.set("exhaustive", json!(true));
    run.set("bounds", json!({"op_shapes": work.len(), "module_specs": specs.len(), "type_sequence_length": maxlen, "outside_subset": unsupported}));
    run.set("samples", json!(work.iter().step_by(work.len() / 4 + 1).map(|w| json!({"shape": w.1, "instruction": w.2.short()})).collect::<Vec<_>>()));
    run.assume("the subset is what the lifter handles at the pinned commit: forward branches, switch, OpFunctionCall/OpExtInst and operands the SR types have no field for are outside it");
    run.require_outcome("lifted");
    run.require_outcome("module-lifted");
    run
}
