//! C19 — storage tokens are stable handles (shape S).
use crate::report::{guarded, viol, Run, Tier, Viol};
use crate::xs::{self, Step};
use rspirv::sr::storage::{Storage, Token};
use serde_json::json;

/// value compared on `key` only; key 255 is unequal to itself (NaN-like); key 254 as the LEFT operand equals
/// everything (asymmetric equality: `stored == argument` and `argument == stored` differ)
#[derive(Clone, Copy, Debug)]
pub struct Val {
    key: u8,
    tag: u8,
}
impl PartialEq for Val {
    fn eq(&self, o: &Val) -> bool {
        // keys 100..=110: tolerance equality (|a - b| <= 1): reflexive and symmetric but NOT transitive
        if (100..=110).contains(&self.key) && (100..=110).contains(&o.key) {
            return (self.key as i32 - o.key as i32).abs() <= 1;
        }
        self.key == 254 || (self.key != 255 && self.key == o.key)
    }
}
fn same(a: &Val, b: &Val) -> bool {
    a.key == b.key && a.tag == b.tag
}

#[derive(Clone, Copy, Debug)]
pub enum Op {
    Append(Val),
    Fetch(Val),
}

pub fn alphabet() -> Vec<Op> {
    let vals = [
        Val { key: 0, tag: 0 },
        Val { key: 0, tag: 1 },
        Val { key: 1, tag: 0 },
        Val { key: 2, tag: 0 },
        Val { key: 255, tag: 0 },
        Val { key: 254, tag: 0 },
        Val { key: 100, tag: 0 },
        Val { key: 101, tag: 0 },
        Val { key: 102, tag: 0 },
    ];
    vals.iter().map(|v| Op::Append(*v)).chain(vals.iter().map(|v| Op::Fetch(*v))).collect()
}

fn hist_str(h: &[Op]) -> String {
    h.iter()
        .map(|o| match o {
            Op::Append(v) => format!("A({},{})", v.key, v.tag),
            Op::Fetch(v) => format!("F({},{})", v.key, v.tag),
        })
        .collect::<Vec<_>>()
        .join(",")
}

/// violation class: the description without its numbers ("step 3: append returned index 7 ..." -> "append-returned-index")
fn why_class(why: &str) -> String {
    why.split(": ").nth(1).unwrap_or(why).split_whitespace().filter(|w| !w.chars().any(|c| c.is_ascii_digit())).take(4).collect::<Vec<_>>().join("-").replace(|c: char| !c.is_ascii_alphanumeric() && c != '-' && c != '_', "")
}

/// The same lock-step comparison for ANY value type: `vals` is the value alphabet, `ops` = (is_fetch, index into vals),
/// `prefill` values are appended first. Returns a description of the first disagreement.
pub fn generic_hist<T: PartialEq + Clone>(prefill: &[T], vals: &[T], ops: &[(bool, usize)], same: &dyn Fn(&T, &T) -> bool) -> Option<String> {
    let mut real: Storage<T> = Storage::new();
    let mut model: Vec<T> = vec![];
    let mut handed: Vec<(Token<T>, usize)> = vec![]; // token, model index it stands for
    for v in prefill {
        let t = real.append(v.clone());
        if t.index() as usize != model.len() {
            return Some(format!("prefill: append returned index {} but {} values were stored", t.index(), model.len()));
        }
        // a few tokens of the prefilled part are watched too
        let i = model.len();
        if i == 0 || i == prefill.len() / 2 || i + 1 == prefill.len() {
            handed.push((t, i));
        }
        model.push(v.clone());
    }
    for (step, (is_fetch, vi)) in ops.iter().enumerate() {
        let v = &vals[*vi];
        let prev = model.len();
        if *is_fetch {
            let t = real.fetch_or_append(v.clone());
            match model.iter().position(|m| m == v) {
                Some(p) => {
                    if t.index() as usize != p {
                        return Some(format!("step {}: fetch_or_append returned index {}, first equal stored value is at {}", step, t.index(), p));
                    }
                    handed.push((t, p));
                }
                None => {
                    if t.index() as usize != prev {
                        return Some(format!("step {}: fetch_or_append (miss) returned index {} but {} values were stored", step, t.index(), prev));
                    }
                    model.push(v.clone());
                    handed.push((t, prev));
                }
            }
        } else {
            let t = real.append(v.clone());
            if t.index() as usize != prev {
                return Some(format!("step {}: append returned index {} but {} values were stored", step, t.index(), prev));
            }
            model.push(v.clone());
            handed.push((t, prev));
        }
        for (t, mi) in &handed {
            if !same(&real[*t], &model[*mi]) {
                return Some(format!("step {}: token {} no longer yields the value it was handed out for", step, t.index()));
            }
        }
    }
    None
}

/// all op sequences of length <= depth over (append | fetch) x vals
fn all_ops(nvals: usize, depth: usize) -> Vec<Vec<(bool, usize)>> {
    let alpha: Vec<(bool, usize)> = (0..nvals).flat_map(|i| [(false, i), (true, i)]).collect();
    let mut out = vec![vec![]];
    let mut layer: Vec<Vec<(bool, usize)>> = vec![vec![]];
    for _ in 0..depth {
        let mut next = vec![];
        for h in &layer {
            for a in &alpha {
                let mut t = h.clone();
                t.push(*a);
                next.push(t);
            }
        }
        out.extend(next.iter().cloned());
        layer = next;
    }
    out
}

/// equality that PANICS for one particular pair (stored key 7 compared with argument key 9): the caller catches the
/// panic; the storage must be as it was (every token still yields its value, the next append gets the next index)
#[derive(Clone, Debug)]
struct PanicEq(u8);
impl PartialEq for PanicEq {
    fn eq(&self, o: &PanicEq) -> bool {
        if self.0 == 7 && o.0 == 9 {
            panic!("equality undefined for this pair");
        }
        self.0 == o.0
    }
}

/// a hand-written `ne` that is NOT the negation of `eq` (always false / always true): the statement speaks of values
/// EQUAL to the argument, i.e. of `==`
#[derive(Clone, Debug)]
struct NeLies(u8, bool);
impl PartialEq for NeLies {
    fn eq(&self, o: &NeLies) -> bool {
        self.0 == o.0
    }
    #[allow(clippy::partialeq_ne_impl)]
    fn ne(&self, _o: &NeLies) -> bool {
        self.1
    }
}

#[derive(Clone, Debug)]
struct ZEq;
impl PartialEq for ZEq {
    fn eq(&self, _: &ZEq) -> bool {
        true
    }
}
#[derive(Clone, Debug)]
struct ZNan;
impl PartialEq for ZNan {
    fn eq(&self, _: &ZNan) -> bool {
        false
    }
}
#[derive(Clone, Debug)]
struct Big([u64; 40]);
impl PartialEq for Big {
    fn eq(&self, o: &Big) -> bool {
        self.0[0] == o.0[0]
    }
}

/// other value types (zero-sized with universal / empty equality, heap-allocated, large, floats with NaN) and
/// storages on both sides of 2^8 and 2^16 values
/// a value of exactly N bytes without drop glue whose equality is NOT bytewise: the first byte compared case-insensitively
#[derive(Clone, Copy, Debug)]
struct Sz<const N: usize>([u8; N]);
impl<const N: usize> PartialEq for Sz<N> {
    fn eq(&self, o: &Sz<N>) -> bool {
        self.0[0].to_ascii_lowercase() == o.0[0].to_ascii_lowercase()
    }
}
/// a value of exactly N bytes that is equal to nothing, not even itself
#[derive(Clone, Copy, Debug)]
struct Nv<const N: usize>([u8; N]);
impl<const N: usize> PartialEq for Nv<N> {
    fn eq(&self, _: &Nv<N>) -> bool {
        false
    }
}

/// a value whose comparison takes a millisecond: searching a storage of 700 of them takes most of a second
#[derive(Clone, Debug)]
struct SlowEq(u32);
impl PartialEq for SlowEq {
    fn eq(&self, o: &SlowEq) -> bool {
        std::thread::sleep(std::time::Duration::from_micros(1000));
        self.0 == o.0
    }
}

/// however long a search takes, it finds the first equal value
fn slow_equality() -> Option<Viol> {
    let r = guarded(|| {
        let mut st: Storage<SlowEq> = Storage::new();
        for k in 0..700u32 {
            st.append(SlowEq(k));
        }
        let t = st.fetch_or_append(SlowEq(690));
        let t2 = st.fetch_or_append(SlowEq(5));
        (t.index(), t2.index(), st.fetch_or_append(SlowEq(9999)).index())
    });
    match r {
        Ok((690, 5, 700)) => None,
        other => Some(viol("C19:slow-equality", format!("a storage of 700 values whose comparison takes 1 ms each: fetch_or_append of the 691st / the 6th value / a new value returned indices {:?}, expected (690, 5, 700)", other), json!({"kind": "c19-slow"}))),
    }
}

fn sized_types(tier: Tier) -> (u64, Vec<Viol>) {
    let mut n = 0u64;
    let mut viols = vec![];
    let d = tier.pick(4, 5);
    macro_rules! sizes {
        ($($n:literal),*) => {$(
            {
                let vals = [Sz::<$n>([b'a'; $n]), Sz::<$n>([b'A'; $n]), Sz::<$n>([b'b'; $n])];
                let nv = [Nv::<$n>([1; $n]), Nv::<$n>([1; $n]), Nv::<$n>([2; $n])];
                for ops in all_ops(3, d) {
                    n += 2;
                    let r = guarded(|| generic_hist(&[], &vals, &ops, &|a: &Sz<$n>, b: &Sz<$n>| a == b));
                    if let Some(w) = r.unwrap_or_else(|p| Some(format!("x: panic {}", p))) {
                        if viols.len() < 4 {
                            viols.push(viol(format!("C19:{}-byte-value-with-its-own-equality:{}", $n, why_class(&w)), format!("Storage of a {}-byte value compared case-insensitively on its first byte, operations {:?}: {}", $n, ops, w), json!({"kind": "c19-sized", "bytes": $n, "ops": ops.iter().map(|(f, i)| json!([f, i])).collect::<Vec<_>>()})));
                        }
                    }
                    let r = guarded(|| generic_hist(&[], &nv, &ops, &|a: &Nv<$n>, b: &Nv<$n>| a.0 == b.0));
                    if let Some(w) = r.unwrap_or_else(|p| Some(format!("x: panic {}", p))) {
                        if viols.len() < 4 {
                            viols.push(viol(format!("C19:{}-byte-never-equal-value:{}", $n, why_class(&w)), format!("Storage of a {}-byte value that equals nothing, operations {:?}: {}", $n, ops, w), json!({"kind": "c19-sized", "bytes": $n, "never_equal": true, "ops": ops.iter().map(|(f, i)| json!([f, i])).collect::<Vec<_>>()})));
                        }
                    }
                }
            }
        )*};
    }
    sizes!(1, 2, 3, 4, 5, 7, 8, 9, 12, 15, 16, 17, 24, 31, 32, 33, 48, 63, 64, 65, 96, 127, 128, 129, 256);
    (n, viols)
}

fn other_types(tier: Tier) -> (u64, Vec<Viol>) {
    use rayon::prelude::*;
    let mut n = 0u64;
    let mut viols = vec![];
    let mut report = |ty: &str, ops: &[(bool, usize)], k: usize, why: String| {
        viols.push(viol(format!("C19:{}:{}", ty, why_class(&why)), format!("Storage<{}> prefilled with {} values, operations {:?} (fetch?, value index): {}", ty, k, ops, why), json!({"kind": "c19-generic", "type": ty, "prefill": k, "ops": ops.iter().map(|(f, i)| json!([f, i])).collect::<Vec<_>>()})));
    };
    let d = tier.pick(5, 6);
    for ops in all_ops(1, d) {
        n += 2;
        let r = guarded(|| generic_hist(&[], &[ZEq], &ops, &|_, _| true));
        if let Some(w) = r.unwrap_or_else(|p| Some(format!("x: panic {}", p))) {
            report("ZstAlwaysEqual", &ops, 0, w);
        }
        let r = guarded(|| generic_hist(&[], &[ZNan], &ops, &|_, _| true));
        if let Some(w) = r.unwrap_or_else(|p| Some(format!("x: panic {}", p))) {
            report("ZstNeverEqual", &ops, 0, w);
        }
    }
    let strs = [String::new(), "a".to_string(), "a".to_string() + "", "b".repeat(100)];
    let bigs = [Big([1; 40]), { let mut b = [1; 40]; b[39] = 7; Big(b) }, Big([2; 40])];
    let floats = [0.0f32, -0.0, f32::NAN, 1.5];
    for ops in all_ops(3, tier.pick(4, 5)) {
        n += 3;
        let r = guarded(|| generic_hist(&[], &strs[..3], &ops, &|a, b| a == b));
        if let Some(w) = r.unwrap_or_else(|p| Some(format!("x: panic {}", p))) {
            report("String", &ops, 0, w);
        }
        let r = guarded(|| generic_hist(&[], &bigs, &ops, &|a: &Big, b: &Big| a.0 == b.0));
        if let Some(w) = r.unwrap_or_else(|p| Some(format!("x: panic {}", p))) {
            report("Big([u64;40])", &ops, 0, w);
        }
        let r = guarded(|| generic_hist(&[], &floats[..3], &ops, &|a: &f32, b: &f32| a.to_bits() == b.to_bits()));
        if let Some(w) = r.unwrap_or_else(|p| Some(format!("x: panic {}", p))) {
            report("f32", &ops, 0, w);
        }
    }
    for lie in [false, true] {
        let vals = [NeLies(1, lie), NeLies(1, lie), NeLies(2, lie)];
        for ops in all_ops(3, tier.pick(4, 5)) {
            n += 1;
            let r = guarded(|| generic_hist(&[], &vals, &ops, &|a: &NeLies, b: &NeLies| a.0 == b.0));
            if let Some(w) = r.unwrap_or_else(|p| Some(format!("x: panic {}", p))) {
                report("NeIsNotNotEq", &ops, 0, w);
            }
        }
    }
    // an enum whose equality crosses variants (Cow::Borrowed("int") == Cow::Owned("int"))
    {
        use std::borrow::Cow;
        let vals: [Cow<'static, str>; 4] = [Cow::Borrowed("int"), Cow::Owned("int".to_string()), Cow::Borrowed("x"), Cow::Owned("x".to_string())];
        for ops in all_ops(4, tier.pick(4, 5)) {
            n += 1;
            let r = guarded(|| generic_hist(&[], &vals, &ops, &|a: &Cow<'static, str>, b: &Cow<'static, str>| a == b));
            if let Some(w) = r.unwrap_or_else(|p| Some(format!("x: panic {}", p))) {
                report("Cow<str>", &ops, 0, w);
            }
        }
    }
    // the same operation repeated many times in a row (a counter or heuristic inside an object that looks stateless),
    // between every short prefix and every short continuation
    {
        let vals = [0u32, 0, 1, 2];
        let short: Vec<Vec<(bool, usize)>> = all_ops(3, 2);
        let prefixes: Vec<Vec<(bool, usize)>> = all_ops(3, 3);
        let reps: Vec<usize> = match tier {
            Tier::Quick => vec![8, 23, 24, 25, 32, 64, 255, 256],
            Tier::Thorough => vec![2, 3, 4, 7, 8, 9, 15, 16, 17, 23, 24, 25, 31, 32, 33, 63, 64, 65, 127, 128, 255, 256, 257, 1024],
        };
        let mut work: Vec<(Vec<(bool, usize)>, (bool, usize), usize)> = vec![];
        for p in &prefixes {
            for v in 0..3usize {
                for o in [(true, v), (false, v)] {
                    for r in &reps {
                        work.push((p.clone(), o, *r));
                    }
                }
            }
        }
        let res: Vec<(u64, Option<(Vec<(bool, usize)>, String)>)> = work
            .par_iter()
            .map(|(p, o, r)| {
                let mut cnt = 0;
                for c in &short {
                    let mut ops = p.clone();
                    // index 1 of `vals` equals index 0: appending it creates duplicates, fetching it hits the first copy
                    ops.extend(std::iter::repeat(*o).take(*r));
                    ops.extend(c.iter().cloned());
                    cnt += 1;
                    let rr = guarded(|| generic_hist(&[], &vals[..3], &ops, &|a, b| a == b));
                    if let Some(w) = rr.unwrap_or_else(|pp| Some(format!("x: panic {}", pp))) {
                        return (cnt, Some((ops, w)));
                    }
                }
                (cnt, None)
            })
            .collect();
        for (k, bad) in res {
            n += k;
            if let Some((ops, w)) = bad {
                let shown: Vec<(bool, usize)> = ops.iter().take(6).cloned().collect();
                report("u32/repeated", &shown, ops.len(), w);
            }
        }
    }
    // a comparison that panics in the middle of a scan: the operation is abandoned, nothing may have changed
    {
        let vals = [PanicEq(1), PanicEq(7), PanicEq(9)];
        for ops in all_ops(3, tier.pick(4, 5)) {
            n += 1;
            let r = guarded(|| {
                let mut real: Storage<PanicEq> = Storage::new();
                let mut model: Vec<PanicEq> = vec![];
                let mut handed: Vec<(Token<PanicEq>, usize)> = vec![];
                for (step, (is_fetch, vi)) in ops.iter().enumerate() {
                    let v = vals[*vi].clone();
                    if *is_fetch {
                        // the model decides whether the scan reaches the panicking pair before a hit
                        let mut outcome: Result<Option<usize>, ()> = Ok(None);
                        for (i, m) in model.iter().enumerate() {
                            if m.0 == 7 && v.0 == 9 {
                                outcome = Err(());
                                break;
                            }
                            if m.0 == v.0 {
                                outcome = Ok(Some(i));
                                break;
                            }
                        }
                        let got = std::panic::catch_unwind(std::panic::AssertUnwindSafe(|| real.fetch_or_append(v.clone())));
                        match (outcome, got) {
                            (Err(()), Err(_)) => {}
                            (Ok(Some(p)), Ok(t)) if t.index() as usize == p => handed.push((t, p)),
                            (Ok(None), Ok(t)) if t.index() as usize == model.len() => {
                                handed.push((t, model.len()));
                                model.push(v);
                            }
                            (o, g) => return Some(format!("step {}: fetch_or_append gave {:?}, the model expects {:?}", step, g.map(|t| t.index()).map_err(|_| "panic"), o)),
                        }
                    } else {
                        let t = real.append(v.clone());
                        if t.index() as usize != model.len() {
                            return Some(format!("step {}: append returned index {} but {} values are stored (after an abandoned fetch?)", step, t.index(), model.len()));
                        }
                        handed.push((t, model.len()));
                        model.push(v);
                    }
                    for (t, mi) in &handed {
                        let ok = std::panic::catch_unwind(std::panic::AssertUnwindSafe(|| real[*t].0 == model[*mi].0)).unwrap_or(false);
                        if !ok {
                            return Some(format!("step {}: token {} no longer yields the value it was handed out for", step, t.index()));
                        }
                    }
                }
                None
            });
            if let Some(w) = r.unwrap_or_else(|p| Some(format!("x: panic {}", p))) {
                report("PanicEq", &ops, 0, w);
            }
        }
    }
    // storages around 2^8 and 2^16 values: values 0..k prefilled, then every sequence of <= 2 operations over
    // {first, middle, last stored value, two values not stored}
    let ks: Vec<usize> = match tier {
        Tier::Quick => vec![255, 256, 257, 65535, 65536, 65537],
        Tier::Thorough => vec![127, 128, 129, 255, 256, 257, 1023, 1024, 1025, 4095, 4096, 4097, 32767, 32768, 65534, 65535, 65536, 65537, 65538, 70000, 131072, 131073],
    };
    let res: Vec<(u64, Vec<(Vec<(bool, usize)>, usize, String)>)> = ks
        .par_iter()
        .map(|&k| {
            let prefill: Vec<u32> = (0..k as u32).collect();
            let vals = [0u32, (k / 2) as u32, (k - 1) as u32, k as u32, k as u32 + 1];
            let mut m = 0;
            let mut bad = vec![];
            for ops in all_ops(vals.len(), 2) {
                m += 1;
                let r = guarded(|| generic_hist(&prefill, &vals, &ops, &|a, b| a == b));
                if let Some(w) = r.unwrap_or_else(|p| Some(format!("x: panic {}", p))) {
                    if bad.len() < 2 {
                        bad.push((ops.clone(), k, w));
                    }
                }
            }
            (m, bad)
        })
        .collect();
    for (m, bad) in res {
        n += m;
        for (ops, k, w) in bad {
            report("u32", &ops, k, w);
        }
    }
    (n, viols)
}

pub fn run_hist(h: &[Op]) -> Step {
    let mut viols: Vec<Viol> = vec![];
    let mut outcomes = vec![];
    let res = guarded(|| {
        let mut real: Storage<Val> = Storage::new();
        let mut model: Vec<Val> = vec![];
        // every token ever returned, with the value it must keep yielding
        let mut handed: Vec<(Token<Val>, Val)> = vec![];
        let mut bad: Option<String> = None;
        let mut last = "";
        for (i, op) in h.iter().enumerate() {
            let prev_len = model.len();
            match op {
                Op::Append(v) => {
                    let t = real.append(*v);
                    model.push(*v);
                    if t.index() as usize != prev_len {
                        bad = Some(format!("step {}: append returned index {} but {} values were stored", i, t.index(), prev_len));
                    }
                    if handed.iter().any(|(o, _)| o.index() == t.index()) {
                        bad = Some(format!("step {}: append returned token {} that was returned before", i, t.index()));
                    }
                    handed.push((t, *v));
                    last = "append";
                }
                Op::Fetch(v) => {
                    let t = real.fetch_or_append(*v);
                    let first_eq = model.iter().position(|m| m == v);
                    match first_eq {
                        Some(p) => {
                            if t.index() as usize != p {
                                bad = Some(format!("step {}: fetch_or_append returned index {}, first equal stored value is at {}", i, t.index(), p));
                            }
                            handed.push((t, model[p]));
                            last = if p == 0 { "fetch_hit_first" } else { "fetch_hit_later" };
                            if model.iter().filter(|m| *m == v).count() > 1 {
                                last = "fetch_hit_with_duplicates";
                            }
                        }
                        None => {
                            model.push(*v);
                            if t.index() as usize != prev_len {
                                bad = Some(format!("step {}: fetch_or_append (miss) returned index {} but {} values were stored", i, t.index(), prev_len));
                            }
                            handed.push((t, *v));
                            last = if v.key == 255 { "fetch_miss_self_unequal" } else { "fetch_miss" };
                        }
                    }
                }
            }
            if bad.is_some() {
                break;
            }
            // every token handed out so far still yields its value
            for (t, v) in &handed {
                let got = real[*t];
                if !same(&got, v) {
                    bad = Some(format!("step {}: token {} now yields ({},{}) instead of ({},{})", i, t.index(), got.key, got.tag, v.key, v.tag));
                    break;
                }
            }
            if bad.is_some() {
                break;
            }
        }
        (bad, model, last.to_string())
    });
    match res {
        Err(p) => {
            viols.push(viol(format!("C19:panic@{}", crate::report::panic_class(&p)), format!("history [{}] panics: {}", hist_str(h), p), json!({"kind": "c19", "history": hist_str(h)})));
            Step { key: None, viols, outcomes }
        }
        Ok((Some(why), _, _)) => {
            viols.push(viol(format!("C19:{}", why_class(&why)), format!("history [{}]: {}", hist_str(h), why), json!({"kind": "c19", "history": hist_str(h)})));
            Step { key: None, viols, outcomes }
        }
        Ok((None, model, last)) => {
            if !last.is_empty() {
                outcomes.push(last);
            }
            let key = model.iter().map(|v| format!("{}.{}", v.key, v.tag)).collect::<Vec<_>>().join(",");
            Step { key: Some(key), viols, outcomes }
        }
    }
}

pub fn run(tier: Tier) -> Run {
    let mut run = Run::new("C19", tier, "model_checking");
    let alpha = alphabet();
    let d_enum = tier.pick(4, 5);
    let d_clos = tier.pick(5, 7);
    let a = xs::enumerate(&alpha, d_enum, &run_hist);
    let b = xs::closure(&alpha, d_clos, 5_000_000, &run_hist);
    // ---- non-initial states: storages already holding k distinct values (k up to K), then every 2-step continuation
    //      over fetches / appends of each stored value and the base alphabet (size- or position-dependent shortcuts)
    let kmax = tier.pick(72, 140);
    let big: Vec<(u64, Vec<crate::report::Viol>)> = {
        use rayon::prelude::*;
        (0..=kmax)
            .into_par_iter()
            .map(|k| {
                let prefix: Vec<Op> = (0..k).map(|i| Op::Append(Val { key: if i < 80 { 10 + i as u8 } else { 112 + (i - 80) as u8 }, tag: 0 })).collect();
                let mut ext = alphabet();
                // fetch / append of the first 3, the middle and the last 3 stored values (positions matter, not all k)
                let key_of = |i: usize| if i < 80 { 10 + i as u8 } else { 112 + (i - 80) as u8 };
                let mut idx: Vec<usize> = (0..k.min(3)).chain(k / 2..(k / 2 + 1).min(k)).chain((k as usize).saturating_sub(3)..k).collect();
                idx.sort();
                idx.dedup();
                for i in idx {
                    ext.push(Op::Fetch(Val { key: key_of(i), tag: 1 }));
                    ext.push(Op::Append(Val { key: key_of(i), tag: 2 }));
                }
                let mut n = 0u64;
                let mut vs = vec![];
                for o1 in &ext {
                    for o2 in &ext {
                        let mut h = prefix.clone();
                        h.push(*o1);
                        h.push(*o2);
                        n += 1;
                        let st = run_hist(&h);
                        for v in st.viols {
                            if vs.len() < 3 {
                                vs.push(v);
                            }
                        }
                    }
                }
                (n, vs)
            })
            .collect()
    };
    let mut big_n = 0u64;
    for (n, vs) in big {
        big_n += n;
        run.add_all(vs);
    }
    run.outcome("continuations_from_prefilled_storages", big_n);
    let (other_n, other_v) = other_types(tier);
    run.add_all(other_v);
    if let Some(v) = slow_equality() {
        run.add(v);
    }
    run.outcome("slow_equality_searches", 3);
    let (sized_n, sized_v) = sized_types(tier);
    run.add_all(sized_v);
    run.outcome("histories_over_value_sizes_1_to_256_bytes", sized_n);
    let other_n = other_n + sized_n;
    // storages that come out of the lifter: every function's `blocks` storage of a lifted three-function module is a
    // storage like any other: appending to it returns the index equal to the number of entries it holds
    {
        use crate::model::{enc, header, Arg, Inst};
        let mut insts = vec![
            Inst::new("Capability", None, None, vec![Arg::Enum("Capability", 1)]),
            Inst::new("MemoryModel", None, None, vec![Arg::Enum("AddressingModel", 0), Arg::Enum("MemoryModel", 1)]),
            Inst::new("TypeVoid", None, Some(10), vec![]),
            Inst::new("TypeFunction", None, Some(11), vec![Arg::IdRef(10)]),
        ];
        let mut next = 20u32;
        for blocks in [2usize, 3, 1, 2] {
            insts.push(Inst::new("Function", Some(10), Some(next), vec![Arg::Mask("FunctionControl", 0), Arg::IdRef(11)]));
            next += 1;
            for _ in 0..blocks {
                insts.push(Inst::new("Label", None, Some(next), vec![]));
                next += 1;
                insts.push(Inst::new("Return", None, None, vec![]));
            }
            insts.push(Inst::new("FunctionEnd", None, None, vec![]));
        }
        let mut words = header(0x0001_0300, 0, 100);
        for i in &insts {
            words.extend(enc(i));
        }
        let r = guarded(|| -> Result<(), String> {
            let m = rspirv::dr::load_words(&words).map_err(|e| format!("load: {}", e))?;
            let mut sm = rspirv::lift::LiftContext::convert(&m).map_err(|e| format!("lift: {:?}", e))?;
            let expect = [2usize, 3, 1, 2];
            for (fi, f) in sm.functions.iter_mut().enumerate() {
                let t = f.blocks.append(rspirv::sr::module::Block { arguments: vec![], ops: vec![], terminator: rspirv::sr::ops::Terminator::TerminateRayKHR });
                if t.index() as usize != expect[fi] {
                    return Err(format!("function {} of a lifted module has {} blocks; append to its block storage returned index {}", fi, expect[fi], t.index()));
                }
                if f.start_block.index() != 0 {
                    return Err(format!("function {}: start_block has index {}", fi, f.start_block.index()));
                }
            }
            Ok(())
        });
        match r {
            Err(p) => run.add(viol("C19:lifted-storage:panic", format!("appending to the block storage of a lifted function panics: {}", p), json!({"kind": "c19-lifted"}))),
            Ok(Err(w)) if w.starts_with("load") || w.starts_with("lift") => run.machinery(format!("C19 lifted-storage module: {}", w)),
            Ok(Err(w)) => run.add(viol("C19:lifted-storage:append-index", w, json!({"kind": "c19-lifted"}))),
            Ok(Ok(())) => run.outcome("lifted_block_storages", 4),
        }
    }
    run.outcome("histories_over_other_value_types_and_large_storages", other_n);
    let big_n = big_n + other_n;
    run.add_all(a.viols.clone());
    run.add_all(b.viols.clone());
    run.merge_outcomes(&a.outcomes);
    run.merge_outcomes(&b.outcomes);
    run.set("states", json!(b.states.max(a.states)));
    run.set("transitions", json!(a.transitions + b.transitions + big_n));
    run.set("traces_validated_against_impl", json!(a.histories_replayed + b.histories_replayed + big_n));
    run.set("max_depth", json!(b.max_depth.max(a.max_depth)));
    run.set("bounds", json!({"alphabet": alpha.len(), "full_enumeration_depth": d_enum, "closure_depth": d_clos,
        "values": "6 values: two equal-by-key with different tags, two distinct, one unequal to itself, one whose equality is asymmetric", "other_value_types": "zero-sized (always equal / never equal), String, 320-byte arrays keyed on one element, f32 with NaN and signed zero; u32 storages prefilled with 255..65537 (thorough ..131073) values",
        "prefilled_storages": format!("k = 0..{} distinct values, then every 2-step continuation over the base alphabet + fetch/append of each stored value", kmax)}));
    run.set("bound_completed", json!({"enumeration_depth": a.depth_completed, "closure_depth": if b.depth_completed == usize::MAX { d_clos } else { b.depth_completed }}));
    run.set("enumeration", json!({"states": a.states, "transitions": a.transitions}));
    run.set("closure", json!({"states": b.states, "transitions": b.transitions, "per_depth_states": b.per_depth_states}));
    if tier == Tier::Thorough {
        crate::report::second_engine(&mut run, "C19", 6);
    }
    run.set("caps_hit", json!(b.caps_hit));
    run.set("exhaustive", json!(b.caps_hit.is_empty()));
    run.set("samples", json!(a.sample_histories.iter().chain(b.sample_histories.iter()).collect::<Vec<_>>()));
    run.set("rule", json!("state = history replayed on a fresh real Storage in lock-step with a Vec model; canonical key = the stored (key,tag) sequence (the whole observable state); every transition checks the returned index, freshness, lookup of the new token and of EVERY earlier token"));
    run.assume("Storage has no state beyond its value vector (closure key = full stored sequence, so no merging assumption is made)");
    for o in ["append", "fetch_hit_first", "fetch_hit_later", "fetch_hit_with_duplicates", "fetch_miss", "fetch_miss_self_unequal"] {
        run.require_outcome(o);
    }
    run
}
