//! C12 — Builder calls never panic, failed calls change nothing, structure is enforced (shape S).
use crate::bsys::{self, BOp, Ip};
use crate::report::{Run, Tier};
use crate::xs;
use serde_json::json;

pub fn alphabet() -> Vec<BOp> {
    vec![
        BOp::BeginFunction,
        BOp::EndFunction,
        BOp::BeginBlock,
        BOp::BeginBlockNoLabel,
        BOp::Ret,
        BOp::Branch,
        BOp::Nop,
        BOp::IAdd,
        BOp::InsertNop(Ip::Begin),
        BOp::InsertNop(Ip::FromBegin1),
        BOp::InsertNop(Ip::FromEnd1),
        BOp::InsertRet(Ip::Begin),
        BOp::InsertRet(Ip::FromEnd1),
        BOp::FunctionParameter,
        BOp::Variable,
        BOp::Undef,
        BOp::Line,
        BOp::NoLine,
        BOp::Capability,
        BOp::TypeVoid,
        BOp::ConstantBit32,
        BOp::SelectFunction(None),
        BOp::SelectFunction(Some(0)),
        BOp::SelectFunction(Some(1)),
        BOp::SelectFunction(Some(2)),
        BOp::SelectBlock(None),
        BOp::SelectBlock(Some(0)),
        BOp::SelectBlock(Some(1)),
        BOp::SelectBlock(Some(2)),
        BOp::PopInstruction,
        BOp::Continue,
        BOp::NameFunction(0),
        BOp::NameFunction(1),
        BOp::SelectByName(0),
        BOp::SelectByName(1),
        BOp::FindReturnBlocks,
        BOp::Import(0),
        BOp::Import(1),
        BOp::ExtInstVia,
        BOp::DecorateFunction(0),
        BOp::BeginFunctionId(7),
        BOp::Phi,
    ]
}

pub fn run(tier: Tier) -> Run {
    let mut run = Run::new("C12", tier, "model_checking");
    let alpha = alphabet();
    let f = |h: &[BOp]| bsys::to_step("C12", h, bsys::replay(h));
    let d_enum = tier.pick(4, 5);
    let d_clos = tier.pick(5, 7);
    let a = xs::enumerate(&alpha, d_enum, &f);
    let b = xs::closure(&alpha, d_clos, tier.pick(300_000, 6_000_000), &f);
    run.add_all(a.viols.clone());
    run.add_all(b.viols.clone());
    run.merge_outcomes(&a.outcomes);
    run.merge_outcomes(&b.outcomes);
    // ---- non-initial states: every continuation of depth <= D from larger prebuilt modules (two named functions with
    //      3 and 1 blocks; a selection deep inside one of them; an open block holding instructions; a second open block)
    let two_fns = vec![
        BOp::BeginFunction, BOp::BeginBlock, BOp::Ret, BOp::BeginBlock, BOp::Ret, BOp::BeginBlock, BOp::Ret, BOp::EndFunction,
        BOp::BeginFunction, BOp::BeginBlock, BOp::Ret, BOp::EndFunction, BOp::NameFunction(0), BOp::NameFunction(1),
    ];
    let mut prefixes: Vec<Vec<BOp>> = vec![two_fns.clone()];
    for (f, b) in [(0usize, 2usize), (1, 0), (0, 0)] {
        let mut p = two_fns.clone();
        p.extend([BOp::SelectFunction(Some(f)), BOp::SelectBlock(Some(b))]);
        prefixes.push(p);
    }
    prefixes.push(vec![BOp::BeginFunction, BOp::BeginBlock, BOp::Nop, BOp::Nop]);
    // two functions carrying the SAME (explicit) result id, the first with one block, the second with two, both named;
    // and a function that is the target of a linkage decoration
    let same_id = vec![
        BOp::BeginFunctionId(7), BOp::BeginBlock, BOp::Ret, BOp::EndFunction,
        BOp::BeginFunctionId(7), BOp::BeginBlock, BOp::Ret, BOp::BeginBlock, BOp::Ret, BOp::EndFunction, BOp::NameFunction(0),
    ];
    prefixes.push(same_id.clone());
    {
        let mut p = same_id.clone();
        p.extend([BOp::SelectFunction(Some(1)), BOp::SelectBlock(Some(1))]);
        prefixes.push(p);
    }
    prefixes.push(vec![BOp::BeginFunction, BOp::DecorateFunction(0)]);
    prefixes.push(vec![BOp::BeginFunction, BOp::BeginBlock, BOp::Ret, BOp::EndFunction, BOp::DecorateFunction(0), BOp::SelectFunction(Some(0))]);
    prefixes.push(vec![BOp::BeginFunction, BOp::BeginBlock, BOp::Ret, BOp::BeginBlock, BOp::IAdd]);
    // functions whose result type and function type are DECLARED (void / int / float return): whether a terminator is
    // accepted depends on the selection only
    for k in 0..3u8 {
        prefixes.push(vec![BOp::DeclareFnTypes(k)]);
        prefixes.push(vec![BOp::DeclareFnTypes(k), BOp::BeginFunction, BOp::BeginBlock]);
    }
    // a finished, named function and a second function whose block is still open (functions built interleaved)
    prefixes.push(vec![BOp::BeginFunction, BOp::BeginBlock, BOp::Ret, BOp::EndFunction, BOp::NameFunction(0), BOp::BeginFunction, BOp::BeginBlock]);
    prefixes.push(vec![BOp::BeginFunction, BOp::BeginBlock, BOp::Ret, BOp::BeginBlock, BOp::Ret, BOp::EndFunction, BOp::NameFunction(0), BOp::BeginFunction, BOp::BeginBlock, BOp::Ret, BOp::BeginBlock, BOp::Nop]);
    let d_cont = tier.pick(3, 4);
    let mut cont_transitions = 0u64;
    for p in &prefixes {
        let fp = |h: &[BOp]| {
            let mut whole = p.clone();
            whole.extend_from_slice(h);
            bsys::to_step("C12", &whole, bsys::replay(&whole))
        };
        let e = xs::enumerate(&alpha, d_cont, &fp);
        run.add_all(e.viols.clone());
        run.merge_outcomes(&e.outcomes);
        cont_transitions += e.transitions;
    }
    run.outcome("continuations_from_prebuilt_modules", cont_transitions);
    // ---- repetition: every call of the alphabet 300 times in a row after each of four prefixes (a count that only a long,
    //      unshortenable history reaches: the 256th parameter, the 256th instruction of a block ..), every step checked
    {
        use rayon::prelude::*;
        let pres: Vec<Vec<BOp>> = vec![vec![], vec![BOp::BeginFunction], vec![BOp::BeginFunction, BOp::BeginBlock], vec![BOp::BeginFunction, BOp::BeginBlock, BOp::Ret]];
        let work: Vec<(usize, usize)> = (0..pres.len()).flat_map(|p| (0..alpha.len()).map(move |o| (p, o))).collect();
        let steps: Vec<xs::Step> = work
            .par_iter()
            .map(|&(p, o)| {
                let mut h = pres[p].clone();
                for _ in 0..300 {
                    h.push(alpha[o].clone());
                }
                bsys::to_step("C12", &h, bsys::replay(&h))
            })
            .collect();
        for st in steps {
            cont_transitions += 300;
            for mut v in st.viols {
                v.what = v.what.chars().take(200).collect::<String>() + " [...] " + &v.what.chars().rev().take(400).collect::<String>().chars().rev().collect::<String>();
                v.key = format!("{}:after-repetition", v.key);
                run.add(v);
            }
        }
        run.outcome("repetition_histories", work.len() as u64);
    }
    // ---- names: every sequence over {name(function k | an unrelated id, text), select_function_by_name(text)} for ten texts
    //      (prefixes of each other, multi-byte characters, mangled forms, the empty string) + the structural calls
    {
        let mut al: Vec<BOp> = vec![BOp::BeginFunction, BOp::EndFunction, BOp::BeginBlock, BOp::Ret, BOp::SelectFunction(None)];
        for j in 0..bsys::TEXTS.len() {
            al.push(BOp::NameAny(Some(0), j));
            if j < 3 {
                al.push(BOp::NameAny(Some(1), j));
            }
            al.push(BOp::NameAny(None, j));
            al.push(BOp::SelectByText(j));
        }
        for pre in [vec![], vec![BOp::BeginFunction, BOp::EndFunction, BOp::BeginFunction, BOp::BeginBlock]] {
            let fp = |h: &[BOp]| {
                let mut whole = pre.clone();
                whole.extend_from_slice(h);
                bsys::to_step("C12", &whole, bsys::replay(&whole))
            };
            let e = xs::enumerate(&al, tier.pick(3, 4), &fp);
            run.add_all(e.viols.clone());
            run.merge_outcomes(&e.outcomes);
            cont_transitions += e.transitions;
        }
    }
    // ---- per method (vcalls --c12): every one of the 1149 instruction-emitting methods with no block selected
    let vcalls = std::env::current_exe().ok().and_then(|e| e.parent().map(|d| d.join("vcalls"))).filter(|v| v.exists()).unwrap_or_else(|| crate::report::verif_root().join("harness").join("target").join("release").join("vcalls"));
    match std::process::Command::new(&vcalls).arg("--c12").output() {
        Ok(o) if o.status.success() => match serde_json::from_slice::<serde_json::Value>(&o.stdout) {
            Ok(d) => {
                run.outcome("per_method_calls_without_block", d["calls"].as_u64().unwrap_or(0));
                for v in d["violations"].as_array().cloned().unwrap_or_default() {
                    run.add(crate::report::viol(v["key"].as_str().unwrap_or("C12:method"), v["what"].as_str().unwrap_or(""), v["replay"].clone()));
                }
            }
            Err(e) => run.machinery(format!("vcalls --c12 printed no JSON: {}", e)),
        },
        Ok(o) => run.machinery(format!("vcalls --c12 failed: {}", String::from_utf8_lossy(&o.stderr).lines().last().unwrap_or(""))),
        Err(e) => run.machinery(format!("cannot run {}: {} (bin/check C12 builds it)", vcalls.display(), e)),
    }
    run.require_outcome("per_method_calls_without_block");
    run.set("states", json!(b.states));
    run.set("transitions", json!(a.transitions + b.transitions + cont_transitions));
    run.set("traces_validated_against_impl", json!(a.histories_replayed + b.histories_replayed + cont_transitions));
    run.set("max_depth", json!(b.max_depth));
    run.set("bounds", json!({"alphabet": alpha.iter().map(bsys::op_str).collect::<Vec<_>>(), "full_enumeration_depth": d_enum, "closure_depth": d_clos, "prebuilt_prefixes": prefixes.len(), "continuation_depth": d_cont}));
    run.set("bound_completed", json!({"enumeration_depth": a.depth_completed, "closure_depth": if b.depth_completed == usize::MAX { d_clos } else { b.depth_completed }}));
    run.set("enumeration", json!({"states": a.states, "transitions": a.transitions}));
    run.set("closure", json!({"states": b.states, "transitions": b.transitions, "per_depth_states": b.per_depth_states}));
    if tier == Tier::Thorough {
        crate::report::second_engine(&mut run, "C12", 5);
    }
    run.set("caps_hit", json!(b.caps_hit));
    run.set("exhaustive", json!(b.caps_hit.is_empty()));
    run.set("samples", json!(a.sample_histories.iter().chain(b.sample_histories.iter()).collect::<Vec<_>>()));
    run.set("rule", json!("state = call history replayed on a fresh real Builder in lock-step with the A.5 model; canonical key = hash of the full observable state (every instruction of every section/function/block, selection, next id); every transition checks Ok/Err, the exact module delta, the selection, id freshness, and the selection invariant; `Continue` restarts from module() through Builder::new_from_module (non-initial states)"));
    run.assume("the Builder's behaviour depends only on its module, selection and next id (all part of the key)");
    for o in ["err:BeginFunction", "err:BeginBlock", "err:EndFunction", "err:FunctionParameter", "err:Ret", "err:Nop", "err:IAdd", "ok:BeginFunction", "ok:Ret", "ok:EndFunction", "ok:SelectFunction", "ok:SelectBlock", "ok:PopInstruction", "err:PopInstruction", "err:SelectBlock", "err:SelectFunction", "continue", "ok:InsertNop"] {
        run.require_outcome(o);
    }
    run
}
