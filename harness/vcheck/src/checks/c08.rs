//! C08 — spirv enums and bit-masks map numbers and names exactly as declared (shape E).
use crate::golden::golden;
use crate::report::{viol, Run, Tier, Viol};
use rayon::prelude::*;
use rspirv::spirv;
use serde_json::json;
use std::collections::BTreeSet;
use std::str::FromStr;

mod names {
    use rspirv::spirv;
    include!("../../../../reference/gen_names.rs");
}

struct EnumOps {
    name: &'static str,
    /// sweeps [lo, hi] inclusive; `declared` is sorted ascending; returns (accepted count, mismatches (n, why))
    sweep: fn(u64, u64, &[u32]) -> (u64, Vec<(u32, &'static str)>),
    debug: fn(u32) -> Option<String>,
    from_str: Option<fn(&str) -> Option<u32>>,
}

struct MaskOps {
    name: &'static str,
    sweep: fn(u64, u64, u32) -> (u64, Vec<(u32, &'static str)>),
}

macro_rules! enum_ops_list { ($($k:ident),*) => { vec![ $( EnumOps {
    name: stringify!($k),
    sweep: |lo, hi, declared| {
        let mut bad = vec![];
        let mut acc = 0u64;
        let mut di = declared.partition_point(|&d| (d as u64) < lo);
        let mut n = lo;
        while n <= hi {
            let x = n as u32;
            let want = di < declared.len() && declared[di] == x;
            if want { di += 1; }
            match spirv::$k::from_u32(x) {
                Some(v) => {
                    acc += 1;
                    if !want { if bad.len() < 8 { bad.push((x, "accepted an undeclared number")); } }
                    else if v as u32 != x { if bad.len() < 8 { bad.push((x, "value does not convert back to the same number")); } }
                }
                None => if want { if bad.len() < 8 { bad.push((x, "rejected a declared number")); } }
            }
            n += 1;
        }
        (acc, bad)
    },
    debug: |n| spirv::$k::from_u32(n).map(|v| format!("{:?}", v)),
    from_str: None,
} ),* ] } }

macro_rules! fromstr_list { ($($k:ident),*) => { vec![ $( (stringify!($k),
    (|s: &str| spirv::$k::from_str(s).ok().map(|v| v as u32)) as fn(&str) -> Option<u32>) ),* ] } }

macro_rules! mask_ops_list { ($($k:ident),*) => { vec![ $( MaskOps {
    name: stringify!($k),
    sweep: |lo, hi, all| {
        let mut bad = vec![];
        let mut acc = 0u64;
        let mut n = lo;
        while n <= hi {
            let x = n as u32;
            let want = x & !all == 0;
            match spirv::$k::from_bits(x) {
                Some(v) => {
                    acc += 1;
                    if !want { if bad.len() < 8 { bad.push((x, "accepted a number with an undeclared bit")); } }
                    else if v.bits() != x { if bad.len() < 8 { bad.push((x, "bits() differs from the accepted number")); } }
                }
                None => if want { if bad.len() < 8 { bad.push((x, "rejected a number made of declared bits")); } }
            }
            n += 1;
        }
        (acc, bad)
    },
} ),* ] } }

fn quick_points(declared: &[u32]) -> Vec<(u64, u64)> {
    // [0, 2^16) ∪ ±32 around every declared value ∪ 2^k, 2^k±1 ∪ v|2^16, v|2^31 ; as merged inclusive ranges
    let mut pts: BTreeSet<u32> = BTreeSet::new();
    for &d in declared {
        for delta in -32i64..=32 {
            let v = d as i64 + delta;
            if (0..=u32::MAX as i64).contains(&v) {
                pts.insert(v as u32);
            }
        }
        pts.insert(d | (1 << 16));
        pts.insert(d | (1 << 31));
        pts.insert(d.wrapping_add(1 << 16));
        // bit patterns around a declared value: every single higher bit set, the top byte set, shifted into the high
        // half, byte-swapped, alternating bits on top, complemented
        for k in 16..32 {
            pts.insert(d | (1 << k));
            pts.insert(d ^ (1 << k));
        }
        pts.insert(d | 0xFF00_0000);
        pts.insert(d.wrapping_shl(16));
        pts.insert(d.swap_bytes());
        pts.insert(d ^ 0xAAAA_AAAA);
        pts.insert(d ^ 0x5555_5555);
        pts.insert(d | 0xAAAA_0000);
        pts.insert(!d);
    }
    for k in 0..32 {
        let p = 1u32 << k;
        pts.insert(p);
        pts.insert(p.wrapping_sub(1));
        pts.insert(p.wrapping_add(1));
    }
    pts.insert(u32::MAX);
    pts.insert(u32::MAX - 1);
    let mut ranges = vec![(0u64, 0xFFFFu64)];
    for p in pts {
        let p = p as u64;
        let last = ranges.last_mut().unwrap();
        if p <= last.1 + 1 {
            if p > last.1 {
                last.1 = p
            }
        } else {
            ranges.push((p, p));
        }
    }
    ranges
}

pub fn run(tier: Tier) -> Run {
    let g = golden();
    let mut run = Run::new("C08", tier, "exploration");
    let mut enum_ops: Vec<EnumOps> = for_each_enum!(enum_ops_list);
    let fs: Vec<(&str, fn(&str) -> Option<u32>)> = for_each_fromstr_enum!(fromstr_list);
    for e in enum_ops.iter_mut() {
        e.from_str = fs.iter().find(|f| f.0 == e.name).map(|f| f.1);
    }
    let mask_ops: Vec<MaskOps> = for_each_mask!(mask_ops_list);

    // the harness must know exactly the golden's types (a type added/removed in the tree breaks the build or this)
    let en: BTreeSet<&str> = enum_ops.iter().map(|e| e.name).collect();
    let gn: BTreeSet<&str> = g.enums.keys().map(|s| s.as_str()).collect();
    if en != gn {
        run.machinery("enum type list differs from golden");
    }

    // ---- state behind a pure-looking function: (a) the very first conversions this process makes, per type, of numbers
    //      a sentinel could collide with; (b) a number accepted by one enumeration asked of EVERY other enumeration
    //      directly afterwards (single-threaded on purpose: nothing else runs yet)
    {
        for e in &enum_ops {
            let declared: Vec<u32> = g.enums[e.name].declared().into_iter().collect();
            for x in [0x7FFF_FFFFu32, 0xFFFF_FFFF, 0x8000_0000, 0] {
                let (_, bad) = (e.sweep)(x as u64, x as u64, &declared);
                for (n, why) in bad {
                    run.add(viol(format!("C08:{}:from_u32:{}:first-use", e.name, n), format!("{}::from_u32({}) as the first conversion of the process {}", e.name, n, why), json!({"kind": "c08-number", "type": e.name, "number": n, "first_use": true})));
                }
            }
        }
        let decl: Vec<Vec<u32>> = enum_ops.iter().map(|e| g.enums[e.name].declared().into_iter().collect()).collect();
        let mut cross = 0u64;
        for (xi, x) in enum_ops.iter().enumerate() {
            // up to 40 declared values of X, spread over its range
            let step = (decl[xi].len() / 40).max(1);
            for &n in decl[xi].iter().step_by(step) {
                for (yi, y) in enum_ops.iter().enumerate() {
                    if xi == yi {
                        continue;
                    }
                    let _ = (x.sweep)(n as u64, n as u64, &decl[xi]);
                    let (_, bad) = (y.sweep)(n as u64, n as u64, &decl[yi]);
                    cross += 1;
                    for (m, why) in bad {
                        run.add(viol(format!("C08:{}:from_u32:{}:after-{}", y.name, m, x.name), format!("{}::from_u32({}) directly after {}::from_u32({}) {}", y.name, m, x.name, n, why), json!({"kind": "c08-cross", "first": x.name, "second": y.name, "number": m})));
                    }
                }
            }
        }
        // from_str takes any &str: every declared name (and a near miss) handed over as a slice that starts at each of the
        // eight residues of an 8-byte boundary gives what the freshly allocated string gives
        {
            let mut n = 0u64;
            for e in &enum_ops {
                let Some(fs) = e.from_str else { continue };
                let names: Vec<String> = g.enums[e.name].variants.iter().map(|v| v.0.clone()).collect();
                for name in names.iter().flat_map(|x| [x.clone(), format!("{}_", x), format!("_{}", x)]) {
                    let want = fs(&name);
                    let mut store = vec![b'#'; name.len() + 24];
                    let base = (8 - store.as_ptr() as usize % 8) % 8;
                    for off in 0..8usize {
                        let st = base + off;
                        store[st..st + name.len()].copy_from_slice(name.as_bytes());
                        let view = std::str::from_utf8(&store[st..st + name.len()]).unwrap();
                        n += 1;
                        if fs(view) != want {
                            run.add(viol(format!("C08:{}:from_str:alignment", e.name), format!("{}::from_str({:?}) gives {:?} for a freshly allocated string and {:?} for the same text {} byte(s) behind an 8-byte boundary", e.name, name, want, fs(view), off), json!({"kind": "c08-from-str-aligned", "type": e.name, "name": name, "offset": off})));
                            break;
                        }
                        for b in store[st..st + name.len()].iter_mut() {
                            *b = b'#';
                        }
                    }
                }
            }
            run.outcome("from_str_at_every_alignment", n);
        }
        run.outcome("cross_type_conversion_pairs", cross);
        // the same inside one type: from_u32(a) and then from_u32(b) for every ordered pair of (declared value | declared
        // value +- 1) of that type (at most 400 x 400 per type), and after 300 repetitions of from_u32(a)
        let mut same = 0u64;
        for (xi, x) in enum_ops.iter().enumerate() {
            let mut probe: Vec<u32> = decl[xi].iter().flat_map(|&n| [n, n.wrapping_add(1)]).collect();
            probe.sort();
            probe.dedup();
            let step = (probe.len() / 400).max(1);
            let probe: Vec<u32> = probe.into_iter().step_by(step).collect();
            for &a in &probe {
                for &b in &probe {
                    let _ = (x.sweep)(a as u64, a as u64, &decl[xi]);
                    let (_, bad) = (x.sweep)(b as u64, b as u64, &decl[xi]);
                    same += 1;
                    for (m, why) in bad {
                        run.add(viol(format!("C08:{}:from_u32:after-same-type", x.name), format!("{}::from_u32({}) directly after {}::from_u32({}) {}", x.name, m, x.name, a, why), json!({"kind": "c08-pair", "type": x.name, "first": a, "second": m})));
                    }
                }
                if decl[xi].contains(&a) {
                    for _ in 0..300 {
                        let _ = (x.sweep)(a as u64, a as u64, &decl[xi]);
                    }
                    let (_, bad) = (x.sweep)(a as u64 + 1, a as u64 + 1, &decl[xi]);
                    for (m, why) in bad {
                        run.add(viol(format!("C08:{}:from_u32:after-repetition", x.name), format!("{}::from_u32({}) after 300 conversions of {} {}", x.name, m, a, why), json!({"kind": "c08-repeat", "type": x.name, "repeated": a, "then": m})));
                    }
                }
            }
        }
        run.outcome("same_type_conversion_pairs", same);
        // long repetition: 5 000 conversions of the same declared value (70 000 for every 25th), then EVERY number of
        // 0..=8191 and the value's neighbourhood: a conversion does not depend on how often a value was converted before
        {
            use rayon::prelude::*;
            let work: Vec<(usize, u32, usize)> = enum_ops.iter().enumerate().flat_map(|(xi, _)| decl[xi].iter().copied().enumerate().map(move |(k, a)| (xi, a, k))).collect();
            // on ONE thread, with nothing else running: conversions made by other threads in between would break up the run
            // of identical conversions
            let bad: Vec<crate::report::Viol> = work
                .iter()
                .filter_map(|&(xi, a, k)| {
                    let x = &enum_ops[xi];
                    let reps = if k % 25 == 0 { 70_000 } else { 5_000 };
                    for _ in 0..reps {
                        let _ = (x.sweep)(a as u64, a as u64, &decl[xi]);
                    }
                    let (_, bad) = (x.sweep)(0, 8191, &decl[xi]);
                    let (_, bad2) = (x.sweep)((a as u64).saturating_sub(300), a as u64 + 5000, &decl[xi]);
                    bad.into_iter().chain(bad2).next().map(|(m, why)| viol(format!("C08:{}:from_u32:after-long-repetition", x.name), format!("{}::from_u32({}) after {} conversions of {} {}", x.name, m, reps, a, why), json!({"kind": "c08-repeat", "type": x.name, "repeated": a, "times": reps, "then": m})))
                })
                .collect();
            run.outcome("long_repetition_then_sweep", work.len() as u64);
            for v in bad.into_iter().take(5) {
                run.add(v);
            }
        }
    }
    // ---- number sweeps -------------------------------------------------------------------
    enum Task<'a> {
        E(&'a EnumOps, Vec<u32>, u64, u64),
        M(&'a MaskOps, u32, u64, u64),
    }
    let mut tasks: Vec<Task> = vec![];
    let chunk: u64 = 1 << 24;
    for e in &enum_ops {
        let declared: Vec<u32> = g.enums[e.name].declared().into_iter().collect();
        match tier {
            Tier::Thorough => {
                let mut lo = 0u64;
                while lo <= u32::MAX as u64 {
                    tasks.push(Task::E(e, declared.clone(), lo, lo + chunk - 1));
                    lo += chunk;
                }
            }
            Tier::Quick => {
                for (lo, hi) in quick_points(&declared) {
                    tasks.push(Task::E(e, declared.clone(), lo, hi));
                }
            }
        }
    }
    for m in &mask_ops {
        let all = g.masks[m.name].all();
        match tier {
            Tier::Thorough => {
                let mut lo = 0u64;
                while lo <= u32::MAX as u64 {
                    tasks.push(Task::M(m, all, lo, lo + chunk - 1));
                    lo += chunk;
                }
            }
            Tier::Quick => {
                // every declared subset of size <= 2, each plus one undeclared bit, plus the enum-style boundary set
                let bits: Vec<u32> = (0..32).map(|k| 1u32 << k).filter(|b| all & b != 0).collect();
                let mut pts = vec![0u32, all, !all, u32::MAX];
                for (i, &a) in bits.iter().enumerate() {
                    pts.push(a);
                    for &b in &bits[i..] {
                        pts.push(a | b);
                        for k in 0..32 {
                            if all & (1 << k) == 0 {
                                pts.push(a | b | (1 << k));
                            }
                        }
                    }
                }
                for (lo, hi) in quick_points(&pts) {
                    tasks.push(Task::M(m, all, lo, hi));
                }
            }
        }
    }
    let results: Vec<(String, u64, u64, Vec<(u32, &'static str)>)> = tasks
        .par_iter()
        .map(|t| match t {
            Task::E(e, d, lo, hi) => {
                let (acc, bad) = (e.sweep)(*lo, *hi, d);
                (e.name.to_string(), hi - lo + 1, acc, bad)
            }
            Task::M(m, all, lo, hi) => {
                let (acc, bad) = (m.sweep)(*lo, *hi, *all);
                (m.name.to_string(), hi - lo + 1, acc, bad)
            }
        })
        .collect();
    let mut results = results;
    // quick: every number that agrees with a declared value in its LOW 16 bits (a truncated comparison, a 16-bit key,
    // a hash of the low half: 65536 numbers per declared value)
    if tier == Tier::Quick {
        let work: Vec<(&EnumOps, Vec<u32>, u32)> = enum_ops.iter().flat_map(|e| { let d: Vec<u32> = g.enums[e.name].declared().into_iter().collect(); let mut lows: Vec<u32> = d.iter().map(|x| x & 0xFFFF).collect(); lows.sort(); lows.dedup(); lows.into_iter().map(move |l| (e, d.clone(), l)) }).collect();
        let extra: Vec<(String, u64, u64, Vec<(u32, &'static str)>)> = work
            .par_iter()
            .map(|(e, d, low)| {
                let mut acc = 0u64;
                let mut bad = vec![];
                for hi in 0..=0xFFFFu32 {
                    let x = ((hi << 16) | low) as u64;
                    let (a, b) = (e.sweep)(x, x, d);
                    acc += a;
                    if bad.len() < 4 {
                        bad.extend(b);
                    }
                }
                (e.name.to_string(), 65536u64, acc, bad)
            })
            .collect();
        results.extend(extra);
    }
    // every number whose low 24 bits are a value declared by ANY enumeration (not only the one asked) under every top byte
    // 0..=255, and with each of the bits 16..24 set on top: a key packed from "which enumeration" and "which number"
    {
        let mut lows: Vec<u32> = g.enums.values().flat_map(|e| e.declared().into_iter()).filter(|n| *n < (1 << 24)).collect();
        lows.sort();
        lows.dedup();
        let work: Vec<(&EnumOps, Vec<u32>)> = enum_ops.iter().map(|e| (e, g.enums[e.name].declared().into_iter().collect::<Vec<u32>>())).collect();
        let extra: Vec<(String, u64, u64, Vec<(u32, &'static str)>)> = work
            .par_iter()
            .map(|(e, d)| {
                let mut acc = 0u64;
                let mut n = 0u64;
                let mut bad = vec![];
                for &low in &lows {
                    for top in 0..=255u32 {
                        for mid in [0u32, 1 << 16, 1 << 20, 1 << 23] {
                            let x = ((top << 24) | mid | low) as u64;
                            let (a, b) = (e.sweep)(x, x, d);
                            acc += a;
                            n += 1;
                            if bad.len() < 4 {
                                bad.extend(b);
                            }
                        }
                    }
                }
                (e.name.to_string(), n, acc, bad)
            })
            .collect();
        results.extend(extra);
    }
    let mut evals = 0u64;
    let mut accepted = 0u64;
    for (name, n, acc, bad) in results {
        evals += n;
        accepted += acc;
        for (x, why) in bad {
            let is_mask = g.masks.contains_key(&name);
            run.add(viol(
                format!("C08:{}:{}:{}", name, if is_mask { "from_bits" } else { "from_u32" }, x),
                format!("{}::{}({}) {}", name, if is_mask { "from_bits" } else { "from_u32" }, x, why),
                json!({"kind": "c08-number", "type": name, "number": x}),
            ));
        }
    }
    run.outcome("numbers_accepted", accepted);
    run.outcome("numbers_rejected", evals - accepted);

    // ---- names ---------------------------------------------------------------------------
    let mut name_checks = 0u64;
    let mut vs: Vec<Viol> = vec![];
    for e in &enum_ops {
        let ge = &g.enums[e.name];
        for (vn, n) in &ge.variants {
            name_checks += 1;
            match (e.debug)(*n) {
                Some(s) if &s == vn => {}
                other => vs.push(viol(
                    format!("C08:{}:name:{}", e.name, vn),
                    format!("Debug of {}::from_u32({}) is {:?}, declared name is {}", e.name, n, other, vn),
                    json!({"kind": "c08-name", "type": e.name, "number": n}),
                )),
            }
        }
        if ge.fromstr != e.from_str.is_some() {
            run.machinery(format!("FromStr presence for {} differs from golden", e.name));
        }
        if let Some(fs) = e.from_str {
            for (vn, n) in &ge.variants {
                name_checks += 1;
                if fs(vn) != Some(*n) {
                    vs.push(viol(
                        format!("C08:{}:name:{}", e.name, vn),
                        format!("{}::from_str({:?}) = {:?}, expected value {}", e.name, vn, fs(vn), n),
                        json!({"kind": "c08-fromstr", "type": e.name, "name": vn}),
                    ));
                }
            }
            for (an, target) in &ge.aliases {
                name_checks += 1;
                let want = ge.value_of(target);
                if fs(an) != want {
                    vs.push(viol(
                        format!("C08:{}:alias:{}", e.name, an),
                        format!("{}::from_str(alias {:?}) = {:?}, expected {:?} ({})", e.name, an, fs(an), want, target),
                        json!({"kind": "c08-fromstr", "type": e.name, "name": an}),
                    ));
                }
            }
            // unknown strings are rejected: names of other enums not declared here, case/affix variants
            let declared: BTreeSet<&str> =
                ge.variants.iter().map(|v| v.0.as_str()).chain(ge.aliases.iter().map(|a| a.0.as_str())).collect();
            let mut probes: Vec<String> = vec!["".into(), " ".into(), "_".into(), "Max".into()];
            for (vn, _) in ge.variants.iter().take(40) {
                probes.push(format!("{}X", vn));
                probes.push(format!(" {}", vn));
                probes.push(vn.to_lowercase());
                probes.push(vn[..vn.len() - 1].to_string());
            }
            for (ok, oe) in g.enums.iter() {
                if ok != e.name {
                    for (vn, _) in oe.variants.iter().take(12) {
                        probes.push(vn.clone());
                    }
                }
            }
            for p in probes {
                if declared.contains(p.as_str()) {
                    continue;
                }
                name_checks += 1;
                if let Some(v) = fs(&p) {
                    vs.push(viol(
                        format!("C08:{}:name:{}", e.name, p),
                        format!("{}::from_str({:?}) accepted an undeclared name (value {})", e.name, p, v),
                        json!({"kind": "c08-fromstr", "type": e.name, "name": p}),
                    ));
                }
            }
        }
    }
    // compile-time constants: names resolved by rustc against the golden values
    let mut seen = BTreeSet::new();
    for (k, n, v) in names::ENUM_CONSTS {
        name_checks += 1;
        seen.insert((*k, *n));
        let want = g.enums[*k].value_of(n);
        if want != Some(*v) {
            vs.push(viol(
                format!("C08:{}:value:{}", k, n),
                format!("spirv::{}::{} has value {}, golden says {:?}", k, n, v, want),
                json!({"kind": "c08-const", "type": k, "name": n}),
            ));
        }
    }
    for (k, n, v) in names::MASK_CONSTS {
        name_checks += 1;
        let want = g.masks[*k].bits.iter().find(|b| &b.0 == n).map(|b| b.1);
        if want != Some(*v) {
            vs.push(viol(
                format!("C08:{}:value:{}", k, n),
                format!("spirv::{}::{} has bits {}, golden says {:?}", k, n, v, want),
                json!({"kind": "c08-const", "type": k, "name": n}),
            ));
        }
    }
    if spirv::MAGIC_NUMBER != g.magic {
        vs.push(viol("C08:MAGIC_NUMBER", "spirv::MAGIC_NUMBER differs from the golden", json!({"kind": "c08-const"})));
    }
    run.add_all(vs);
    run.outcome("name_checks", name_checks);

    let declared_total: u64 = g.enums.values().map(|e| e.declared().len() as u64).sum();
    run.set("evaluations", json!(evals + name_checks));
    run.set(
        "distinct_nontrivial",
        json!(accepted + name_checks),
    );
    run.set("rule", json!("evaluations = (type, number) pairs swept through from_u32/from_bits plus name/alias/constant checks; non-trivial = pairs the type accepted (each a distinct declared value or declared bit set, compared with the golden and converted back) plus the name checks; every rejected number is additionally compared with the golden's declared set"));
    run.set("exhaustive", json!(tier == Tier::Thorough));
    run.set("bounds", json!({"types": enum_ops.len() + mask_ops.len(), "numbers_per_type": if tier == Tier::Thorough { "all 2^32".to_string() } else { "[0,2^16) + boundary sets around every declared value, every power of two, high-bit variants".to_string() }}));
    run.set("declared_values_total", json!(declared_total));
    run.set(
        "samples",
        json!([
            {"type": "Capability", "number": 1, "from_u32": format!("{:?}", spirv::Capability::from_u32(1))},
            {"type": "Capability", "number": 7, "from_u32": format!("{:?}", spirv::Capability::from_u32(7))},
            {"type": "ExecutionModel", "number": 5313, "from_u32": format!("{:?}", spirv::ExecutionModel::from_u32(5313))},
            {"type": "ImageOperands", "number": 0x10000, "from_bits": format!("{:?}", spirv::ImageOperands::from_bits(0x10000))},
            {"type": "ImageOperands", "number": 0x8000, "from_bits": format!("{:?}", spirv::ImageOperands::from_bits(0x8000))},
            {"type": "ExecutionModel", "alias": "RayGenerationNV", "from_str": format!("{:?}", spirv::ExecutionModel::from_str("RayGenerationNV"))}
        ]),
    );
    run.assume("golden snapshot (reference/grammar.json) equals the Khronos grammar of sdk-1.4.309.0 to the extent DESIGN.md section 3 argues");
    run.assume("a wrongly materialised discriminant is observable through `as u32` / Debug (UB could in principle hide it; Miri pass is supplementary)");
    if accepted == 0 {
        run.machinery("vacuity: no number accepted");
    }
    run
}
