//! C16 — opcode classification predicates agree with the specification (shape E, complete).
//! The Builder half ("the Builder ends a block for exactly the opcodes the terminator predicate accepts")
//! is decided by the `vcalls` binary over every instruction-emitting Builder method and merged in here.
use crate::golden::golden;
use crate::report::{viol, Run, Tier};
use rspirv::grammar::reflect as r;
use rspirv::spirv;
use serde_json::json;

#[derive(Clone, Copy, PartialEq, Eq, Debug)]
pub enum Tri {
    Must,
    MustNot,
    Either,
}

pub const PREDICATES: &[(&str, fn(spirv::Op) -> bool)] = &[
    ("is_location_debug", r::is_location_debug),
    ("is_nonlocation_debug", r::is_nonlocation_debug),
    ("is_debug", r::is_debug),
    ("is_annotation", r::is_annotation),
    ("is_type", r::is_type),
    ("is_constant", r::is_constant),
    ("is_variable", r::is_variable),
    ("is_return", r::is_return),
    ("is_abort", r::is_abort),
    ("is_return_or_abort", r::is_return_or_abort),
    ("is_branch", r::is_branch),
    ("is_block_terminator", r::is_block_terminator),
];

/// The golden three-valued class table (DESIGN.md section 3), for base predicates.
pub fn expected(pred: &str, op: &str) -> Tri {
    let g = golden();
    let either = g.in_class("either", op);
    let term = g.in_class("terminator", op);
    let m = |b: bool| if b { Tri::Must } else { Tri::MustNot };
    match pred {
        "is_type" => {
            if g.in_class("type", op) {
                Tri::Must
            } else if either && op.starts_with("Type") {
                Tri::Either
            } else {
                Tri::MustNot
            }
        }
        "is_constant" => {
            if g.in_class("constant", op) {
                Tri::Must
            } else if either && op.contains("Constant") {
                Tri::Either
            } else {
                Tri::MustNot
            }
        }
        "is_annotation" => m(g.in_class("annotation", op)),
        "is_nonlocation_debug" => m(g.in_class("debug_nonloc", op)),
        "is_location_debug" => m(g.in_class("debug_loc", op)),
        "is_variable" => {
            if op == "Variable" {
                Tri::Must
            } else if op == "UntypedVariableKHR" {
                Tri::Either
            } else {
                Tri::MustNot
            }
        }
        "is_block_terminator" => m(term),
        // the statement fixes only the union of the three; namesakes are demanded, the rest of the split is free
        "is_branch" => {
            if g.in_class("branch_must", op) {
                Tri::Must
            } else if term {
                Tri::Either
            } else {
                Tri::MustNot
            }
        }
        "is_return" => {
            if g.in_class("return_must", op) {
                Tri::Must
            } else if term {
                Tri::Either
            } else {
                Tri::MustNot
            }
        }
        "is_abort" => {
            if term && !g.in_class("branch_must", op) && !g.in_class("return_must", op) {
                Tri::Either
            } else if term {
                Tri::Either
            } else {
                Tri::MustNot
            }
        }
        _ => Tri::Either,
    }
}

pub fn run(tier: Tier) -> Run {
    let g = golden();
    let mut run = Run::new("C16", tier, "exploration");
    let mut evals = 0u64;
    let mut nontrivial = 0u64;
    let mut samples = vec![];
    for w in &g.insts {
        let Some(op) = spirv::Op::from_u32(w.opcode as u32) else {
            run.machinery(format!("Op::from_u32 rejects {}", w.name));
            continue;
        };
        let val = |p: &str| (PREDICATES.iter().find(|x| x.0 == p).unwrap().1)(op);
        let mut any = false;
        for (pn, pf) in PREDICATES {
            evals += 1;
            let got = pf(op);
            any |= got;
            let exp = match *pn {
                "is_debug" => {
                    if val("is_location_debug") || val("is_nonlocation_debug") { Tri::Must } else { Tri::MustNot }
                }
                "is_return_or_abort" => {
                    if val("is_return") || val("is_abort") { Tri::Must } else { Tri::MustNot }
                }
                "is_block_terminator" => {
                    // both: the union its documentation states AND the specification's termination instructions
                    let union = val("is_branch") || val("is_return_or_abort");
                    if got != union {
                        run.add(viol(
                            format!("C16:is_block_terminator({}):union", w.name),
                            format!("is_block_terminator(Op{}) = {} but is_branch || is_return_or_abort = {}", w.name, got, union),
                            json!({"kind": "c16", "predicate": pn, "opcode": w.name}),
                        ));
                    }
                    expected(pn, &w.name)
                }
                _ => expected(pn, &w.name),
            };
            let bad = match exp {
                Tri::Must => !got,
                Tri::MustNot => got,
                Tri::Either => false,
            };
            run.outcome(&format!("{}={}", pn, got), 1);
            if bad {
                run.add(viol(
                    format!("C16:{}({})", pn, w.name),
                    format!("{}(Op{}) = {}, the specification's class table says {:?}", pn, w.name, got, exp),
                    json!({"kind": "c16", "predicate": pn, "opcode": w.name}),
                ));
            }
        }
        if any {
            nontrivial += 1;
            if samples.len() < 6 {
                samples.push(json!({"opcode": w.name, "true_predicates": PREDICATES.iter().filter(|p| (p.1)(op)).map(|p| p.0).collect::<Vec<_>>()}));
            }
        }
        // base classes pairwise disjoint
        let base = ["is_location_debug", "is_nonlocation_debug", "is_annotation", "is_type", "is_constant", "is_variable", "is_return", "is_abort", "is_branch"];
        let holds: Vec<&str> = base.iter().copied().filter(|p| val(p)).collect();
        if holds.len() > 1 {
            run.add(viol(
                format!("C16:disjoint({})", w.name),
                format!("base classes overlap on Op{}: {:?}", w.name, holds),
                json!({"kind": "c16", "opcode": w.name}),
            ));
        }
    }
    // ---- a predicate is a function of the opcode alone: its answer for b directly after it was asked about a (every ordered
    //      pair of opcodes, every predicate, also across predicates), and after 300 repetitions of the same question, is the
    //      answer it gives when asked in isolation
    {
        use rayon::prelude::*;
        let ops: Vec<(spirv::Op, &str)> = g.insts.iter().filter_map(|w| spirv::Op::from_u32(w.opcode as u32).map(|o| (o, w.name.as_str()))).collect();
        let alone: Vec<Vec<bool>> = ops.iter().map(|(o, _)| PREDICATES.iter().map(|p| (p.1)(*o)).collect()).collect();
        let bad: Vec<crate::report::Viol> = (0..ops.len())
            .into_par_iter()
            .filter_map(|ai| {
                let (a, an) = ops[ai];
                for (bi, (b, bn)) in ops.iter().enumerate() {
                    for (pi, (pn, pf)) in PREDICATES.iter().enumerate() {
                        let _ = pf(a);
                        if pf(*b) != alone[bi][pi] {
                            return Some(viol(format!("C16:{}:after-another-opcode", pn), format!("{}(Op{}) directly after {}(Op{}) = {}, asked alone {}", pn, bn, pn, an, !alone[bi][pi], alone[bi][pi]), json!({"kind": "c16-pair", "predicate": pn, "first": an, "second": bn})));
                        }
                        // across predicates: the previous question was another predicate's
                        let (qn, qf) = PREDICATES[(pi + 1) % PREDICATES.len()];
                        let _ = qf(a);
                        if pf(*b) != alone[bi][pi] {
                            return Some(viol(format!("C16:{}:after-another-predicate", pn), format!("{}(Op{}) directly after {}(Op{}) = {}, asked alone {}", pn, bn, qn, an, !alone[bi][pi], alone[bi][pi]), json!({"kind": "c16-pair", "predicate": pn, "first": an, "second": bn})));
                        }
                    }
                }
                for (pi, (pn, pf)) in PREDICATES.iter().enumerate() {
                    for _ in 0..300 {
                        let _ = pf(a);
                    }
                    let next = ops[(ai + 1) % ops.len()];
                    if pf(a) != alone[ai][pi] || pf(next.0) != alone[(ai + 1) % ops.len()][pi] {
                        return Some(viol(format!("C16:{}:after-repetition", pn), format!("{} answers differently after 300 questions about Op{}", pn, an), json!({"kind": "c16-repeat", "predicate": pn, "opcode": an})));
                    }
                }
                None
            })
            .collect();
        evals += (ops.len() * ops.len() * PREDICATES.len() * 2) as u64;
        run.outcome("ordered_opcode_pairs_per_predicate", (ops.len() * ops.len()) as u64);
        for v in bad.into_iter().take(5) {
            run.add(v);
        }
    }
    // ---- the Builder half, decided by the vcalls binary over every instruction-emitting Builder method
    let vcalls = std::env::current_exe().ok().and_then(|e| e.parent().map(|d| d.join("vcalls"))).filter(|v| v.exists()).unwrap_or_else(|| crate::report::verif_root().join("harness").join("target").join("release").join("vcalls"));
    match std::process::Command::new(&vcalls).arg("--c16").output() {
        Ok(o) if o.status.success() => match serde_json::from_slice::<serde_json::Value>(&o.stdout) {
            Ok(d) => {
                let calls = d["calls"].as_u64().unwrap_or(0);
                evals += calls;
                nontrivial += d["methods"].as_u64().unwrap_or(0);
                run.outcome("builder_calls_checked", calls);
                for v in d["violations"].as_array().cloned().unwrap_or_default() {
                    run.add(viol(v["key"].as_str().unwrap_or("C16:builder"), v["what"].as_str().unwrap_or(""), v["replay"].clone()));
                }
            }
            Err(e) => run.machinery(format!("vcalls --c16 printed no JSON: {}", e)),
        },
        Ok(o) => run.machinery(format!("vcalls --c16 failed: {}", String::from_utf8_lossy(&o.stderr).lines().last().unwrap_or(""))),
        Err(e) => run.machinery(format!("cannot run {}: {} (bin/check C16 builds it)", vcalls.display(), e)),
    }
    run.require_outcome("builder_calls_checked");
    run.set("evaluations", json!(evals));
    run.set("distinct_nontrivial", json!(nontrivial));
    run.set("rule", json!("every (predicate, core opcode) pair: 12 exported predicates x 787 opcodes (+ every instruction-emitting Builder method called inside an open block: the block selection is cleared iff is_block_terminator(emitted opcode)), compared with the three-valued class table (must / must-not / either) built from the Khronos instruction classes and the specification's list of termination instructions; non-trivial = opcodes for which at least one predicate holds"));
    run.set("exhaustive", json!(true));
    run.set("bounds", json!({"predicates": PREDICATES.len(), "opcodes": g.insts.len()}));
    run.set("samples", json!(samples));
    run.assume("class table: Khronos `class` field as rendered by the generator's file split (Type-Declaration, Constant-Creation, Annotation, Debug) + the specification's termination instructions (anchors.json)");
    run.require_outcome("is_type=true");
    run.require_outcome("is_block_terminator=true");
    run
}
