//! C17 — operand reflection agrees with the parser and the grammar (shape E, complete).
use crate::golden::golden;
use crate::model::{self, arg_of_param_kind, enc, kind_static, Arg, Inst};
use crate::report::{guarded, viol, Run, Tier, Viol};
use crate::util::{parse_collect, subsets};
use rayon::prelude::*;
use rspirv::binary::Assemble;
use rspirv::dr;
use rspirv::spirv;
use serde_json::json;
use std::collections::{BTreeMap, BTreeSet};

mod gen {
    use rspirv::dr;
    use rspirv::spirv;
    include!("../../../../reference/gen_unwrap.rs");
}

fn map_kind(k: &str) -> String {
    match k {
        "LiteralInteger" | "LiteralFloat" => "LiteralBit32".to_string(),
        o => o.to_string(),
    }
}

/// carrier instruction for a parameterised kind: (opcode name, rtype?, rid?, fixed args before the value)
fn carrier(kind: &str) -> Inst {
    let g = golden();
    match kind {
        "Decoration" => Inst::new("Decorate", None, None, vec![Arg::IdRef(11)]),
        "ExecutionMode" => Inst::new("ExecutionMode", None, None, vec![Arg::IdRef(11)]),
        "ImageOperands" => Inst::new("ImageSampleImplicitLod", Some(1), Some(2), vec![Arg::IdRef(11), Arg::IdRef(12)]),
        "LoopControl" => Inst::new("LoopMerge", None, None, vec![Arg::IdRef(11), Arg::IdRef(12)]),
        "MemoryAccess" => Inst::new("Load", Some(1), Some(2), vec![Arg::IdRef(11)]),
        "TensorAddressingOperands" => {
            // first golden instruction whose last operand is this kind; required operands before it filled with ids
            let gi = g
                .insts
                .iter()
                .find(|i| i.operands.last().map(|o| o.0 == "TensorAddressingOperands").unwrap_or(false))
                .expect("golden has a TensorAddressingOperands carrier");
            let mut args = vec![];
            let vo = gi.value_operands();
            for (i, (k, _)) in vo.iter().enumerate().take(vo.len() - 1) {
                args.push(match k.as_str() {
                    "IdRef" => Arg::IdRef(20 + i as u32),
                    "IdScope" => Arg::IdScope(20 + i as u32),
                    "IdMemorySemantics" => Arg::IdMemSem(20 + i as u32),
                    "LiteralInteger" => Arg::Lit32(20 + i as u32),
                    k if g.is_mask_kind(k) => Arg::Mask(kind_static(k), 0),
                    k if g.is_enum_kind(k) => Arg::Enum(kind_static(k), g.enums[k].variants[0].1),
                    other => panic!("carrier operand kind {other}"),
                });
            }
            Inst {
                opcode: gi.opcode,
                rtype: if gi.has_rtype() { Some(1) } else { None },
                rid: if gi.has_rid() { Some(2) } else { None },
                args,
            }
        }
        _ => panic!("no carrier for {kind}"),
    }
}

fn parse_one(words: &[u32]) -> Result<Vec<dr::Instruction>, String> {
    parse_one_v(words, 0x0001_0600)
}

fn parse_one_v(words: &[u32], version: u32) -> Result<Vec<dr::Instruction>, String> {
    let mut bin = model::header(version, 0, 100);
    bin.extend_from_slice(words);
    let bytes = model::words_to_bytes(&bin);
    match guarded(|| parse_collect(&bytes)) {
        Err(p) => Err(format!("panic: {}", p)),
        Ok((Ok(()), c)) => Ok(c.insts),
        Ok((Err(e), _)) => Err(format!("{:?}", e)),
    }
}

/// checks (a) additional_operands and (b) the parser for one value of a parameterised kind
fn check_value(kind: &'static str, is_mask: bool, n: u32, label: &str, out: &mut Vec<Viol>, oc: &mut BTreeMap<String, u64>) {
    let g = golden();
    let gold_params: Vec<String> = if is_mask { g.mask_params(kind, n) } else { g.enum_params(kind, n) };
    let val = if is_mask { Arg::Mask(kind, n) } else { Arg::Enum(kind, n) };
    let Some(operand) = model::to_operand(&val) else {
        out.push(viol(format!("C17:{}::{}:construct", kind, label), "declared value not constructible", json!({"kind": "c17", "operand_kind": kind, "value": n})));
        return;
    };
    // (a) additional_operands
    match guarded(|| operand.additional_operands()) {
        Err(p) => out.push(viol(format!("C17:{}::{}:additional", kind, label), format!("additional_operands panicked: {}", p), json!({"kind": "c17", "operand_kind": kind, "value": n}))),
        Ok(add) => {
            let got: Vec<String> = add.iter().map(|l| map_kind(&format!("{:?}", l.kind))).collect();
            let same = if is_mask {
                let mut a = got.clone();
                let mut b = gold_params.clone();
                a.sort();
                b.sort();
                a == b
            } else {
                got == gold_params
            };
            if !same {
                out.push(viol(
                    format!("C17:{}::{}:additional", kind, label),
                    format!("additional_operands of {}::{} = {:?}, grammar parameters = {:?}", kind, label, got, gold_params),
                    json!({"kind": "c17", "operand_kind": kind, "value": n}),
                ));
            }
        }
    }
    // (b) parser: carrier ++ value ++ golden parameters
    let mut inst = carrier(kind);
    inst.args.push(val);
    for (i, p) in gold_params.iter().enumerate() {
        inst.args.push(arg_of_param_kind(p, 500 + i as u32));
    }
    let words = enc(&inst);
    let expect = model::to_dr(&inst);
    match (parse_one(&words), &expect) {
        (Ok(insts), Some(e)) if insts.len() == 1 && &insts[0] == e => {
            *oc.entry("parser_accepts_exact".into()).or_insert(0) += 1;
        }
        (got, _) => out.push(viol(
            format!("C17:{}::{}:parser", kind, label),
            format!("parser fed {} ++ grammar parameters {:?} gave {:?}", inst.short(), gold_params, got.map(|v| v.iter().map(|i| format!("{:?}", i.operands)).collect::<Vec<_>>())),
            json!({"kind": "c17", "operand_kind": kind, "value": n}),
        )),
    }
    // one parameter fewer
    if !gold_params.is_empty() {
        let mut fewer = inst.clone();
        fewer.args.pop();
        match parse_one(&enc(&fewer)) {
            Err(e) if !e.starts_with("panic") => {
                *oc.entry("parser_rejects_fewer".into()).or_insert(0) += 1;
            }
            got => out.push(viol(
                format!("C17:{}::{}:parser-fewer", kind, label),
                format!("parser fed {} with the last parameter missing gave {:?}", fewer.short(), got.map(|v| v.len())),
                json!({"kind": "c17", "operand_kind": kind, "value": n}),
            )),
        }
    }
    // literal parameters with the values 0..=4 and 1..=8 surplus words (a surplus that happens to be a multiple of a
    // parameter's value is a surplus all the same)
    if gold_params.iter().any(|p| p == "LiteralBit32") {
        'lits: for lit in 0..=4u32 {
            let mut v = carrier(kind);
            v.args.push(if is_mask { Arg::Mask(kind, n) } else { Arg::Enum(kind, n) });
            for (i, p) in gold_params.iter().enumerate() {
                v.args.push(if p == "LiteralBit32" { Arg::Lit32(lit) } else { arg_of_param_kind(p, 500 + i as u32) });
            }
            let base = enc(&v);
            for surplus in 1..=8usize {
                let mut more = base.clone();
                for k in 0..surplus {
                    more.push(if k % 2 == 0 { 9 } else { 1 });
                }
                more[0] = ((more.len() as u32) << 16) | (more[0] & 0xFFFF);
                match parse_one(&more) {
                    Err(e) if !e.starts_with("panic") => {}
                    got => {
                        out.push(viol(format!("C17:{}::{}:parser-surplus", kind, label), format!("parser fed {} (literal parameters = {}) plus {} surplus words gave {:?}", v.short(), lit, surplus, got.map(|x| x.len())), json!({"kind": "c17", "operand_kind": kind, "value": n, "literal": lit, "surplus": surplus})));
                        break 'lits;
                    }
                }
            }
        }
    }
    // a string parameter whose bytes are not UTF-8 (E9 'a' 'b'): refused because the string cannot be decoded, with
    // whatever follows it untouched
    if gold_params.iter().any(|p| p == "LiteralString") {
        let mut bad = words.clone();
        let marker = u32::from_le_bytes([b'p', b'5', b'0', b'0']);
        if let Some(pos) = bad.iter().position(|w| *w == marker) {
            bad[pos] = u32::from_le_bytes([0xE9, b'a', b'b', b'c']);
            let mut bin = model::header(0x0001_0600, 0, 100);
            bin.extend_from_slice(&bad);
            let bytes = model::words_to_bytes(&bin);
            match guarded(|| parse_collect(&bytes)) {
                Ok((Err(e), c)) if format!("{:?}", e).contains("DecodeStringFailed") && c.insts.is_empty() => {
                    *oc.entry("parser_rejects_non_utf8_parameter".into()).or_insert(0) += 1;
                }
                got => out.push(viol(
                    format!("C17:{}::{}:parser-non-utf8-parameter", kind, label),
                    format!("parser fed {} with the bytes E9 61 62 63 in its string parameter gave {:?} (expected: the string cannot be decoded)", inst.short(), got.map(|(r, c)| (r.map_err(|e| format!("{:?}", e)), c.insts.len()))),
                    json!({"kind": "c17", "operand_kind": kind, "value": n, "non_utf8_parameter": true}),
                )),
            }
        }
    }
    // one surplus word
    let mut more = words.clone();
    more.push(777);
    more[0] = ((more.len() as u32) << 16) | (more[0] & 0xFFFF);
    match parse_one(&more) {
        Err(e) if !e.starts_with("panic") => {
            *oc.entry("parser_rejects_surplus".into()).or_insert(0) += 1;
        }
        got => out.push(viol(
            format!("C17:{}::{}:parser-surplus", kind, label),
            format!("parser fed {} plus one surplus word gave {:?}", inst.short(), got.map(|v| v.len())),
            json!({"kind": "c17", "operand_kind": kind, "value": n}),
        )),
    }
}

fn set_of(v: &[String]) -> BTreeSet<String> {
    v.iter().cloned().collect()
}

pub fn run(tier: Tier) -> Run {
    let g = golden();
    let mut run = Run::new("C17", tier, "exploration");
    let mut evals = 0u64;
    let mut nontrivial = 0u64;

    // ---- (a)+(b) parameterised kinds ----------------------------------------------------------
    let mut param_kinds: Vec<&str> = g.params.keys().map(|s| s.as_str()).collect();
    param_kinds.sort();
    let want: BTreeSet<&str> = ["Decoration", "ExecutionMode", "ImageOperands", "LoopControl", "MemoryAccess", "TensorAddressingOperands"].into_iter().collect();
    if param_kinds.iter().copied().collect::<BTreeSet<_>>() != want {
        run.machinery("golden parameterised kinds are not the six the property names");
    }
    let mut tasks: Vec<(&'static str, bool, u32, String)> = vec![];
    for k in ["Decoration", "ExecutionMode"] {
        for (name, n) in &g.enums[k].variants {
            tasks.push((kind_static(k), false, *n, name.clone()));
        }
    }
    for k in ["ImageOperands", "LoopControl", "MemoryAccess", "TensorAddressingOperands"] {
        let all = g.masks[k].all();
        for s in subsets(all) {
            tasks.push((kind_static(k), true, s, format!("{:#x}", s)));
        }
    }
    let res: Vec<(Vec<Viol>, BTreeMap<String, u64>, bool)> = tasks
        .par_iter()
        .map(|(k, m, n, label)| {
            let mut out = vec![];
            let mut oc = BTreeMap::new();
            check_value(k, *m, *n, label, &mut out, &mut oc);
            let has_params = !(if *m { g.mask_params(k, *n) } else { g.enum_params(k, *n) }).is_empty();
            (out, oc, has_params)
        })
        .collect();
    // ---- (b') the same values in EVERY instruction that can host the kind (OpDecorateId, OpMemberDecorate,
    //      OpExecutionModeId, every image / memory instruction ..): the parser must deliver the grammar's parameter kinds
    //      whatever the host (enumerants: all; masks: no bit, each bit, all bits)
    {
        let mut hosts: Vec<(&crate::golden::GInst, usize, &'static str)> = vec![];
        for gi in &g.insts {
            for (pos, (k, q)) in gi.value_operands().iter().enumerate() {
                if g.params.contains_key(k.as_str()) && *q != crate::golden::Quant::ZeroOrMore {
                    hosts.push((gi, pos, kind_static(k)));
                }
            }
        }
        let host_viols: Vec<Vec<Viol>> = hosts
            .par_iter()
            .map(|(gi, pos, k)| {
                let mut out = vec![];
                let values: Vec<(bool, u32)> = if g.is_mask_kind(k) {
                    let m = &g.masks[*k];
                    let mut v: Vec<(bool, u32)> = m.nonzero().iter().map(|b| (true, b.1)).collect();
                    v.push((true, 0));
                    v.push((true, m.all()));
                    v
                } else {
                    g.enums[*k].variants.iter().map(|(_, n)| (false, *n)).collect()
                };
                for (is_mask, n) in values {
                    let args = if is_mask { crate::universe::mask_with_params(k, n, 500) } else { crate::universe::enum_with_params(k, n, 500) };
                    let inst = crate::universe::with_operand(gi, *pos, args);
                    let words = enc(&inst);
                    // every id the instruction mentions is ALSO the id of a 64-bit integer type declared in front of it (and,
                    // a second time, of a 64-bit float): parameters are decoded by the grammar's kinds, not by what an id
                    // near them happens to be
                    for float in [false, true] {
                        let mut ids: Vec<u32> = inst.args.iter().filter_map(|a| match a {
                            Arg::IdRef(x) | Arg::IdScope(x) | Arg::IdMemSem(x) => Some(*x),
                            _ => None,
                        }).chain(inst.rtype).collect();
                        ids.sort();
                        ids.dedup();
                        ids.retain(|x| Some(*x) != inst.rid);
                        let mut all: Vec<u32> = vec![];
                        for id in &ids {
                            all.extend(enc(&if float { Inst::new("TypeFloat", None, Some(*id), vec![Arg::Lit32(64)]) } else { Inst::new("TypeInt", None, Some(*id), vec![Arg::Lit32(64), Arg::Lit32(0)]) }));
                        }
                        all.extend(&words);
                        match parse_one(&all) {
                            Ok(insts) if insts.len() == ids.len() + 1 && model::from_dr(&insts[ids.len()]) == inst => {}
                            got => {
                                if out.len() < 3 {
                                    out.push(viol(
                                        format!("C17:{}::{:#x}:parser:in-{}:ids-declared-as-64-bit-types", k, n, gi.name),
                                        format!("parser fed {} behind 64-bit {} type declarations carrying the ids it mentions gave {:?}", inst.short(), if float { "float" } else { "int" }, got.map(|v| v.last().map(|i| format!("{:?}", i.operands)))),
                                        json!({"kind": "c17-host", "operand_kind": k, "value": n, "host": gi.name, "ids_declared_as_types": true}),
                                    ));
                                }
                            }
                        }
                    }
                    // under every header version 1.0 .. 1.6 (and 0.0 / 2.0): which operands follow a value is the
                    // grammar's business, not the header's
                    for version in [0x0001_0600u32, 0x0001_0000, 0x0001_0100, 0x0001_0200, 0x0001_0300, 0x0001_0400, 0x0001_0500, 0, 0x0002_0000] {
                        match parse_one_v(&words, version) {
                            Ok(insts) if insts.len() == 1 && model::from_dr(&insts[0]) == inst => {}
                            got => {
                                if out.len() < 3 {
                                    out.push(viol(
                                        format!("C17:{}::{:#x}:parser:in-{}", k, n, gi.name),
                                        format!("parser fed {} (value {:#x} of {} hosted by Op{}, header version {:#x}) gave {:?}", inst.short(), n, k, gi.name, version, got.map(|v| v.iter().map(|i| format!("{:?}", i.operands)).collect::<Vec<_>>())),
                                        json!({"kind": "c17-host", "operand_kind": k, "value": n, "host": gi.name, "version": version}),
                                    ));
                                }
                            }
                        }
                    }
                }
                out
            })
            .collect();
        for v in host_viols {
            evals += 1;
            run.add_all(v);
        }
        run.outcome("host_instructions", hosts.len() as u64);
    }
    for (vs, oc, hp) in res {
        evals += 1;
        if hp {
            nontrivial += 1;
        }
        run.add_all(vs);
        run.merge_outcomes(&oc);
    }

    // ---- (c) capabilities / extensions ---------------------------------------------------------
    let mut cap_tasks: Vec<(&'static str, bool, u32)> = vec![];
    for (k, e) in &g.enums {
        if g.is_enum_kind(k) {
            for (_, n) in &e.variants {
                cap_tasks.push((kind_static(k), false, *n));
            }
        }
    }
    for (k, m) in &g.masks {
        for s in subsets(m.all()) {
            cap_tasks.push((kind_static(k), true, s));
        }
    }
    let res: Vec<(Vec<Viol>, bool)> = cap_tasks
        .par_iter()
        .map(|(k, is_mask, n)| {
            let mut out = vec![];
            let (wc, we): (BTreeSet<String>, BTreeSet<String>) = if *is_mask {
                let mut c = BTreeSet::new();
                let mut e = BTreeSet::new();
                for (bn, bv, _) in &g.masks[*k].bits {
                    if (*bv != 0 && n & bv != 0) || (*bv == 0 && *n == 0) {
                        c.extend(g.caps[*k][bn].iter().cloned());
                        e.extend(g.exts[*k][bn].iter().cloned());
                    }
                }
                (c, e)
            } else {
                let name = g.enums[*k].name_of(*n).unwrap();
                (set_of(&g.caps[*k][name]), set_of(&g.exts[*k][name]))
            };
            let val = if *is_mask { Arg::Mask(k, *n) } else { Arg::Enum(k, *n) };
            let label = if *is_mask { format!("{:#x}", n) } else { g.enums[*k].name_of(*n).unwrap().to_string() };
            let nontriv = !wc.is_empty() || !we.is_empty();
            match model::to_operand(&val) {
                None => out.push(viol(format!("C17:{}::{}:construct", k, label), "declared value not constructible", json!({"kind": "c17", "operand_kind": k, "value": n}))),
                Some(o) => {
                    match guarded(|| (o.required_capabilities(), o.required_extensions())) {
                        Err(p) => out.push(viol(format!("C17:{}::{}:caps", k, label), format!("panicked: {}", p), json!({"kind": "c17", "operand_kind": k, "value": n}))),
                        Ok((c, e)) => {
                            let gc: BTreeSet<String> = c.iter().map(|x| format!("{:?}", x)).collect();
                            let ge: BTreeSet<String> = e.iter().map(|x| x.to_string()).collect();
                            if gc != wc {
                                out.push(viol(format!("C17:{}::{}:caps", k, label), format!("required_capabilities = {:?}, grammar lists {:?}", gc, wc), json!({"kind": "c17", "operand_kind": k, "value": n})));
                            }
                            if ge != we {
                                out.push(viol(format!("C17:{}::{}:exts", k, label), format!("required_extensions = {:?}, grammar lists {:?}", ge, we), json!({"kind": "c17", "operand_kind": k, "value": n})));
                            }
                        }
                    }
                }
            }
            (out, nontriv)
        })
        .collect();
    for (vs, nt) in res {
        evals += 1;
        if nt {
            nontrivial += 1;
        }
        run.add_all(vs);
    }
    run.outcome("caps_exts_values", cap_tasks.len() as u64);

    // ---- (d) ids and payload round trips --------------------------------------------------------
    let mut variants: Vec<(String, dr::Operand)> = vec![];
    for (k, e) in &g.enums {
        if g.is_enum_kind(k) {
            variants.push((k.clone(), model::enum_operand(k, e.variants[0].1).unwrap()));
        }
    }
    for (k, m) in &g.masks {
        variants.push((k.clone(), model::mask_operand(k, m.all()).unwrap()));
    }
    variants.push(("IdRef".into(), dr::Operand::IdRef(41)));
    variants.push(("IdScope".into(), dr::Operand::IdScope(42)));
    variants.push(("IdMemorySemantics".into(), dr::Operand::IdMemorySemantics(43)));
    variants.push(("LiteralBit32".into(), dr::Operand::LiteralBit32(44)));
    variants.push(("LiteralBit64".into(), dr::Operand::LiteralBit64(0x1_0000_002d)));
    variants.push(("LiteralExtInstInteger".into(), dr::Operand::LiteralExtInstInteger(46)));
    variants.push(("LiteralSpecConstantOpInteger".into(), dr::Operand::LiteralSpecConstantOpInteger(spirv::Op::IAdd)));
    variants.push(("LiteralString".into(), dr::Operand::LiteralString("s".into())));
    if variants.len() != 64 || variants.len() != gen::UNWRAP_KINDS.len() {
        run.machinery(format!("expected 64 operand variants, built {}", variants.len()));
    }
    for (k, o) in &variants {
        evals += 1;
        let is_id = matches!(k.as_str(), "IdRef" | "IdScope" | "IdMemorySemantics");
        if o.id_ref_any().is_some() != is_id {
            run.add(viol(format!("C17:{}:id", k), format!("id_ref_any().is_some() = {} for variant {}", o.id_ref_any().is_some(), k), json!({"kind": "c17-id", "variant": k})));
        }
        let mut o2 = o.clone();
        if o2.id_ref_any_mut().is_some() != is_id {
            run.add(viol(format!("C17:{}:id", k), format!("id_ref_any_mut().is_some() = {} for variant {}", !is_id, k), json!({"kind": "c17-id", "variant": k})));
        }
        if is_id {
            nontrivial += 1;
            let payload = o.id_ref_any().unwrap();
            let want_payload = match o {
                dr::Operand::IdRef(v) | dr::Operand::IdScope(v) | dr::Operand::IdMemorySemantics(v) => *v,
                _ => unreachable!(),
            };
            if payload != want_payload {
                run.add(viol(format!("C17:{}:id", k), "id_ref_any returned a different id", json!({"kind": "c17-id", "variant": k})));
            }
            // rewriting changes exactly the corresponding word
            for pos in 0..3usize {
                let mut ops = vec![dr::Operand::LiteralBit32(7), dr::Operand::LiteralString("abcde".into()), dr::Operand::LiteralBit64(9)];
                ops.insert(pos, o.clone());
                let mut inst = dr::Instruction::new(spirv::Op::Nop, Some(3), Some(4), ops);
                let before = inst.assemble();
                match inst.operands[pos].id_ref_any_mut() {
                    Some(slot) => *slot = 0xABCD_0123,
                    None => {
                        run.add(viol(format!("C17:{}:id-rewrite", k), format!("operand {} reports an id through id_ref_any() but id_ref_any_mut() gives no access to it", pos), json!({"kind": "c17-id", "variant": k})));
                        continue;
                    }
                }
                let after = inst.assemble();
                let diff: Vec<usize> = (0..before.len().max(after.len())).filter(|&i| before.get(i) != after.get(i)).collect();
                let want_idx = 3 + [0usize, 1, 3][pos];
                if before.len() != after.len() || diff != vec![want_idx] || after[want_idx] != 0xABCD_0123 || inst.operands[pos].id_ref_any() != Some(0xABCD_0123) {
                    run.add(viol(format!("C17:{}:id-rewrite", k), format!("rewriting the id at operand {} changed words {:?} (expected exactly word {})", pos, diff, want_idx), json!({"kind": "c17-id", "variant": k})));
                }
            }
            run.outcome("id_rewrites", 3);
        }
    }
    // rewriting an id inside REAL instructions, to a value that another id operand of the same instruction already has
    // (equal ids in two places must not change how the instruction is encoded): every opcode, fullest shape and the
    // shape with three repetitions of its variadic operand
    {
        let shapes: Vec<Inst> = g.insts.iter().flat_map(|gi| { let mut v = vec![crate::universe::fullest(gi)]; if crate::universe::has_variadic(gi) { v.extend(crate::universe::pattern_shapes(tier).into_iter().filter(|s| s.inst.opcode == gi.opcode && s.id.ends_with(":pattern:var3")).map(|s| s.inst)); } v }).collect();
        let res: Vec<Vec<Viol>> = shapes
            .par_iter()
            .map(|m| {
                let mut out = vec![];
                let Some(base) = model::to_dr(m) else { return out };
                let before = base.assemble();
                let id_pos: Vec<usize> = base.operands.iter().enumerate().filter(|(_, o)| o.id_ref_any().is_some()).map(|(i, _)| i).collect();
                // word offset of operand i in the assembled instruction
                let off = |i: usize| -> usize { 1 + base.result_type.is_some() as usize + base.result_id.is_some() as usize + base.operands[..i].iter().map(|o| { let t = dr::Instruction::new(spirv::Op::Nop, None, None, vec![o.clone()]); t.assemble().len() - 1 }).sum::<usize>() };
                for &i in &id_pos {
                    for &j in &id_pos {
                        let target = base.operands[j].id_ref_any().unwrap();
                        let mut inst = base.clone();
                        match inst.operands[i].id_ref_any_mut() {
                            Some(slot) => *slot = target,
                            None => continue,
                        }
                        let after = inst.assemble();
                        let mut want = before.clone();
                        want[off(i)] = target;
                        if after != want && out.len() < 2 {
                            out.push(viol(format!("C17:id-rewrite:{}", m.name()), format!("Op{}: rewriting id operand {} to the value of id operand {} ({}) gives {:x?}, expected exactly word {} changed: {:x?}", m.name(), i, j, target, after, off(i), want), json!({"kind": "c17-alias", "instruction": m.short(), "operand": i, "as_operand": j})));
                        }
                    }
                }
                out
            })
            .collect();
        for v in res {
            evals += 1;
            run.add_all(v);
        }
        run.outcome("alias_rewrites_on_real_instructions", shapes.len() as u64);
    }
    // payload round trips: every declared enumerant / single bit / all bits
    for (k, e) in &g.enums {
        if !g.is_enum_kind(k) {
            continue;
        }
        for (vn, n) in &e.variants {
            evals += 1;
            nontrivial += 1;
            match guarded(|| gen::payload_roundtrip(k, *n)) {
                Ok(Some(true)) => run.outcome("payload_roundtrip_ok", 1),
                other => run.add(viol(format!("C17:{}::{}:payload", k, vn), format!("From<{}> then unwrap is not the identity: {:?}", k, other), json!({"kind": "c17-payload", "operand_kind": k, "value": n}))),
            }
        }
    }
    for (k, m) in &g.masks {
        let mut vals: Vec<u32> = m.bits.iter().map(|b| b.1).collect();
        vals.push(m.all());
        for n in vals {
            evals += 1;
            match guarded(|| gen::payload_roundtrip(k, n)) {
                Ok(Some(true)) => run.outcome("payload_roundtrip_ok", 1),
                other => run.add(viol(format!("C17:{}::{:#x}:payload", k, n), format!("From<{}> then unwrap is not the identity: {:?}", k, other), json!({"kind": "c17-payload", "operand_kind": k, "value": n}))),
            }
        }
    }
    for v in [0u32, 1, 0x8000_0000, u32::MAX] {
        evals += 1;
        let ok = dr::Operand::from(v) == dr::Operand::LiteralBit32(v)
            && dr::Operand::from(v).unwrap_literal_bit32() == v
            && dr::Operand::IdRef(v).unwrap_id_ref() == v
            && dr::Operand::IdScope(v).unwrap_id_scope() == v
            && dr::Operand::IdMemorySemantics(v).unwrap_id_memory_semantics() == v
            && dr::Operand::LiteralExtInstInteger(v).unwrap_literal_ext_inst_integer() == v;
        let v64 = ((v as u64) << 32) | (!v as u64);
        let ok64 = dr::Operand::from(v64) == dr::Operand::LiteralBit64(v64) && dr::Operand::from(v64).unwrap_literal_bit64() == v64;
        if !ok || !ok64 {
            run.add(viol("C17:literal:payload", format!("literal/id payload {} does not round-trip", v), json!({"kind": "c17-payload", "value": v})));
        }
    }
    // every string over {'a', NUL, ' ', 'é'} up to length 3 (leading / trailing / interior NUL and blanks included: the
    // payload is carried as it is, encoding rules are the assembler's business), plus long and wide ones
    let mut strs: Vec<String> = vec![String::new()];
    let mut layer: Vec<String> = vec![String::new()];
    for _ in 0..3 {
        let mut next = vec![];
        for p in &layer {
            for c in ['a', '\0', ' ', 'é'] {
                let mut t = p.clone();
                t.push(c);
                next.push(t);
            }
        }
        strs.extend(next.iter().cloned());
        layer = next;
    }
    strs.extend(["abcd".to_string(), "é€😀".to_string(), "x".repeat(70_000), "\n\t\"\\".to_string()]);
    // lengths on both sides of 2^8, 2^10, 2^16 bytes, 2^16 words (the longest string one instruction can carry is
    // 4 * 65534 - 1 = 262 135 bytes; an operand is not an instruction and carries what it is given), 2^20, 2^24
    for n in [255usize, 256, 257, 1023, 1024, 65_535, 65_536, 65_537, 262_131, 262_135, 262_136, 262_139, 262_140, 262_143, 262_144, 262_145, 1 << 20, (1 << 24) + 1] {
        strs.push("y".repeat(n));
        strs.push("é".repeat(n / 2 + 1));
    }
    for s in strs.iter().map(|s| s.as_str()) {
        evals += 1;
        let o = dr::Operand::from(s.to_string());
        let o2 = dr::Operand::from(s);
        if o != dr::Operand::LiteralString(s.to_string()) || o2 != o || o.unwrap_literal_string() != s {
            run.add(viol("C17:LiteralString:payload", format!("string payload {:?} does not round-trip: From<String> gives {:?}, From<&str> gives {:?}", s.chars().take(20).collect::<String>(), o, o2), json!({"kind": "c17-payload", "string": s.chars().take(64).collect::<String>()})));
        }
    }
    for w in g.insts.iter().step_by(37) {
        evals += 1;
        let op = spirv::Op::from_u32(w.opcode as u32).unwrap();
        let o = dr::Operand::from(op);
        if o != dr::Operand::LiteralSpecConstantOpInteger(op) || o.unwrap_literal_spec_constant_op_integer() != op {
            run.add(viol("C17:LiteralSpecConstantOpInteger:payload", "opcode payload does not round-trip", json!({"kind": "c17-payload", "opcode": w.name})));
        }
    }

    run.set("evaluations", json!(evals));
    run.set("distinct_nontrivial", json!(nontrivial));
    run.set("rule", json!("every enumerant of ExecutionMode and Decoration and EVERY subset of the declared bits of ImageOperands, LoopControl, MemoryAccess, TensorAddressingOperands: additional_operands vs golden parameters, real parser on carrier++value++parameters (accept, exact operands), one parameter fewer and one surplus word (reject); every enumerant of every value enum and every subset of every mask: required capabilities/extensions vs golden union; all 64 operand variants for id reflection, id rewrite at 3 positions; payload round trip for every declared enumerant/bit. non-trivial = values with at least one parameter / capability / extension, id variants, payload round trips"));
    run.set("exhaustive", json!(true));
    run.set("bounds", json!({"parameterised_values": tasks.len(), "caps_exts_values": cap_tasks.len(), "operand_variants": variants.len()}));
    run.set("samples", json!([
        {"value": "Decoration::LinkageAttributes", "golden_params": g.enum_params("Decoration", g.enums["Decoration"].value_of("LinkageAttributes").unwrap())},
        {"value": "ImageOperands 0x4|0x1", "golden_params": g.mask_params("ImageOperands", 5)},
        {"value": "MemoryAccess 0x2|0x8", "golden_params": g.mask_params("MemoryAccess", 10)}
    ]));
    run.assume("golden parameters come from two agreeing renderings (parser, additional_operands) + anchors; capabilities/extensions per enumerant are a snapshot of the pinned tree (single rendering)");
    run.require_outcome("parser_accepts_exact");
    run.require_outcome("parser_rejects_fewer");
    run.require_outcome("parser_rejects_surplus");
    run
}
