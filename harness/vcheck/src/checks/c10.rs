//! C10 — context-dependent literal widths follow the types declared earlier (shape S).
//! Real `Parser` (fresh per history) + collecting consumer, in lock-step with the A.6 tracker model.
use crate::golden::golden;
use crate::model::{self, Inst};
use crate::report::{guarded, hex, viol, Run, Tier, Viol};
use crate::util::{parse_collect, state_name};
use crate::xs::{self, Step};
use rayon::prelude::*;
use rspirv::binary::Assemble;
use rspirv::dr;
use serde_json::json;
use std::collections::BTreeMap;

#[derive(Clone, Copy, Debug, PartialEq, Eq, Hash)]
pub enum TOp {
    TInt(u32, u32),
    TFloat(u32),
    /// OpTypeFloat with its optional FP-encoding operand present (0x7fffffff, the only value the implementation's
    /// FPEncoding type has): the width is what counts
    TFloatEnc(u32),
    TBool,
    /// OpConstant with result type = k-th defined id, n literal words
    Const(usize, usize),
    SpecConst(usize, usize),
    /// OpConstant whose type id is the id the NEXT declaration will define (use before declaration), n literal words
    ConstOfNext(usize),
    /// OpUndef with result type = k-th defined id (builds selector chains)
    Undef(usize),
    /// OpCopyObject with result type = k-th defined id
    Copy(usize),
    /// OpSwitch on the k-th defined id with `cases` cases of `words` literal words each
    Switch(usize, usize, usize),
    /// OpFunction / OpFunctionEnd (result type an undeclared id): the tracker must not care where a function starts or ends
    Function,
    FunctionEnd,
    /// OpConstant whose type is the MOST RECENTLY defined id, n literal words
    ConstLast(usize),
    /// OpSwitch on the most recently defined id, one case of `words` literal words
    SwitchLast(usize),
    /// OpUndef whose type is the most recently defined id
    UndefLast,
    /// the k-th instruction of `preludes()`: a well-formed instruction that declares no numeric type and no value (every
    /// OpExtension name the grammar mentions, every OpCapability, imports, a memory model): it must not change any width
    Prelude(usize),
    /// the k-th type-declaring opcode of the grammar other than OpTypeInt / OpTypeFloat (vector, matrix, array, pointer,
    /// struct, image ..), every id operand naming the most recently defined id: a type that is not numeric, whatever it is made of
    TComposite(usize),
    /// OpSwitch whose selector is (most recently defined id) XOR (1 << k): an id nothing defines; one case of `wpl` words
    SwitchAlias(u32, usize),
    /// OpConstant whose result type is (most recently defined id) XOR (1 << k): an id nothing defines; `n` literal words
    ConstAlias(u32, usize),
}

/// instructions that carry no numeric type: what a literal's width is must not depend on any of them
pub fn preludes() -> Vec<Inst> {
    use crate::model::Arg;
    static P: std::sync::OnceLock<Vec<Inst>> = std::sync::OnceLock::new();
    P.get_or_init(|| {
        let g = golden();
        let mut names: std::collections::BTreeSet<String> = std::collections::BTreeSet::new();
        for i in &g.insts {
            names.extend(i.exts.iter().cloned());
        }
        for m in g.exts.values() {
            for v in m.values() {
                names.extend(v.iter().cloned());
            }
        }
        let mut out: Vec<Inst> = names.into_iter().map(|n| Inst::new("Extension", None, None, vec![Arg::Str(n)])).collect();
        for c in g.enums["Capability"].declared() {
            out.push(Inst::new("Capability", None, None, vec![Arg::Enum("Capability", c)]));
        }
        for n in ["GLSL.std.450", "OpenCL.std", "NonSemantic.Shader.DebugInfo.100"] {
            out.push(Inst::new("ExtInstImport", None, Some(4000), vec![Arg::Str(n.to_string())]));
        }
        for (a, m) in [(0u32, 1u32), (2, 2), (5348, 3)] {
            out.push(Inst::new("MemoryModel", None, None, vec![Arg::Enum("AddressingModel", a), Arg::Enum("MemoryModel", m)]));
        }
        out
    })
    .clone()
}

/// type-declaring opcodes other than the two numeric ones (minimal shapes)
pub fn composite_types() -> Vec<Inst> {
    static P: std::sync::OnceLock<Vec<Inst>> = std::sync::OnceLock::new();
    P.get_or_init(|| {
        let g = golden();
        g.insts.iter().filter(|gi| gi.name.starts_with("Type") && gi.has_rid() && !gi.has_rtype() && gi.name != "TypeInt" && gi.name != "TypeFloat").map(|gi| crate::universe::minimal(gi)).collect()
    })
    .clone()
}

pub fn alphabet() -> Vec<TOp> {
    let mut a = vec![];
    for (w, s) in [(32, 0), (64, 1), (8, 0), (16, 1), (32, 1), (64, 0), (128, 0), (1, 0), (24, 0), (48, 1), (0xFFFF_FFFF, 0)] {
        a.push(TOp::TInt(w, s));
    }
    for w in [32, 64, 16, 128, 8, 24, 0xFFFF_FFE1] {
        a.push(TOp::TFloat(w));
    }
    a.push(TOp::TBool);
    a.push(TOp::TFloatEnc(64));
    a.push(TOp::TFloatEnc(8));
    for k in 0..4 {
        for n in [1, 2] {
            a.push(TOp::Const(k, n));
        }
    }
    for k in 0..2 {
        for n in [1, 2] {
            a.push(TOp::SpecConst(k, n));
        }
    }
    a.push(TOp::ConstOfNext(1));
    a.push(TOp::ConstOfNext(2));
    for k in 0..3 {
        a.push(TOp::Undef(k));
    }
    for k in 0..3 {
        a.push(TOp::Copy(k));
    }
    for k in 0..4 {
        a.push(TOp::Switch(k, 0, 1));
        for c in [1, 2] {
            for w in [1, 2] {
                a.push(TOp::Switch(k, c, w));
            }
        }
    }
    a.push(TOp::Function);
    a.push(TOp::FunctionEnd);
    a
}

/// the id the n-th allocation (n = 1, 2, ..) receives. Scheme 0 = ascending from 1; 1 = descending; 2 = around a
/// 4096 threshold and out of order; 3 = across 2^22; 4 = just below 2^32; 5 = across 2^16; 6 = one high id first, the
/// rest climbing past it
pub const ID_SCHEMES: usize = 7;
fn scheme_id(scheme: usize, n: u32) -> u32 {
    match scheme {
        0 => n,
        1 => 1_000_000 - n,
        2 => [3000, 3500, 4096, 5000, 4095, 4097, 6002, 2999, 8192, 1, 7000, 4094][(n as usize - 1) % 12] + 20_000 * ((n - 1) / 12),
        3 => 0x0040_0000 - 3 + n,
        4 => 0xFFFF_FF00 + n,
        5 => 0xFFFF - 3 + n,
        // the first id high, the following ones climbing past it from below in steps of 900
        _ => if n == 1 { 10_000 } else { 900 * (n - 1) },
    }
}

#[derive(Clone, Copy, Debug, PartialEq, Eq, Hash, PartialOrd, Ord)]
pub enum Ty {
    Int(u32),
    Float(u32),
}

/// words a literal of type id `t` takes: Ok(n) or Err(()) for an unsupported width
fn need(map: &BTreeMap<u32, Ty>, t: u32) -> Result<usize, ()> {
    match map.get(&t) {
        None => Ok(1),
        Some(Ty::Int(8 | 16 | 32)) | Some(Ty::Float(16 | 32)) => Ok(1),
        Some(Ty::Int(64)) | Some(Ty::Float(64)) => Ok(2),
        Some(_) => Err(()),
    }
}

#[derive(Clone, Debug, PartialEq)]
enum Exp {
    /// accepted; the operands the instruction must be delivered with
    Accept(Vec<dr::Operand>),
    Reject(&'static [&'static str]),
}

struct Built {
    words: Vec<u32>,
    /// per instruction: (words of that instruction, expectation)
    insts: Vec<(Vec<u32>, Exp)>,
    map: BTreeMap<u32, Ty>,
    enabled: bool,
}

fn lit_operand(ws: &[u32]) -> dr::Operand {
    if ws.len() == 1 {
        dr::Operand::LiteralBit32(ws[0])
    } else {
        dr::Operand::LiteralBit64((ws[1] as u64) << 32 | ws[0] as u64)
    }
}

/// builds the binary of a history and, with the reference tracker, what the parser must do with each instruction
fn build(h: &[TOp]) -> Built {
    build_s(h, 0)
}

fn build_s(h: &[TOp], scheme: usize) -> Built {
    build_h(h, scheme, 0x0001_0500, 64)
}

/// as build_s, under a given header version word and id bound word (widths are decided by the declarations alone)
fn build_h(h: &[TOp], scheme: usize, version: u32, bound: u32) -> Built {
    let g = golden();
    let op = |n: &str| g.opcode(n) as u32;
    let mut words = model::header(version, 0, bound);
    let mut insts = vec![];
    let mut map: BTreeMap<u32, Ty> = BTreeMap::new();
    let mut defined: Vec<u32> = vec![];
    let mut next = 1u32;
    let mut enabled = true;
    const MISSING: &[&str] = &["OperandExpected", "OperandError"];
    const SURPLUS: &[&str] = &["OperandExceeded"];
    const UNSUPPORTED: &[&str] = &["TypeUnsupported"];
    for o in h {
        let mut w: Vec<u32> = vec![];
        let exp;
        // the *Last operations refer to the most recently defined id
        let o = &match *o {
            TOp::ConstLast(n) if !defined.is_empty() => TOp::Const(defined.len() - 1, n),
            TOp::SwitchLast(wpl) if !defined.is_empty() => TOp::Switch(defined.len() - 1, 1, wpl),
            TOp::UndefLast if !defined.is_empty() => TOp::Undef(defined.len() - 1),
            other => other,
        };
        match *o {
            TOp::TInt(width, sign) => {
                let id = scheme_id(scheme, next);
                next += 1;
                w.extend([op("TypeInt"), id, width, sign]);
                exp = Exp::Accept(vec![dr::Operand::LiteralBit32(width), dr::Operand::LiteralBit32(sign)]);
                map.insert(id, Ty::Int(width));
                defined.push(id);
            }
            TOp::TFloat(width) => {
                let id = scheme_id(scheme, next);
                next += 1;
                w.extend([op("TypeFloat"), id, width]);
                exp = Exp::Accept(vec![dr::Operand::LiteralBit32(width)]);
                map.insert(id, Ty::Float(width));
                defined.push(id);
            }
            TOp::TFloatEnc(width) => {
                let id = scheme_id(scheme, next);
                next += 1;
                w.extend([op("TypeFloat"), id, width, 0x7FFF_FFFF]);
                exp = Exp::Accept(vec![dr::Operand::LiteralBit32(width), dr::Operand::FPEncoding(rspirv::spirv::FPEncoding::Max)]);
                map.insert(id, Ty::Float(width));
                defined.push(id);
            }
            TOp::TBool => {
                let id = scheme_id(scheme, next);
                next += 1;
                w.extend([op("TypeBool"), id]);
                exp = Exp::Accept(vec![]);
                defined.push(id);
            }
            TOp::TComposite(k) => {
                let Some(&last) = defined.last() else {
                    enabled = false;
                    break;
                };
                let id = scheme_id(scheme, next);
                next += 1;
                let mut i = model::remap_ids(&composite_types()[k], &|_| last);
                i.rid = Some(id);
                let mut e = model::enc(&i);
                e[0] &= 0xFFFF;
                w.extend(e);
                exp = Exp::Accept(model::to_dr(&i).map(|d| d.operands).unwrap_or_default());
                defined.push(id);
            }
            TOp::SwitchAlias(k, wpl) => {
                let Some(&last) = defined.last() else {
                    enabled = false;
                    break;
                };
                let sel = last ^ (1u32 << k);
                if sel == 0 || defined.contains(&sel) || map.contains_key(&sel) {
                    enabled = false;
                    break;
                }
                w.extend([op("Switch"), sel, 60]);
                let tail: Vec<u32> = (0..wpl).map(|j| 0x2222_0000 * (j as u32 + 1)).chain([61]).collect();
                w.extend(&tail);
                // nothing is known about an undefined selector: one word per literal
                exp = if wpl == 1 { Exp::Accept(vec![dr::Operand::IdRef(sel), dr::Operand::IdRef(60), lit_operand(&tail[..1]), dr::Operand::IdRef(61)]) } else { Exp::Reject(MISSING) };
            }
            TOp::ConstAlias(k, n) => {
                let Some(&last) = defined.last() else {
                    enabled = false;
                    break;
                };
                let t = last ^ (1u32 << k);
                if t == 0 || defined.contains(&t) || map.contains_key(&t) {
                    enabled = false;
                    break;
                }
                let id = scheme_id(scheme, next);
                next += 1;
                if id == t {
                    enabled = false;
                    break;
                }
                let lits: Vec<u32> = (0..n).map(|j| (0x1111_0000 * (j as u32 + 1)).wrapping_add(id)).collect();
                w.extend([op("Constant"), t, id]);
                w.extend(&lits);
                exp = if n == 1 { Exp::Accept(vec![lit_operand(&lits)]) } else { Exp::Reject(SURPLUS) };
                defined.push(id);
            }
            TOp::Prelude(k) => {
                let i = &preludes()[k];
                let mut e = model::enc(i);
                e[0] &= 0xFFFF;
                w.extend(e);
                exp = Exp::Accept(model::to_dr(i).map(|d| d.operands).unwrap_or_default());
            }
            TOp::Const(k, n) | TOp::SpecConst(k, n) => {
                let Some(&t) = defined.get(k) else {
                    enabled = false;
                    break;
                };
                let id = scheme_id(scheme, next);
                next += 1;
                let lits: Vec<u32> = (0..n).map(|j| (0x1111_0000 * (j as u32 + 1)).wrapping_add(id)).collect();
                w.extend([if matches!(o, TOp::Const(..)) { op("Constant") } else { op("SpecConstant") }, t, id]);
                w.extend(&lits);
                exp = match need(&map, t) {
                    Err(()) => Exp::Reject(UNSUPPORTED),
                    Ok(nd) if nd == n => Exp::Accept(vec![lit_operand(&lits)]),
                    Ok(nd) if nd < n => Exp::Reject(SURPLUS),
                    Ok(_) => Exp::Reject(MISSING),
                };
                if let Some(ty) = map.get(&t).copied() {
                    map.insert(id, ty);
                }
                defined.push(id);
            }
            TOp::ConstOfNext(n) => {
                let id = scheme_id(scheme, next);
                next += 1;
                let t = scheme_id(scheme, next); // not declared yet: the following declaration (if any) gets this id
                let lits: Vec<u32> = (0..n).map(|j| (0x3333_0000 * (j as u32 + 1)).wrapping_add(id)).collect();
                w.extend([op("Constant"), t, id]);
                w.extend(&lits);
                exp = match need(&map, t) {
                    Err(()) => Exp::Reject(UNSUPPORTED),
                    Ok(nd) if nd == n => Exp::Accept(vec![lit_operand(&lits)]),
                    Ok(nd) if nd < n => Exp::Reject(SURPLUS),
                    Ok(_) => Exp::Reject(MISSING),
                };
                defined.push(id);
            }
            TOp::Undef(k) | TOp::Copy(k) => {
                let Some(&t) = defined.get(k) else {
                    enabled = false;
                    break;
                };
                let id = scheme_id(scheme, next);
                next += 1;
                if matches!(o, TOp::Undef(_)) {
                    w.extend([op("Undef"), t, id]);
                    exp = Exp::Accept(vec![]);
                } else {
                    w.extend([op("CopyObject"), t, id, defined[0]]);
                    exp = Exp::Accept(vec![dr::Operand::IdRef(defined[0])]);
                }
                if let Some(ty) = map.get(&t).copied() {
                    map.insert(id, ty);
                }
                defined.push(id);
            }
            TOp::ConstLast(_) | TOp::SwitchLast(_) | TOp::UndefLast => {
                enabled = false;
                break;
            }
            TOp::Function => {
                let id = scheme_id(scheme, next);
                next += 1;
                w.extend([op("Function"), 0x7000_0001, id, 0, 0x7000_0002]);
                exp = Exp::Accept(vec![dr::Operand::FunctionControl(rspirv::spirv::FunctionControl::NONE), dr::Operand::IdRef(0x7000_0002)]);
            }
            TOp::FunctionEnd => {
                w.extend([op("FunctionEnd")]);
                exp = Exp::Accept(vec![]);
            }
            TOp::Switch(k, cases, wpl) => {
                let Some(&sel) = defined.get(k) else {
                    enabled = false;
                    break;
                };
                let default = 60;
                w.extend([op("Switch"), sel, default]);
                let mut tail: Vec<u32> = vec![];
                for c in 0..cases {
                    for j in 0..wpl {
                        tail.push(0x2222_0000 * (j as u32 + 1) + c as u32);
                    }
                    tail.push(61 + c as u32);
                }
                w.extend(&tail);
                exp = match need(&map, sel) {
                    Err(()) => {
                        if tail.is_empty() {
                            Exp::Accept(vec![dr::Operand::IdRef(sel), dr::Operand::IdRef(default)])
                        } else {
                            Exp::Reject(UNSUPPORTED)
                        }
                    }
                    Ok(nd) => {
                        if tail.len() % (nd + 1) == 0 {
                            let mut ops = vec![dr::Operand::IdRef(sel), dr::Operand::IdRef(default)];
                            for c in tail.chunks(nd + 1) {
                                ops.push(lit_operand(&c[..nd]));
                                ops.push(dr::Operand::IdRef(c[nd]));
                            }
                            Exp::Accept(ops)
                        } else {
                            Exp::Reject(MISSING)
                        }
                    }
                };
            }
        }
        w[0] |= (w.len() as u32) << 16;
        words.extend(&w);
        let rejected = matches!(exp, Exp::Reject(_));
        insts.push((w, exp));
        if rejected {
            // parsing ends at the first malformed instruction; two further well-formed instructions follow it in the
            // binary (never delivered): a literal that reaches across the declared extent would swallow their words
            words.extend([(1 << 16) | op("Nop"), (1 << 16) | op("Nop")]);
            break;
        }
    }
    Built { words, insts, map, enabled }
}

pub fn hist_str(h: &[TOp]) -> String {
    h.iter().map(|o| format!("{:?}", o)).collect::<Vec<_>>().join(",")
}

/// observable result of one parse, for the independence comparison
fn observe(words: &[u32]) -> Result<String, String> {
    let bytes = model::words_to_bytes(words);
    guarded(|| {
        let (r, c) = parse_collect(&bytes);
        format!("{:?}|{:?}", r.as_ref().map_err(|e| state_name(e)), c.insts)
    })
}

pub fn run_hist(h: &[TOp]) -> Step {
    run_hist_s(h, 0)
}

pub fn run_hist_s(h: &[TOp], scheme: usize) -> Step {
    run_hist_h(h, scheme, 0x0001_0500, 64)
}

pub fn run_hist_h(h: &[TOp], scheme: usize, version: u32, bound: u32) -> Step {
    let b = build_h(h, scheme, version, bound);
    if !b.enabled {
        return Step { key: None, viols: vec![], outcomes: vec!["disabled".into()] };
    }
    let rep = json!({"kind": "bytes", "bytes": hex(&model::words_to_bytes(&b.words)), "history": hist_str(h), "id_scheme": scheme});
    let keyf = |class: &str| format!("C10:{}:{:?}", class, h.last().map(|o| format!("{:?}", o).split('(').next().unwrap().to_string()));
    let mut viols: Vec<Viol> = vec![];
    let mut outcomes = vec![];
    let bytes = model::words_to_bytes(&b.words);
    match guarded(|| parse_collect(&bytes)) {
        Err(p) => viols.push(viol(format!("C10:panic@{}", crate::report::panic_class(&p)), format!("history [{}] panics the parser: {}", hist_str(h), p), rep.clone())),
        Ok((res, col)) => {
            let n_ok = b.insts.iter().take_while(|(_, e)| matches!(e, Exp::Accept(_))).count();
            let last_rejects = n_ok < b.insts.len();
            // delivered instructions: exactly the accepted prefix, with the operands the model dictates
            if col.insts.len() != n_ok {
                viols.push(viol(keyf("delivered-count"), format!("history [{}]: parser delivered {} instructions, the width model accepts {} (result {:?})", hist_str(h), col.insts.len(), n_ok, res.as_ref().map_err(|e| state_name(e))), rep.clone()));
            } else {
                for (idx, ((w, e), got)) in b.insts.iter().zip(col.insts.iter()).enumerate() {
                    if let Exp::Accept(ops) = e {
                        if got.operands.iter().map(model::from_operand).collect::<Vec<_>>() != ops.iter().map(model::from_operand).collect::<Vec<_>>() {
                            viols.push(viol(keyf("operands"), format!("history [{}] instruction {}: delivered operands {:?}, the declared types demand {:?}", hist_str(h), idx + 1, got.operands, ops), rep.clone()));
                            break;
                        }
                        // the assembler emits the same number of words (indeed the same words)
                        let asm = got.assemble();
                        if &asm != w {
                            viols.push(viol(keyf("assemble"), format!("history [{}] instruction {}: re-assembled to {:x?}, input was {:x?}", hist_str(h), idx + 1, asm, w), rep.clone()));
                            break;
                        }
                    }
                }
            }
            match (&res, last_rejects) {
                (Ok(()), false) => outcomes.push("accept".into()),
                (Err(e), true) => {
                    let Exp::Reject(classes) = &b.insts[n_ok].1 else { unreachable!() };
                    let nm = state_name(e);
                    if !classes.contains(&nm) {
                        viols.push(viol(keyf("error-class"), format!("history [{}]: parser reports {}, expected one of {:?}", hist_str(h), nm, classes), rep.clone()));
                    } else {
                        outcomes.push(format!("reject:{}", nm));
                    }
                }
                (r, _) => viols.push(viol(keyf("accept-mismatch"), format!("history [{}]: parser result {:?}, the width model {}", hist_str(h), r.as_ref().map_err(|e| state_name(e)), if last_rejects { "rejects the last instruction" } else { "accepts" }), rep.clone())),
            }
            // which literal shapes were delivered (vacuity guard material)
            for i in &col.insts {
                for o in &i.operands {
                    match o {
                        dr::Operand::LiteralBit64(_) => outcomes.push("delivered:bit64".into()),
                        dr::Operand::LiteralBit32(_) if matches!(i.class.opname, "Constant" | "SpecConstant" | "Switch") => outcomes.push("delivered:bit32".into()),
                        _ => {}
                    }
                }
            }
        }
    }
    if !viols.is_empty() || b.insts.iter().any(|(_, e)| matches!(e, Exp::Reject(_))) {
        return Step { key: None, viols, outcomes };
    }
    Step { key: Some(format!("{:?}|{}", b.map, b.insts.len().min(4))), viols, outcomes }
}

pub fn run(tier: Tier) -> Run {
    let mut run = Run::new("C10", tier, "model_checking");
    let alpha = alphabet();
    let d_enum = tier.pick(3, 4);
    let d_clos = tier.pick(5, 7);
    let a = xs::enumerate(&alpha, d_enum, &run_hist);
    let b = xs::closure(&alpha, d_clos, 2_000_000, &run_hist);
    run.add_all(a.viols.clone());
    run.add_all(b.viols.clone());
    run.merge_outcomes(&a.outcomes);
    run.merge_outcomes(&b.outcomes);
    // ---- the same enumeration under other id assignments (descending, out of order around 4096, across 2^16 / 2^22,
    //      just below 2^32): what an id stands for must not depend on its magnitude or on the order ids were first seen
    let mut scheme_transitions = 0u64;
    for scheme in 1..ID_SCHEMES {
        let f = |h: &[TOp]| run_hist_s(h, scheme);
        let e = xs::enumerate(&alpha, if scheme <= 2 { d_enum } else { d_enum - 1 }, &f);
        run.add_all(e.viols.iter().map(|v| Viol { key: format!("{}:ids{}", v.key, scheme), what: format!("(id scheme {}) {}", scheme, v.what), replay: v.replay.clone() }));
        scheme_transitions += e.transitions;
    }
    // one step deeper over a reduced alphabet (the width classes, constants / selectors of the first four ids,
    // function boundaries), under every id scheme: defects that need two earlier declarations AND a boundary
    let reduced: Vec<TOp> = vec![
        TOp::TInt(32, 0), TOp::TInt(64, 1), TOp::TInt(128, 0), TOp::TFloat(64), TOp::TFloat(8), TOp::TFloatEnc(64),
        TOp::Const(0, 1), TOp::Const(0, 2), TOp::Const(1, 2), TOp::Const(2, 1), TOp::Const(2, 2), TOp::ConstOfNext(2),
        TOp::Undef(0), TOp::Undef(1), TOp::Undef(2), TOp::Copy(1),
        TOp::Switch(1, 1, 2), TOp::Switch(2, 1, 2), TOp::Switch(3, 1, 1), TOp::Switch(3, 1, 2),
        TOp::Function, TOp::FunctionEnd,
    ];
    for scheme in 0..ID_SCHEMES {
        let f = |h: &[TOp]| run_hist_s(h, scheme);
        let e = xs::enumerate(&reduced, d_enum + 1, &f);
        run.add_all(e.viols.iter().map(|v| Viol { key: format!("{}:ids{}", v.key, scheme), what: format!("(id scheme {}) {}", scheme, v.what), replay: v.replay.clone() }));
        scheme_transitions += e.transitions;
    }
    // ---- every extension name the grammar mentions, every capability, imports and memory models in front of declarations
    //      of unsupported and supported widths and their consumers: the width decision depends on the int / float
    //      declarations only
    {
        let np = preludes().len();
        let tails: Vec<Vec<TOp>> = {
            let mut t = vec![];
            for w in [24u32, 48, 7, 33] {
                t.push(vec![TOp::TInt(w, 0), TOp::ConstLast(1)]);
                t.push(vec![TOp::TInt(w, 1), TOp::ConstLast(2)]);
                t.push(vec![TOp::TInt(w, 0), TOp::UndefLast, TOp::SwitchLast(1)]);
                t.push(vec![TOp::TInt(w, 0), TOp::UndefLast, TOp::SwitchLast(2)]);
            }
            for w in [24u32, 48, 8, 128] {
                t.push(vec![TOp::TFloat(w), TOp::ConstLast(1)]);
                t.push(vec![TOp::TFloat(w), TOp::ConstLast(2)]);
            }
            t.push(vec![TOp::TInt(64, 0), TOp::ConstLast(2)]);
            t.push(vec![TOp::TInt(16, 1), TOp::ConstLast(1)]);
            t.push(vec![TOp::TFloat(64), TOp::ConstLast(2)]);
            t
        };
        let res: Vec<Vec<Viol>> = (0..np)
            .into_par_iter()
            .map(|k| {
                let mut out = vec![];
                for t in &tails {
                    let mut h = vec![TOp::Prelude(k)];
                    h.extend(t.iter().cloned());
                    for v in run_hist(&h).viols {
                        if out.len() < 2 {
                            out.push(Viol { key: format!("{}:after-{}", v.key, preludes()[k].name()), what: format!("(after {}) {}", preludes()[k].short(), v.what), replay: v.replay });
                        }
                    }
                }
                out
            })
            .collect();
        run.outcome("prelude_histories", (np * tails.len()) as u64);
        for v in res {
            run.add_all(v);
        }
    }
    // ---- composite types and alias ids: (a) every non-numeric type-declaring opcode built from a 64-bit / odd-width /
    //      narrow scalar, then a constant typed by it, a value of it and a switch on that value: only OpTypeInt / OpTypeFloat
    //      carry a width; (b) a switch / constant whose selector / type id differs from a defined 64-bit (or unsupported) id
    //      in exactly one bit, for each of the 32 bits: an id nothing defines is unknown, whatever ids it resembles
    {
        let nct = composite_types().len();
        let mut hs: Vec<Vec<TOp>> = vec![];
        for base in [TOp::TInt(64, 0), TOp::TInt(24, 0), TOp::TFloat(64), TOp::TInt(16, 1), TOp::TFloat(128)] {
            for k in 0..nct {
                for tail in [vec![TOp::ConstLast(1)], vec![TOp::ConstLast(2)], vec![TOp::UndefLast, TOp::SwitchLast(1)], vec![TOp::UndefLast, TOp::SwitchLast(2)]] {
                    let mut h = vec![base.clone(), TOp::TComposite(k)];
                    h.extend(tail);
                    hs.push(h);
                }
            }
            for k in 0..32u32 {
                for n in 1..=2usize {
                    hs.push(vec![base.clone(), TOp::UndefLast, TOp::SwitchAlias(k, n)]);
                    hs.push(vec![base.clone(), TOp::ConstAlias(k, n)]);
                    hs.push(vec![base.clone(), TOp::UndefLast, TOp::ConstAlias(k, n)]);
                    hs.push(vec![TOp::TInt(32, 0), base.clone(), TOp::ConstLast(1), TOp::SwitchAlias(k, n)]);
                }
            }
        }
        // chains of typed values N deep (N = 1..=40) below each base type, then the consumers
        for base in [TOp::TInt(64, 0), TOp::TInt(24, 0), TOp::TFloat(64), TOp::TInt(16, 1)] {
            for n in 1..=40usize {
                for tail in [vec![TOp::ConstLast(1)], vec![TOp::ConstLast(2)], vec![TOp::SwitchLast(1)], vec![TOp::SwitchLast(2)]] {
                    let mut h = vec![base.clone()];
                    h.extend(std::iter::repeat(TOp::UndefLast).take(n));
                    h.extend(tail);
                    hs.push(h);
                }
            }
        }
        let res: Vec<Vec<Viol>> = hs
            .par_iter()
            .map(|h| {
                let mut out = vec![];
                for scheme in [0usize, 2, 4] {
                    for v in run_hist_s(h, scheme).viols {
                        if out.is_empty() {
                            out.push(Viol { key: format!("{}:composite-or-alias", v.key), what: format!("(id scheme {}) {}", scheme, v.what), replay: v.replay });
                        }
                    }
                }
                out
            })
            .collect();
        run.outcome("composite_and_alias_histories", hs.len() as u64 * 3);
        for v in res {
            run.add_all(v);
        }
    }
    // ---- re-entrancy: a consumer that runs a complete second parse from inside a callback of the first (every ordered pair
    //      of 12 small binaries x 7 callback positions): both parses give what they give alone
    {
        let (n, bad) = crate::util::nested_parse_sweep();
        run.outcome("nested_parses", n);
        for (why, rep) in bad.into_iter().take(3) {
            let class = why.split(':').next().unwrap_or("").to_string();
            run.add(viol(format!("C10:nested-parse:{}", class), why, rep));
        }
    }
    // ---- header words: every version 0.0 .. 2.0 / 255.255 and id bounds 0, 1, 2, 3, 4, 5, 64, 2^16, 2^32-1 (below, at and
    //      above the ids the history uses) x every history of depth <= 3 over a width-sensitive alphabet
    {
        let versions = [0u32, 0x0001_0000, 0x0001_0300, 0x0001_0400, 0x0001_0600, 0x0001_0700, 0x0002_0000, 0x00FF_FF00];
        let bounds = [0u32, 1, 2, 3, 4, 5, 64, 0x1_0000, 0xFFFF_FFFF];
        let al = vec![TOp::TInt(64, 0), TOp::TInt(24, 0), TOp::TInt(16, 1), TOp::TFloat(64), TOp::ConstLast(1), TOp::ConstLast(2), TOp::UndefLast, TOp::SwitchLast(1), TOp::SwitchLast(2), TOp::Const(0, 2), TOp::Const(0, 1)];
        let hdrs: Vec<(u32, u32)> = versions.iter().map(|v| (*v, 64u32)).chain(bounds.iter().map(|b| (0x0001_0500u32, *b))).collect();
        let mut total = 0u64;
        for (v, b) in hdrs {
            let fh = |h: &[TOp]| run_hist_h(h, 0, v, b);
            let e = xs::enumerate(&al, 3, &fh);
            total += e.transitions;
            run.add_all(e.viols.iter().map(|x| Viol { key: format!("{}:header", x.key), what: format!("(header version {:#x}, bound {}) {}", v, b, x.what), replay: x.replay.clone() }));
        }
        run.outcome("header_word_histories", total);
    }
    // ---- long histories (U-scale): an early declaration, then N further tracked ids (distinct type declarations, or
    //      values), then a declaration that is the (N+2)-th tracked id and a literal consumer of it; and a consumer of
    //      the EARLY declaration after all of them. N = every value 0..=300 and around 2^16; id schemes 0, 1, 2, 6
    {
        let ns: Vec<usize> = (0..=300).chain([1023, 1024, 4095, 4096, 4097, 65_534, 65_535, 65_536, 65_537, 70_000]).collect();
        let work: Vec<(usize, usize, usize)> = ns.iter().flat_map(|&n| (0..2).flat_map(move |filler| [0usize, 1, 2, 6].into_iter().map(move |sch| (n, filler, sch)))).filter(|(n, _, sch)| *n <= 300 || *sch == 0).collect();
        let res: Vec<(u64, Vec<Viol>)> = work
            .par_iter()
            .map(|&(n, filler, scheme)| {
                let mut viols = vec![];
                let mut cnt = 0u64;
                let mut prefix: Vec<TOp> = vec![TOp::TInt(24, 0)];
                for i in 0..n {
                    prefix.push(if filler == 0 { TOp::TInt(1000 + i as u32, (i % 2) as u32) } else { TOp::Undef(0) });
                }
                let tails: Vec<Vec<TOp>> = vec![
                    vec![TOp::TInt(64, 0), TOp::ConstLast(2)],
                    vec![TOp::TInt(64, 1), TOp::ConstLast(1)],
                    vec![TOp::TInt(32, 0), TOp::ConstLast(1)],
                    vec![TOp::TFloat(64), TOp::UndefLast, TOp::SwitchLast(2)],
                    vec![TOp::TInt(128, 0), TOp::ConstLast(1)],
                    vec![TOp::Const(0, 1)],
                    vec![TOp::TInt(64, 0), TOp::Const(0, 1)],
                ];
                for t in tails {
                    let mut h = prefix.clone();
                    h.extend(t);
                    cnt += 1;
                    let st = run_hist_s(&h, scheme);
                    for v in st.viols {
                        if viols.len() < 2 {
                            viols.push(Viol { key: format!("{}:long", v.key), what: format!("(after {} {}, id scheme {}) {}", n, if filler == 0 { "further type declarations" } else { "further typed values" }, scheme, v.what.chars().take(700).collect::<String>()), replay: json!({"kind": "c10-long", "n": n, "filler": filler, "scheme": scheme}) });
                        }
                    }
                }
                (cnt, viols)
            })
            .collect();
        let mut long_n = 0;
        for (k, v) in res {
            long_n += k;
            run.add_all(v);
        }
        run.outcome("long_histories", long_n);
        scheme_transitions += long_n;
    }
    run.outcome("transitions_under_other_id_schemes", scheme_transitions);

    // ---- independence: parsing A and then B gives for B exactly what parsing B alone gives
    let mut hs: Vec<Vec<TOp>> = vec![vec![]];
    for x in &alpha {
        hs.push(vec![*x]);
    }
    for x in &alpha {
        for y in &alpha {
            hs.push(vec![*x, *y]);
        }
    }
    let hs: Vec<(Vec<TOp>, Vec<u32>)> = hs.into_iter().filter_map(|h| { let b = build(&h); if b.enabled { Some((h, b.words)) } else { None } }).collect();
    // first parses: quick = every history of length <= 1 plus every length-2 history whose parse ENDS EARLY (a
    // rejected last instruction); thorough = all. Each first parse is run twice: to its natural end, and with a
    // consumer that stops after the first instruction (early exits are where leftover state would survive).
    let ends_early = |h: &Vec<TOp>| build(h).insts.last().map_or(false, |(_, e)| matches!(e, Exp::Reject(_)));
    let first: Vec<&(Vec<TOp>, Vec<u32>)> = match tier {
        Tier::Quick => hs.iter().filter(|h| h.0.len() <= 1 || ends_early(&h.0)).collect(),
        Tier::Thorough => hs.iter().collect(),
    };
    let alone: Vec<Result<String, String>> = hs.par_iter().map(|(_, w)| observe(w)).collect();
    struct StopAfterFirst(u32);
    impl rspirv::binary::Consumer for StopAfterFirst {
        fn initialize(&mut self) -> rspirv::binary::ParseAction {
            rspirv::binary::ParseAction::Continue
        }
        fn finalize(&mut self) -> rspirv::binary::ParseAction {
            rspirv::binary::ParseAction::Continue
        }
        fn consume_header(&mut self, _: dr::ModuleHeader) -> rspirv::binary::ParseAction {
            rspirv::binary::ParseAction::Continue
        }
        fn consume_instruction(&mut self, _: dr::Instruction) -> rspirv::binary::ParseAction {
            self.0 += 1;
            if self.0 >= 1 {
                rspirv::binary::ParseAction::Stop
            } else {
                rspirv::binary::ParseAction::Continue
            }
        }
    }
    let pair_viols: Vec<Option<Viol>> = first
        .par_iter()
        .map(|(ha, wa)| {
            let ba = model::words_to_bytes(wa);
            for mode in 0..2 {
                for (j, (hb, wb)) in hs.iter().enumerate() {
                    if mode == 0 {
                        let _ = observe(wa);
                    } else {
                        let _ = guarded(|| rspirv::binary::parse_bytes(&ba, &mut StopAfterFirst(0)));
                    }
                    let after = observe(wb);
                    if after != alone[j] {
                        return Some(viol(
                            "C10:independence",
                            format!("parsing [{}] gives {:?} alone but {:?} after parsing [{}]{}", hist_str(hb), alone[j], after, hist_str(ha), if mode == 1 { " with a consumer that stops after the first instruction" } else { "" }),
                            json!({"kind": "c10-pair", "first": hex(&model::words_to_bytes(wa)), "second": hex(&model::words_to_bytes(wb)), "first_stops_early": mode == 1}),
                        ));
                    }
                }
            }
            None
        })
        .collect();
    let pairs = 2 * first.len() as u64 * hs.len() as u64;
    run.add_all(pair_viols.into_iter().flatten());
    run.outcome("independence_pairs", pairs);

    run.set("states", json!(b.states));
    run.set("transitions", json!(a.transitions + b.transitions + pairs));
    run.set("traces_validated_against_impl", json!(a.histories_replayed + b.histories_replayed + 2 * pairs));
    run.set("max_depth", json!(b.max_depth));
    run.set("bounds", json!({"alphabet": alpha.len(), "alphabet_ops": alpha.iter().map(|o| format!("{:?}", o)).collect::<Vec<_>>(), "full_enumeration_depth": d_enum, "closure_depth": d_clos,
        "independence_pairs": format!("{} first histories x {} second histories (length <= 2)", first.len(), hs.len())}));
    run.set("bound_completed", json!({"enumeration_depth": a.depth_completed, "closure_depth": if b.depth_completed == usize::MAX { d_clos } else { b.depth_completed }}));
    run.set("closure", json!({"states": b.states, "transitions": b.transitions, "per_depth_states": b.per_depth_states}));
    run.set("caps_hit", json!(b.caps_hit));
    run.set("exhaustive", json!(b.caps_hit.is_empty()));
    run.set("samples", json!(a.sample_histories.iter().chain(b.sample_histories.iter()).collect::<Vec<_>>()));
    run.set("rule", json!("state = instruction history encoded to a binary and parsed by a fresh real Parser; the reference tracker (id -> Int(w)/Float(w), propagated through result types) dictates per instruction accept/reject, the error class and the exact LiteralBit32/LiteralBit64 operands; every delivered instruction is re-assembled and compared with its input words; closure key = the model's id->type map"));
    run.assume("ids are defined once (histories redefining an id are not generated: outside the quantifier)");
    for o in ["accept", "reject:TypeUnsupported", "reject:OperandExceeded", "delivered:bit64", "delivered:bit32", "independence_pairs"] {
        run.require_outcome(o);
    }
    run
}
