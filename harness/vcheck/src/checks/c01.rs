//! C01 — load-then-assemble reproduces every instruction of the input binary (shape B).
//! Oracle: the independent layout sorter (the A.4 module model of c05) + the reference encoder.
use crate::bsys::snap;
use crate::checks::c03::{context_shapes, type_context};
use crate::checks::c05::{rep_inst, Expect, LModel, SYMBOLS};
use crate::golden::golden;
use crate::model::{self, enc, Arg, Inst};
use crate::report::{guarded, hex, viol, Run, Tier, Viol};
use crate::universe::{self, class_of, placement_dont_care, Class};
use rayon::prelude::*;
use rspirv::binary::Assemble;
use rspirv::dr;
use serde_json::json;
use std::collections::BTreeMap;

pub struct Case {
    pub id: String,
    pub insts: Vec<Inst>,
    /// raw input words after the header, if they differ from the reference encoding (garbage after a NUL)
    pub raw: Option<Vec<u32>>,
    pub version: u32,
    pub bound: u32,
}

fn expected_order(m: &LModel) -> Vec<Inst> {
    let mut v = vec![];
    for s in &m.snap.secs {
        v.extend(s.iter().cloned());
    }
    for f in &m.snap.fns {
        v.extend(f.def.iter().cloned());
        v.extend(f.params.iter().cloned());
        for b in &f.blocks {
            v.extend(b.label.iter().cloned());
            v.extend(b.insts.iter().cloned());
        }
        v.extend(f.end.iter().cloned());
    }
    v
}

/// is the input one of the two classes the statement excludes
fn excluded(insts: &[Inst]) -> Option<&'static str> {
    let mut f = false;
    let mut b = false;
    let mut mm = 0;
    for i in insts {
        match class_of(&i.name()) {
            Class::Function => f = true,
            Class::FunctionEnd => f = false,
            Class::Label => b = true,
            Class::Terminator => b = false,
            Class::Line => {
                if f && !b {
                    return Some("line-in-function-outside-block");
                }
            }
            Class::Module(3) => {
                mm += 1;
                if mm > 1 {
                    return Some("more-than-one-memory-model");
                }
            }
            _ => {}
        }
    }
    None
}

pub fn check_case(c: &Case) -> (Vec<Viol>, &'static str) {
    let mut words = model::header(c.version, 0x0007_0001, c.bound);
    let mut body = vec![];
    for i in &c.insts {
        body.extend(enc(i));
    }
    let reference_body = body.clone();
    if let Some(r) = &c.raw {
        body = r.clone();
    }
    words.extend(&body);
    let rep = json!({"kind": "words", "words": words, "case": c.id});
    let first_name = c.id.split(':').next().unwrap_or("").to_string();
    let loaded = match guarded(|| dr::load_words(&words)) {
        Err(p) => return (vec![viol(format!("C01:panic@{}", crate::report::panic_class(&p)), format!("case {}: load_words panics: {}", c.id, p), rep)], "panic"),
        Ok(Err(_)) => return (vec![], "not-loadable"),
        Ok(Ok(m)) => m,
    };
    if let Some(why) = excluded(&c.insts) {
        return (vec![], if why.starts_with("line") { "excluded:line-outside-block" } else { "excluded:second-memory-model" });
    }
    // the independent layout sorter
    let mut lm = LModel::new(Some(c.version));
    for i in &c.insts {
        if lm.feed(i) != Expect::Ok {
            return (vec![], "model-rejects(C05's business)");
        }
    }
    if lm.end_of_stream() != Expect::Ok {
        return (vec![], "model-rejects(C05's business)");
    }
    if c.insts.iter().any(|i| placement_dont_care(&i.name())) {
        // placement of these is outside the claim unless inside a block; the cases place them there
    }
    let order = expected_order(&lm);
    let mut want: Vec<u32> = vec![];
    for i in &order {
        want.extend(enc(i));
    }
    let mut viols = vec![];
    let out = match guarded(|| loaded.assemble()) {
        Err(p) => return (vec![viol(format!("C01:panic@{}", crate::report::panic_class(&p)), format!("case {}: assemble panics: {}", c.id, p), rep)], "panic"),
        Ok(o) => o,
    };
    // second use: the same module assembles to the same words again
    if guarded(|| loaded.assemble()).ok().as_ref() != Some(&out) {
        viols.push(viol(format!("C01:repeat:{}", first_name), format!("case {}: a second assemble() of the loaded module differs from the first", c.id), rep.clone()));
    }
    if out.len() < 5 || out[0] != golden().magic || out[1] != (c.version & 0x00FF_FF00) || out[3] != c.bound {
        viols.push(viol("C01:header", format!("case {}: output header {:x?}, input carried version {:#x} and bound {}", c.id, &out[..out.len().min(5)], c.version, c.bound), rep.clone()));
    } else if out[5..] != want[..] {
        // classify: dropped / duplicated / misplaced / words-differ
        let count = |ws: &[u32]| -> BTreeMap<Vec<u32>, i32> {
            let mut m = BTreeMap::new();
            let mut i = 0;
            while i < ws.len() {
                let n = ((ws[i] >> 16) as usize).max(1).min(ws.len() - i);
                *m.entry(ws[i..i + n].to_vec()).or_insert(0) += 1;
                i += n;
            }
            m
        };
        let (a, b) = (count(&out[5..]), count(&want));
        let kind = if a == b {
            "misplaced"
        } else if b.iter().any(|(k, n)| a.get(k).copied().unwrap_or(0) < *n) && out.len() - 5 < want.len() {
            "dropped"
        } else if out.len() - 5 > want.len() {
            "duplicated-or-invented"
        } else {
            "words-differ"
        };
        viols.push(viol(
            format!("C01:{}:{}", kind, first_name),
            format!("case {}: assembled body {:x?} ; the layout-sorted re-encoding of the input is {:x?}", c.id, &out[5..], want),
            rep.clone(),
        ));
    } else {
        // an input already in layout order comes back word-identical from the first instruction on
        if order == c.insts && c.raw.is_none() && out[5..] != reference_body[..] {
            viols.push(viol(format!("C01:not-identical:{}", first_name), format!("case {}: layout-ordered input does not come back word-identical", c.id), rep.clone()));
        }
    }
    // loading the output again gives an equal module
    match guarded(|| dr::load_words(&out)) {
        Err(p) => viols.push(viol(format!("C01:panic@{}", crate::report::panic_class(&p)), format!("case {}: reloading the output panics: {}", c.id, p), rep.clone())),
        Ok(Err(e)) => viols.push(viol(format!("C01:reload-fails:{}", first_name), format!("case {}: the assembled output does not load: {:?}", c.id, crate::util::state_name(&e)), rep.clone())),
        Ok(Ok(m2)) => {
            if snap(&m2) != snap(&loaded) {
                viols.push(viol(format!("C01:reload-differs:{}", first_name), format!("case {}: reloaded module {} differs from the first {}", c.id, snap(&m2).brief(), snap(&loaded).brief()), rep.clone()));
            }
        }
    }
    (viols, "roundtrip")
}

fn frame(target: &Inst) -> Vec<(String, Vec<Inst>)> {
    let cap = Inst::new("Capability", None, None, vec![Arg::Enum("Capability", 1)]);
    let f = rep_inst("Function", 1);
    let l = rep_inst("Label", 2);
    let r = rep_inst("Return", 3);
    let fe = rep_inst("FunctionEnd", 4);
    let t = target.clone();
    let name = t.name();
    let in_block = ("in-block".to_string(), vec![cap.clone(), f.clone(), l.clone(), t.clone(), r.clone(), fe.clone()]);
    let at_module = ("at-module".to_string(), vec![cap.clone(), t.clone(), f.clone(), l.clone(), r.clone(), fe.clone()]);
    match class_of(&name) {
        Class::Module(_) => {
            if placement_dont_care(&name) {
                vec![in_block]
            } else {
                // also out of layout order: after the function
                vec![at_module, ("after-function".to_string(), vec![cap.clone(), f.clone(), l.clone(), r.clone(), fe.clone(), t.clone()])]
            }
        }
        Class::Variable | Class::Undef | Class::Line => vec![at_module, in_block],
        Class::Block => vec![in_block],
        Class::Terminator => vec![("as-terminator".to_string(), vec![cap.clone(), f.clone(), l.clone(), t.clone(), fe.clone()])],
        Class::Function => vec![("as-function".to_string(), vec![cap.clone(), t.clone(), l.clone(), r.clone(), fe.clone()])],
        Class::Label => vec![("as-label".to_string(), vec![cap.clone(), f.clone(), t.clone(), r.clone(), fe.clone()])],
        Class::Parameter => vec![("as-parameter".to_string(), vec![cap.clone(), f.clone(), t.clone(), l.clone(), r.clone(), fe.clone()])],
        Class::FunctionEnd => vec![("as-end".to_string(), vec![cap.clone(), f.clone(), l.clone(), r.clone(), t.clone()])],
    }
}

pub fn cases(tier: Tier) -> Vec<Case> {
    let mut out = vec![];
    // (a) every U-inst shape embedded by U-ctx
    for s in universe::all_shapes(tier) {
        for (how, insts) in frame(&s.inst) {
            out.push(Case { id: format!("{}:{}", s.id, how), insts, raw: None, version: 0x0001_0300, bound: 5000 });
        }
    }
    // (a') U-scale: sizes, counts and ids on both sides of every threshold
    for s in universe::scale_shapes(tier).into_iter().chain(universe::pattern_shapes(tier)) {
        for (how, insts) in frame(&s.inst).into_iter().take(1) {
            out.push(Case { id: format!("{}:{}", s.id, how), insts, raw: None, version: 0x0001_0300, bound: 5000 });
        }
    }
    // (d) 64-bit and narrow literals behind their types (module scope, plus a switch inside a block)
    let ctx = type_context();
    for (pre, s) in context_shapes() {
        if s.id.contains(":type14:") {
            continue;
        }
        let mut insts = ctx.clone();
        if s.inst.name() == "Switch" {
            insts.extend(pre.clone()); // selector definitions at module scope (OpUndef) ...
            let copy_in_block: Vec<Inst> = insts.iter().filter(|i| i.name() == "CopyObject").cloned().collect();
            insts.retain(|i| i.name() != "CopyObject");
            insts.push(rep_inst("Function", 1));
            insts.push(rep_inst("Label", 2));
            insts.extend(copy_in_block); // ... copies inside the block
            insts.push(s.inst.clone());
            insts.push(rep_inst("FunctionEnd", 4));
        } else {
            insts.push(s.inst.clone());
        }
        out.push(Case { id: format!("{}:typed", s.id), insts, raw: None, version: 0x0001_0600, bound: 77 });
    }
    // (c) garbage after the NUL of every string length
    for len in 0..=9usize {
        let s: String = "ABCDEFGHIJ"[..len].to_string();
        let i = Inst::new("Name", None, None, vec![Arg::IdRef(3), Arg::Str(s.clone())]);
        let mut raw = enc(&i);
        let pad = 4 - (len % 4) - 1; // bytes after the NUL in the last word
        if pad > 0 {
            let last = raw.len() - 1;
            raw[last] |= 0xFFFF_FFFFu32 << (8 * (4 - pad));
            out.push(Case { id: format!("Name:garbage-after-nul:len{}", len), insts: vec![i.clone()], raw: Some(raw), version: 0x0001_0000, bound: 9 });
        }
        // OpSource with file id and a string, then an optional string present
        let src = Inst::new("Source", None, None, vec![Arg::Enum("SourceLanguage", 2), Arg::Lit32(450), Arg::IdRef(3), Arg::Str(s)]);
        out.push(Case { id: format!("Source:string:len{}", len), insts: vec![src], raw: None, version: 0x0001_0000, bound: 9 });
    }
    // header variations
    for (v, b) in [(0u32, 0u32), (0x00FF_FF00, 1), (0x0001_0600, u32::MAX), (0xFFFF_FFFF, 0x8000_0000), (0x0001_0000, 5), (0x0001_0300, 0x0723_0203)] {
        out.push(Case { id: format!("Capability:header:{:x}:{}", v, b), insts: vec![Inst::new("Capability", None, None, vec![Arg::Enum("Capability", 1)])], raw: None, version: v, bound: b });
        // the bound is carried over as it is, whatever ids the module defines (smaller, equal, larger than the bound)
        let defs = vec![Inst::new("TypeVoid", None, Some(7), vec![]), Inst::new("TypeBool", None, Some(0xFFFF_FFF0), vec![])];
        out.push(Case { id: format!("TypeVoid:header-with-ids:{:x}:{}", v, b), insts: defs, raw: None, version: v, bound: b });
        // and an empty module (header only)
        out.push(Case { id: format!("Nop:header-only:{:x}:{}", v, b), insts: vec![], raw: None, version: v, bound: b });
    }
    out
}

#[allow(dead_code)]
fn seq_cases(len: usize) -> Vec<Vec<u8>> {
    let mut out = vec![vec![]];
    let mut layer: Vec<Vec<u8>> = vec![vec![]];
    for _ in 0..len {
        let mut next = Vec::with_capacity(layer.len() * SYMBOLS.len());
        for s in &layer {
            for k in 0..SYMBOLS.len() as u8 {
                let mut t = s.clone();
                t.push(k);
                next.push(t);
            }
        }
        out.extend(next.iter().cloned());
        layer = next;
    }
    out
}

/// (e) multi-function modules: 2..3 functions, each with 0..1 parameters and 1..2 blocks, module-level instructions in between
fn multi_function_cases() -> Vec<Case> {
    let mut out = vec![];
    let mut step = 10usize;
    let mut next = |n: &str| {
        step += 1;
        rep_inst(n, step)
    };
    let between = ["", "Capability", "Name", "TypeVoid", "Decorate", "Variable", "Line"];
    for nf in 2..=3usize {
        for params in 0..=1usize {
            for blocks in 1..=2usize {
                for body in ["", "IAdd", "Undef", "Line"] {
                    for term in ["Return", "Branch", "Kill"] {
                        for bt in between {
                            let mut insts = vec![next("Capability"), next("MemoryModel")];
                            for fi in 0..nf {
                                insts.push(next("Function"));
                                for _ in 0..params {
                                    insts.push(next("FunctionParameter"));
                                }
                                for _ in 0..blocks {
                                    insts.push(next("Label"));
                                    if !body.is_empty() {
                                        insts.push(next(body));
                                    }
                                    insts.push(next(term));
                                }
                                insts.push(next("FunctionEnd"));
                                if !bt.is_empty() && fi + 1 < nf {
                                    insts.push(next(bt));
                                }
                            }
                            out.push(Case { id: format!("Function:multi:{}f{}p{}b:{}:{}:{}", nf, params, blocks, body, term, bt), insts, raw: None, version: 0x0001_0500, bound: 4000 });
                        }
                    }
                }
            }
        }
    }
    out
}

/// canonical form of one raw word for the grammar-free comparison: inside a word, every byte after a NUL byte is
/// cleared ("only bytes after a string's NUL terminator may differ"; applied to both sides, so equal words stay equal)
fn canon_word(w: u32) -> u32 {
    let b = w.to_le_bytes();
    match b.iter().position(|&x| x == 0) {
        Some(p) => {
            let mut c = [0u8; 4];
            c[..p].copy_from_slice(&b[..p]);
            u32::from_le_bytes(c)
        }
        None => w,
    }
}

/// frames a word stream by its word counts; None if the framing is broken
fn frame_raw(ws: &[u32]) -> Option<Vec<Vec<u32>>> {
    let mut out = vec![];
    let mut i = 0;
    while i < ws.len() {
        let n = (ws[i] >> 16) as usize;
        if n == 0 || i + n > ws.len() {
            return None;
        }
        out.push(ws[i..i + n].iter().map(|&w| canon_word(w)).collect());
        i += n;
    }
    Some(out)
}

/// Grammar-free oracle for ANY byte string the loader accepts (corrupted binaries included): the assembled output
/// carries the input's version and bound, and its instructions are exactly the input's instructions as a multiset
/// (same opcode, same word count, same words up to bytes after a NUL inside a word); in the same order when the loaded
/// module is reloaded; reloading gives an equal module. Returns (violation, label, accepted).
pub fn raw_check(id: &str, what: &str, bytes: &[u8]) -> (Option<Viol>, String, bool) {
    let rep = json!({"kind": "bytes", "bytes": hex(bytes), "seed": id, "corruption": what});
    // root-cause class of the key: the seed family where it names one, else the corruption kind
    let class = if id.contains("typed-by-a-function-local-value") { "typed-by-a-function-local-value".to_string() } else { what.split(|c| c == ':' || c == '@').next().unwrap_or("").to_string() };
    let loaded = match guarded(|| dr::load_bytes(bytes)) {
        Err(p) => return (Some(viol(format!("C01:panic@{}", crate::report::panic_class(&p)), format!("{} {}: load_bytes panics: {}", id, what, p), rep)), "panic".into(), false),
        Ok(Err(_)) => return (None, "not-loadable".into(), false),
        Ok(Ok(m)) => m,
    };
    let input: Vec<u32> = bytes.chunks_exact(4).map(|c| u32::from_le_bytes([c[0], c[1], c[2], c[3]])).collect();
    let g = golden();
    let opc = |n: &str| g.opcode(n) as u32;
    let body = &input[5..];
    let Some(fin) = frame_raw(body) else {
        return (Some(viol(format!("C01:raw:accepted-misframed:{}", class), format!("{} {}: the loader accepted a binary whose word counts do not frame it", id, what), rep)), "misframed".into(), true);
    };
    // the two excluded classes, decided on the raw stream
    if fin.iter().filter(|i| i[0] & 0xFFFF == opc("MemoryModel")).count() > 1 {
        return (None, "excluded:second-memory-model".into(), true);
    }
    let (mut in_f, mut in_b) = (false, false);
    for i in &fin {
        let o = i[0] & 0xFFFF;
        if o == opc("Function") {
            in_f = true;
        } else if o == opc("FunctionEnd") {
            in_f = false;
            in_b = false;
        } else if o == opc("Label") {
            in_b = true;
        } else if g.lookup(o as u16).map_or(false, |gi| g.in_class("terminator", &gi.name)) {
            in_b = false;
        } else if (o == opc("Line") || o == opc("NoLine")) && in_f && !in_b {
            return (None, "excluded:line-outside-block".into(), true);
        }
    }
    let out = match guarded(|| loaded.assemble()) {
        Err(p) => return (Some(viol(format!("C01:panic@{}", crate::report::panic_class(&p)), format!("{} {}: assemble panics: {}", id, what, p), rep)), "panic".into(), true),
        Ok(o) => o,
    };
    if out.len() < 5 || out[0] != g.magic || out[1] != (input[1] & 0x00FF_FF00) || out[3] != input[3] {
        return (Some(viol(format!("C01:raw:header:{}", class), format!("{} {}: output header {:x?}, input header {:x?}", id, what, &out[..out.len().min(5)], &input[..5]), rep)), "roundtrip".into(), true);
    }
    let Some(fout) = frame_raw(&out[5..]) else {
        return (Some(viol(format!("C01:raw:output-misframed:{}", class), format!("{} {}: the assembled output is not framed by its word counts", id, what), rep)), "roundtrip".into(), true);
    };
    let (mut a, mut b) = (fin.clone(), fout.clone());
    a.sort();
    b.sort();
    if a != b {
        let kind = if b.len() < a.len() { "dropped" } else if b.len() > a.len() { "duplicated-or-invented" } else { "words-differ" };
        let diff: Vec<&Vec<u32>> = a.iter().filter(|x| !b.contains(x)).take(2).collect();
        return (Some(viol(format!("C01:raw:{}:{}", kind, class), format!("{} {}: the assembled instructions are not the input's ({} in, {} out); input instructions without a counterpart: {:x?}", id, what, a.len(), b.len(), diff), rep)), "roundtrip".into(), true);
    }
    match guarded(|| dr::load_words(&out)) {
        Err(p) => return (Some(viol(format!("C01:panic@{}", crate::report::panic_class(&p)), format!("{} {}: reloading the output panics: {}", id, what, p), rep)), "panic".into(), true),
        Ok(Err(e)) => return (Some(viol(format!("C01:raw:reload-fails:{}", class), format!("{} {}: the assembled output does not load: {}", id, what, crate::util::state_name(&e)), rep)), "roundtrip".into(), true),
        Ok(Ok(m2)) => {
            if snap(&m2) != snap(&loaded) {
                return (Some(viol(format!("C01:raw:reload-differs:{}", class), format!("{} {}: reloaded module {} differs from the first {}", id, what, snap(&m2).brief(), snap(&loaded).brief()), rep)), "roundtrip".into(), true);
            }
            // an output is in layout order: assembling the reloaded module gives the same words
            let out2 = m2.assemble();
            if out2 != out {
                return (Some(viol(format!("C01:raw:not-identical:{}", class), format!("{} {}: the output, itself in layout order, does not come back word-identical", id, what), rep)), "roundtrip".into(), true);
            }
        }
    }
    (None, "roundtrip".into(), true)
}

pub fn run(tier: Tier) -> Run {
    let mut run = Run::new("C01", tier, "exploration");
    // ---- every corrupted binary of the C03 universe the loader still accepts, against the grammar-free oracle
    // (where the reference acceptor accepts the binary as well, the full oracle - layout-sorted reference re-encoding,
    //  word-identical for layout-ordered input - is applied in addition to the grammar-free one)
    let sw = crate::checks::c03::sweep(tier, &|id, m| {
        let (mut v, label, acc) = raw_check(id, &m.what, &m.bytes);
        // every unmodified seed once more from a byte slice that starts 1 / 2 / 3 bytes off a word boundary (load_bytes takes
        // any &[u8]): the same words must come back
        if v.is_none() && m.what.starts_with("k0") {
            let off = 1 + m.bytes.len() % 3;
            let mut store = vec![0u8; m.bytes.len() + 8];
            let start = (4 - store.as_ptr() as usize % 4) % 4 + off;
            store[start..start + m.bytes.len()].copy_from_slice(&m.bytes);
            let (v2, label2, _) = raw_check(id, "misaligned-slice", &store[start..start + m.bytes.len()]);
            if v2.is_some() {
                v = v2;
            } else if label2 != label {
                v = Some(viol("C01:raw:misaligned-slice", format!("seed {}: loaded from a slice {} byte(s) off a word boundary the binary is {}, from an aligned one {}", id, off, label2, label), json!({"kind": "bytes", "bytes": hex(&m.bytes), "misaligned": off})));
            }
        }
        if v.is_none() && acc {
            if let crate::acceptor::Verdict::Accept { version, bound, insts } = crate::acceptor::accept(&m.bytes) {
                if m.bytes.len() % 4 == 0 {
                    let (vs, _) = check_case(&Case { id: format!("{}:{}:universe", id.split(':').next().unwrap_or(id), m.what.split(|c| c == ':' || c == '@').next().unwrap_or("")), insts, raw: Some(m.bytes[20..].chunks(4).map(|c| u32::from_le_bytes([c[0], c[1], c[2], c[3]])).collect()), version, bound });
                    if let Some(x) = vs.into_iter().next() {
                        return (Some(x), label, acc);
                    }
                }
            }
        }
        (v, label, acc)
    });
    for v in sw.viols.iter().cloned() {
        run.add(v);
    }
    for (o, c) in &sw.outcomes {
        run.outcome(&format!("raw:{}", o), *c);
    }
    // ---- every ordered pair of opcodes (minimal shapes) as neighbours inside a block and at module level, against the
    //      same grammar-free oracle: nothing may be dropped, duplicated or invented because of what stands next to it
    {
        let g = golden();
        let mins: Vec<(String, Vec<u32>, Vec<u32>)> = g
            .insts
            .iter()
            .map(|gi| {
                let mut a = universe::minimal(gi);
                let mut b = a.clone();
                if a.rid.is_some() {
                    a.rid = Some(900);
                    b.rid = Some(901);
                }
                (gi.name.clone(), enc(&a), enc(&b))
            })
            .collect();
        let hdr = model::header(0x0001_0500, 0, 2000);
        let pre: Vec<u32> = [rep_inst("Function", 1), rep_inst("Label", 2)].iter().flat_map(enc).collect();
        let post: Vec<u32> = [rep_inst("Return", 3), rep_inst("FunctionEnd", 4)].iter().flat_map(enc).collect();
        let res: Vec<(u64, u64, Vec<Viol>)> = mins
            .par_iter()
            .map(|(xn, xw, _)| {
                let mut v: Vec<Viol> = vec![];
                let (mut n, mut acc) = (0u64, 0u64);
                for (yn, _, yw) in &mins {
                    for in_block in [true, false] {
                        let mut w = hdr.clone();
                        if in_block {
                            w.extend(&pre);
                        }
                        w.extend(xw);
                        w.extend(yw);
                        if in_block {
                            w.extend(&post);
                        }
                        n += 1;
                        let (viol, _label, a) = raw_check(&format!("{}:then", xn), &format!("pair:{}:{}", yn, if in_block { "block" } else { "module" }), &model::words_to_bytes(&w));
                        if a {
                            acc += 1;
                        }
                        if let Some(x) = viol {
                            if v.len() < 3 {
                                v.push(x);
                            }
                        }
                    }
                }
                (n, acc, v)
            })
            .collect();
        let (mut n, mut acc) = (0u64, 0u64);
        for (k, a, v) in res {
            n += k;
            acc += a;
            run.add_all(v);
        }
        run.outcome("raw:adjacent_opcode_pairs", n);
        run.outcome("raw:adjacent_opcode_pairs_loaded", acc);
    }
    let mut cs = cases(tier);
    cs.extend(multi_function_cases());
    let res: Vec<(Vec<Viol>, &'static str)> = cs.par_iter().map(check_case).collect();
    let mut n = 0u64;
    let mut loaded = 0u64;
    for (v, o) in res {
        n += 1;
        if o == "roundtrip" {
            loaded += 1;
        }
        run.add_all(v);
        run.outcome(o, 1);
    }
    // ---- independence: loading / assembling / disassembling A first must not change what B gives afterwards
    //      (state left behind by an earlier load: caches, statics, thread-locals)
    {
        use rspirv::binary::Disassemble;
        let picks: Vec<&Case> = cs.iter().step_by(cs.len() / 90 + 1).collect();
        let observe = |c: &Case| -> String {
            let mut words = model::header(c.version, 0x0007_0001, c.bound);
            match &c.raw {
                Some(r) => words.extend(r),
                None => {
                    for i in &c.insts {
                        words.extend(enc(i));
                    }
                }
            }
            match guarded(|| dr::load_words(&words).map(|m| (m.assemble(), m.disassemble()))) {
                Ok(Ok((a, d))) => format!("{:?}|{}", a, d),
                Ok(Err(e)) => format!("err {}", e),
                Err(p) => format!("panic {}", p),
            }
        };
        let alone: Vec<String> = picks.iter().map(|c| observe(c)).collect();
        let res: Vec<Option<Viol>> = picks
            .par_iter()
            .map(|a| {
                for (j, b) in picks.iter().enumerate() {
                    let _ = observe(a);
                    let after = observe(b);
                    if after != alone[j] {
                        return Some(viol("C01:independence", format!("loading case {} gives a different result after loading case {} first", b.id, a.id), json!({"kind": "c01-pair", "first": a.id, "second": b.id})));
                    }
                }
                None
            })
            .collect();
        run.add_all(res.into_iter().flatten());
        run.outcome("independence_pairs", (picks.len() * picks.len()) as u64);
        // dense large modules (K declarations %1..%K, ids dense below the bound, more words than ids): loaded and
        // assembled back word for word
        let ks: Vec<u32> = if tier == Tier::Thorough { vec![65_535, 65_536, 70_000, 100_001, 131_072, 300_000, 1_100_000] } else { vec![65_535, 65_536, 100_001, 131_072, 300_000] };
        let res: Vec<Option<Viol>> = ks
            .par_iter()
            .map(|&k| {
                let bytes = crate::model::words_to_bytes(&crate::universe::dense_module(k));
                let (v, o, _) = raw_check("dense-large-module", &format!("dense:{}", k), &bytes);
                match v {
                    Some(mut v) => {
                        v.replay = json!({"kind": "c01-dense", "types": k});
                        Some(v)
                    }
                    None if o == "not-loadable" => Some(viol("C01:dense:not-loaded", format!("a well-formed module of {} dense type declarations is not loaded", k), json!({"kind": "c01-dense", "types": k}))),
                    None => None,
                }
            })
            .collect();
        // the typed-literal contexts that leave a function open, completed into loadable modules (the target, a terminator
        // if it is none, OpFunctionEnd): types and values declared inside earlier functions, chains, re-declarations ..
        {
            let ctxs = crate::checks::c03::context_variants();
            let res: Vec<Option<Viol>> = ctxs
                .par_iter()
                .map(|(pre, sh)| {
                    let opened = pre.iter().filter(|i| i.name() == "Function").count();
                    let closed = pre.iter().filter(|i| i.name() == "FunctionEnd").count();
                    if opened == closed {
                        return None;
                    }
                    let mut w = crate::model::header(0x0001_0300, 0, 0xFFFF_FFFF);
                    for i in pre {
                        w.extend(crate::model::enc(i));
                    }
                    if !pre.last().map_or(false, |i| i.name() == "Label" || !matches!(i.name().as_str(), "Function" | "FunctionParameter")) {
                        w.extend(crate::model::enc(&crate::model::Inst::new("Label", None, Some(0x7FFF_0001), vec![])));
                    }
                    w.extend(crate::model::enc(&sh.inst));
                    if sh.inst.name() != "Switch" {
                        w.extend(crate::model::enc(&crate::model::Inst::new("Return", None, None, vec![])));
                    }
                    w.extend(crate::model::enc(&crate::model::Inst::new("FunctionEnd", None, None, vec![])));
                    raw_check(&sh.id, "closed-context", &crate::model::words_to_bytes(&w)).0
                })
                .collect();
            let mut n = 0u64;
            for v in res {
                n += 1;
                if let Some(v) = v {
                    run.add(v);
                }
            }
            run.outcome("closed_contexts", n);
        }
        run.outcome("dense_large_modules", ks.len() as u64);
        // many functions: N = 2..=40, 64, 100, 300 functions with distinct ids, all with a body except ONE body-less
        // declaration at the front / in the middle / at the end (and none): every function comes back where it was
        {
            use crate::model::{enc, header, Arg, Inst};
            let mut work: Vec<(usize, Option<usize>)> = vec![];
            for n in (2..=40usize).chain([64, 100, 300]) {
                for d in [None, Some(0), Some(n / 2), Some(n - 1), Some(1)] {
                    work.push((n, d));
                }
            }
            let res: Vec<Option<Viol>> = work
                .par_iter()
                .map(|&(n, decl)| {
                    let mut w = header(0x0001_0300, 0, 10_000);
                    w.extend(enc(&Inst::new("TypeVoid", None, Some(1), vec![])));
                    w.extend(enc(&Inst::new("TypeFunction", None, Some(2), vec![Arg::IdRef(1)])));
                    for k in 0..n {
                        let fid = 100 + 10 * k as u32;
                        w.extend(enc(&Inst::new("Function", Some(1), Some(fid), vec![Arg::Mask("FunctionControl", (k % 4) as u32), Arg::IdRef(2)])));
                        if decl != Some(k) {
                            w.extend(enc(&Inst::new("Label", None, Some(fid + 1), vec![])));
                            w.extend(enc(&Inst::new("Return", None, None, vec![])));
                        }
                        w.extend(enc(&Inst::new("FunctionEnd", None, None, vec![])));
                    }
                    let bytes = crate::model::words_to_bytes(&w);
                    let (v, o, _) = raw_check("many-functions", &format!("functions:{}:declaration-at-{:?}", n, decl), &bytes);
                    match v {
                        Some(v) => Some(v),
                        None if o == "not-loadable" => Some(viol("C01:many-functions:not-loaded", format!("a module of {} functions (body-less declaration at {:?}) is not loaded", n, decl), json!({"kind": "bytes", "bytes": hex(&bytes)}))),
                        None => {
                            // the input is in layout order: it comes back word for word (functions in the order they stood in)
                            let out = guarded(|| dr::load_words(&w).map(|m| m.assemble())).ok().and_then(|r| r.ok()).unwrap_or_default();
                            if out.len() != w.len() || out[5..] != w[5..] {
                                let at = out.iter().zip(w.iter()).skip(5).position(|(a, b)| a != b).map(|p| p + 5);
                                Some(viol("C01:many-functions:order", format!("a module of {} functions in layout order (body-less declaration at {:?}) does not come back word for word: first difference at word {:?}", n, decl, at), json!({"kind": "bytes", "bytes": hex(&bytes)})))
                            } else {
                                None
                            }
                        }
                    }
                })
                .collect();
            run.outcome("many_function_modules", work.len() as u64);
            for v in res.into_iter().flatten() {
                run.add(v);
            }
        }
        for v in res.into_iter().flatten() {
            run.add(v);
        }
    }
    // U-seq: streamed, parallel over the first two symbols
    let l = tier.pick(5, 6);
    let ns = SYMBOLS.len() as u8;
    let mut prefixes: Vec<Vec<u8>> = vec![vec![]];
    for a in 0..ns {
        prefixes.push(vec![a]);
        for b in 0..ns {
            prefixes.push(vec![a, b]);
        }
    }
    let res: Vec<(Vec<Viol>, BTreeMap<&'static str, u64>)> = prefixes
        .par_iter()
        .map(|p| {
            let mut viols: Vec<Viol> = vec![];
            let mut oc: BTreeMap<&'static str, u64> = BTreeMap::new();
            // prefixes shorter than 2 stand for themselves only; length-2 prefixes are extended to every longer word
            let mut stack: Vec<Vec<u8>> = vec![p.clone()];
            while let Some(s) = stack.pop() {
                let insts: Vec<Inst> = s.iter().enumerate().map(|(i, &k)| rep_inst(SYMBOLS[k as usize], i)).collect();
                let id = format!("{}:seq", insts.iter().map(|i| i.name()).collect::<Vec<_>>().join(","));
                // the same sequence with every id renamed so that ids DESCEND along the stream, and with all ids equal
                // (where an instruction ends up must not depend on the magnitude or order of ids)
                if s.len() <= 4 {
                    for (tag, f) in [("desc", (&|x: u32| 6000 - x) as &dyn Fn(u32) -> u32), ("same", &|_| 7)] {
                        let renamed: Vec<Inst> = insts.iter().map(|i| model::remap_ids(i, f)).collect();
                        let (v2, _) = check_case(&Case { id: format!("{}:{}", id, tag), insts: renamed, raw: None, version: 0x0001_0000, bound: 7000 });
                        for x in v2 {
                            if viols.len() < 20 && !viols.iter().any(|y| y.key == x.key) {
                                viols.push(x);
                            }
                        }
                    }
                }
                let (v, o) = check_case(&Case { id, insts, raw: None, version: 0x0001_0000, bound: 1000 });
                for x in v {
                    if viols.len() < 20 && !viols.iter().any(|y| y.key == x.key) {
                        viols.push(x);
                    }
                }
                *oc.entry(o).or_insert(0) += 1;
                if s.len() >= 2 && s.len() < l {
                    for k in 0..ns {
                        let mut t = s.clone();
                        t.push(k);
                        stack.push(t);
                    }
                }
            }
            (viols, oc)
        })
        .collect();
    for (v, oc) in res {
        run.add_all(v);
        for (o, c) in oc {
            n += c;
            if o == "roundtrip" {
                loaded += c;
            }
            run.outcome(&format!("seq:{}", o), c);
        }
    }
    run.set("evaluations", json!(n + sw.evaluations));
    run.set("distinct_nontrivial", json!(loaded + sw.accepted));
    run.set("rule", json!("(a) every U-inst shape of every opcode embedded in the smallest loadable module for its class (module-level classes also out of layout order, after the function); (b) every word over the 21-class alphabet up to length L in ANY order; (c) strings of every length with garbage after the NUL; (d) literals of every width behind their types, switches through selector chains; (e) 2-3 function modules with parameters, 1-2 blocks, each terminator, module-level instructions between functions. (f) every binary of the C03 corruption universe that the loader still accepts, against the grammar-free oracle (same header fields, same multiset of raw instructions up to bytes after a NUL, reload equal, second assembly identical). Loaded -> assembled must equal header(version, bound) ++ reference re-encoding in layout-sorted order; reloading must give an equal module. non-trivial = inputs the loader accepted and that went through the whole round trip (all distinct by construction)"));
    run.set("exhaustive", json!(true));
    run.set("bounds", json!({"structured_cases": cs.len(), "sequence_length": l, "sequence_alphabet": SYMBOLS.len()}));
    run.set("excluded", json!({"line_outside_block": run.outcomes.get("excluded:line-outside-block").copied().unwrap_or(0) + run.outcomes.get("seq:excluded:line-outside-block").copied().unwrap_or(0), "second_memory_model": run.outcomes.get("seq:excluded:second-memory-model").copied().unwrap_or(0)}));
    run.set("samples", json!(cs.iter().step_by(cs.len() / 6 + 1).map(|c| json!({"case": c.id, "instructions": c.insts.iter().map(|i| i.short()).collect::<Vec<_>>()})).collect::<Vec<_>>()));
    run.assume("layout sorter = the A.4 module model (golden class table); the parser's instruction models are C02/C03's business and taken as given here");
    run.require_outcome("roundtrip");
    run.require_outcome("raw:roundtrip");
    run.require_outcome("raw:not-loadable");
    run.require_outcome("seq:roundtrip");
    run.require_outcome("seq:not-loadable");
    run.require_outcome("seq:excluded:line-outside-block");
    run.require_outcome("seq:excluded:second-memory-model");
    run
}
