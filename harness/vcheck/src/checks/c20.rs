//! C20 — rspirv-dis prints the library disassembly or an error and never crashes (shapes B + process driver).
//! The REAL binary built from /repo's working tree is run on every file of the universe, 16 at a time.
use crate::checks::c03;
use crate::model::{self, enc, Arg, Inst};
use crate::mutate::{self, Level};
use crate::report::{guarded, hex, verif_root, viol, Run, Tier, Viol};
use rayon::prelude::*;
use rspirv::binary::Disassemble;
use serde_json::json;
use std::path::PathBuf;
use std::process::Command;

fn dis_binary() -> Option<PathBuf> {
    if let Ok(p) = std::env::var("RSPIRV_DIS") {
        return Some(PathBuf::from(p));
    }
    let p = PathBuf::from("/repo/target/release/rspirv-dis");
    if p.exists() {
        Some(p)
    } else {
        None
    }
}

fn valid_module() -> Vec<u8> {
    let mut w = model::header(0x0001_0300, 0, 50);
    let insts = vec![
        Inst::new("Capability", None, None, vec![Arg::Enum("Capability", 1)]),
        Inst::new("ExtInstImport", None, Some(1), vec![Arg::Str("GLSL.std.450".into())]),
        Inst::new("MemoryModel", None, None, vec![Arg::Enum("AddressingModel", 0), Arg::Enum("MemoryModel", 1)]),
        Inst::new("Name", None, None, vec![Arg::IdRef(5), Arg::Str("main\n\"q\"".into())]),
        Inst::new("TypeVoid", None, Some(2), vec![]),
        Inst::new("TypeInt", None, Some(3), vec![Arg::Lit32(64), Arg::Lit32(1)]),
        Inst::new("Constant", Some(3), Some(4), vec![Arg::Lit64(0xFFFF_FFFF_FFFF_FFFE)]),
        Inst::new("TypeFunction", None, Some(6), vec![Arg::IdRef(2)]),
        Inst::new("Function", Some(2), Some(5), vec![Arg::Mask("FunctionControl", 0), Arg::IdRef(6)]),
        Inst::new("Label", None, Some(7), vec![]),
        Inst::new("ExtInst", Some(3), Some(8), vec![Arg::IdRef(1), Arg::ExtInstNo(6), Arg::IdRef(4)]),
        Inst::new("Return", None, None, vec![]),
        Inst::new("FunctionEnd", None, None, vec![]),
    ];
    for i in &insts {
        w.extend(enc(i));
    }
    model::words_to_bytes(&w)
}

fn files(tier: Tier) -> Vec<(String, Vec<u8>)> {
    let mut out: Vec<(String, Vec<u8>)> = vec![("empty".into(), vec![])];
    let v = valid_module();
    for n in 0..=v.len() {
        out.push((format!("valid-prefix-{}", n), v[..n].to_vec()));
    }
    let target = tier.pick(6_000usize, 400_000usize);
    let seeds = c03::seeds(tier);
    // count, then stride
    let total: usize = seeds.iter().map(|(s, _)| s.target_wc * 12 + 40).sum();
    let stride = (total / target).max(1);
    let mut k = 0usize;
    for (s, lvl) in &seeds {
        for m in mutate::mutants(s, if *lvl == Level::Scale { Level::Scale } else { Level::Full }) {
            k += 1;
            if k % stride == 0 || m.what.starts_with("k0") {
                out.push((format!("{}|{}", s.id, m.what), m.bytes));
            }
        }
    }
    // structural sequences: every word over the 21-class alphabet up to length L (any order)
    {
        use crate::checks::c05::{rep_inst, SYMBOLS};
        let l = tier.pick(3, 4);
        let mut layer: Vec<Vec<u8>> = vec![vec![]];
        for _ in 0..l {
            let mut next = vec![];
            for s in &layer {
                for k in 0..SYMBOLS.len() as u8 {
                    let mut t = s.clone();
                    t.push(k);
                    next.push(t);
                }
            }
            for s in &next {
                let mut w = model::header(0x0001_0000, 0, 1000);
                for (i, &k) in s.iter().enumerate() {
                    w.extend(enc(&rep_inst(SYMBOLS[k as usize], i)));
                }
                out.push((format!("seq{:?}", s.iter().map(|&k| SYMBOLS[k as usize]).collect::<Vec<_>>()), model::words_to_bytes(&w)));
            }
            layer = next;
        }
    }
    let halpha = mutate::hostile_alphabet();
    for &a in &halpha {
        mutate::hostile_each(&[a], 2, true, &mut |m| out.push((m.what.clone(), m.bytes.clone())));
    }
    // a string whose NUL lies in a trailing partial word (file length not a multiple of 4), with valid, invalid and
    // incomplete UTF-8 in front of it, as the last operand of OpString / OpName / OpSource
    for (tn, body) in [("valid", &b"ab"[..]), ("invalid", &[0x61, 0xFF][..]), ("incomplete", &[0x61, 0xC3][..]), ("invalid-long", &[0x61, 0x62, 0x63, 0x64, 0xFF][..]), ("empty", &[][..])] {
        for (on, head) in [("String", vec![(0u32 << 16) | 7, 1]), ("Name", vec![5, 1]), ("Source", vec![3, 2, 450, 1])] {
            for tail in 1..=3usize {
                if body.len() % 4 + 1 > tail {
                    continue;
                }
                let mut w = model::header(0x0001_0300, 0, 50);
                let total_words = head.len() + body.len() / 4 + 1;
                let mut first = head.clone();
                first[0] = ((total_words as u32) << 16) | first[0];
                w.extend(first);
                let mut b = model::words_to_bytes(&w);
                b.extend(body);
                b.push(0);
                while b.len() % 4 != tail % 4 {
                    b.push(0);
                }
                out.push((format!("string-tail:{}:{}:{}", on, tn, tail), b));
            }
        }
    }
    // every 16-bit pattern (x three high halves) as a constant of an 8-/16-bit integer or 16-bit float type
    for (tn, ty) in [
        ("i8", Inst::new("TypeInt", None, Some(1), vec![Arg::Lit32(8), Arg::Lit32(1)])),
        ("i16", Inst::new("TypeInt", None, Some(1), vec![Arg::Lit32(16), Arg::Lit32(1)])),
        ("u16", Inst::new("TypeInt", None, Some(1), vec![Arg::Lit32(16), Arg::Lit32(0)])),
        ("f16", Inst::new("TypeFloat", None, Some(1), vec![Arg::Lit32(16)])),
    ] {
        for hi in [0u32, 0xFFFF, 0x0001] {
            let mut w = model::header(0x0001_0300, 0, 50);
            w.extend(enc(&ty));
            let c = (4u32 << 16) | 43; // OpConstant, word count 4
            for lo in 0..=0xFFFFu32 {
                w.extend([c, 1, 2, (hi << 16) | lo]);
            }
            out.push((format!("narrow-constants:{}:{:#06x}", tn, hi), model::words_to_bytes(&w)));
        }
    }
    // short files: every length 0..=24 with the magic number, its byte-swapped form and foreign first words
    for first in [0x0723_0203u32, 0x0302_2307, 0, 0xFFFF_FFFF, 0x5249_5053, 0x0723_0204] {
        for len in 0..=24usize {
            let mut b: Vec<u8> = first.to_le_bytes().to_vec();
            b.extend((4..24u8).map(|i| if i % 4 == 1 { 1 } else { 0 }));
            b.truncate(len);
            out.push((format!("short:{:#010x}:{}", first, len), b));
        }
    }
    // output sizes: a last line (and a whole text) on both sides of every buffer size a writer could have
    for n in [1usize, 500, 1000, 1020, 1023, 1024, 1025, 2048, 4095, 4096, 4097, 8191, 8192, 8193, 65535, 65536, 70000, 262_000] {
        let long: String = (0..n).map(|i| (b'a' + (i % 26) as u8) as char).collect();
        for (what, inst) in [
            ("string", Inst::new("String", None, Some(1), vec![Arg::Str(long.clone())])),
            ("struct", Inst::new("TypeStruct", None, Some(1), (0..(n / 4).min(65000) as u32).map(|k| Arg::IdRef(2 + k)).collect())),
        ] {
            let mut w = model::header(0x0001_0300, 0, 50);
            w.extend(enc(&Inst::new("Capability", None, None, vec![Arg::Enum("Capability", 1)])));
            w.extend(enc(&inst));
            out.push((format!("long-last-line:{}:{}", what, n), model::words_to_bytes(&w)));
            // the same module cut inside that instruction: a long error path is one line too
            let b = model::words_to_bytes(&w);
            out.push((format!("long-last-line-cut:{}:{}", what, n), b[..b.len() - 3].to_vec()));
        }
    }
    // long outputs of multi-byte characters, shifted by 0..3 bytes, so that characters straddle every 1 KiB / 4 KiB /
    // 64 KiB mark of the output at every phase
    for (cn, ch, count) in [("2byte", "é", 40_000usize), ("3byte", "€", 30_000), ("4byte", "😀", 20_000)] {
        for pad in 0..4usize {
            let text: String = "a".repeat(pad) + &ch.repeat(count);
            let mut w = model::header(0x0001_0300, 0, 50);
            for k in 0..3u32 {
                w.extend(enc(&Inst::new("String", None, Some(1 + k), vec![Arg::Str(text.clone())])));
            }
            out.push((format!("wide-output:{}:pad{}", cn, pad), model::words_to_bytes(&w)));
        }
    }
    // files that are not SPIR-V at all but something a user may pass by mistake: the tool's own listing, other file
    // formats' magic numbers, scripts, empty lines (the expected output is whatever the library says about those bytes)
    {
        let listing = {
            let w: Vec<u32> = v.chunks(4).map(|c| u32::from_le_bytes([c[0], c[1], c[2], c[3]])).collect();
            rspirv::dr::load_words(&w).map(|m| m.disassemble()).unwrap_or_default()
        };
        let texts: Vec<(&str, Vec<u8>)> = vec![
            ("own-listing", listing.clone().into_bytes()),
            ("own-listing-first-line", listing.lines().next().unwrap_or("").as_bytes().to_vec()),
            ("spirv-comment", b"; SPIR-V\n; Version: 1.3\n; Generator: rspirv\n; Bound: 10\n".to_vec()),
            ("spirv-comment-8", b"; SPIR-V".to_vec()),
            ("shebang", b"#!/bin/sh\nexit 0\n".to_vec()),
            ("elf", b"\x7fELF\x02\x01\x01\0\0\0\0\0\0\0\0\0\x03\0\x3e\0".to_vec()),
            ("png", b"\x89PNG\r\n\x1a\n\0\0\0\rIHDR".to_vec()),
            ("gzip", b"\x1f\x8b\x08\0\0\0\0\0\0\x03".to_vec()),
            ("zip", b"PK\x03\x04\x14\0\0\0\x08\0".to_vec()),
            ("json", b"{\"spirv\": true}\n".to_vec()),
            ("xml", b"<?xml version=\"1.0\"?>\n<a/>\n".to_vec()),
            ("utf16-bom", b"\xff\xfe;\0 \0S\0P\0".to_vec()),
            ("utf8-bom", b"\xef\xbb\xbf; SPIR-V\n".to_vec()),
            ("newlines", b"\n\n\n\n\n\n\n\n\n\n\n\n\n\n\n\n\n\n\n\n\n\n\n\n".to_vec()),
            ("glsl", b"#version 450\nvoid main() {}\n".to_vec()),
            ("llvm-bc", b"BC\xc0\xde\x35\x14\0\0\x05\0\0\0".to_vec()),
            ("dxbc", b"DXBC\0\0\0\0\0\0\0\0\0\0\0\0\0\0\0\0".to_vec()),
            ("wasm", b"\0asm\x01\0\0\0".to_vec()),
            ("spirv-text-op", b"OpCapability Shader\nOpMemoryModel Logical GLSL450\n".to_vec()),
        ];
        for (n, b) in texts {
            out.push((format!("foreign:{}", n), b));
        }
    }
    for (n, w) in crate::universe::deep_nesting_words() {
        out.push((n, model::words_to_bytes(&w)));
    }
    // id-relation sequences: values typed by values, rings of ids, declarations after use, followed by a consumer
    for (n, v) in crate::universe::id_relation_sequences(tier.pick(3, 4)) {
        let mut w = model::header(0x0001_0300, 0, 20);
        for i in &v {
            w.extend(enc(i));
        }
        out.push((format!("id-relations:{}", n), model::words_to_bytes(&w)));
    }
    for n in [100usize, 3000, 20000] {
        let mut w = model::header(0x0001_0300, 0, 50);
        for i in valid_function(n) {
            w.extend(enc(&i));
        }
        out.push((format!("many-lines:{}", n), model::words_to_bytes(&w)));
    }
    out
}

fn valid_function(nops: usize) -> Vec<Inst> {
    let mut v = vec![
        Inst::new("TypeVoid", None, Some(2), vec![]),
        Inst::new("TypeFunction", None, Some(6), vec![Arg::IdRef(2)]),
        Inst::new("Function", Some(2), Some(5), vec![Arg::Mask("FunctionControl", 0), Arg::IdRef(6)]),
        Inst::new("Label", None, Some(7), vec![]),
    ];
    for _ in 0..nops {
        v.push(Inst::new("Nop", None, None, vec![]));
    }
    v.push(Inst::new("Return", None, None, vec![]));
    v.push(Inst::new("FunctionEnd", None, None, vec![]));
    v
}

/// wall-clock horizon per file (the largest files of the universe take well under a second)
const HORIZON_SECS: u64 = 20;
static TIMEOUTS: std::sync::atomic::AtomicUsize = std::sync::atomic::AtomicUsize::new(0);

pub fn run(tier: Tier) -> Run {
    let mut run = Run::new("C20", tier, "fault_enumeration");
    let Some(bin) = dis_binary() else {
        run.machinery("rspirv-dis binary not found (bin/check builds it with `cargo build --release -p rspirv-dis` in /repo)");
        run.set("evaluations", json!(0));
        run.set("distinct_nontrivial", json!(0));
        run.set("rule", json!("n/a"));
        run.set("samples", json!(["n/a"]));
        return run;
    };
    let mut fs = files(tier);
    // ---- the WHOLE C03 corruption universe in-process first (one process per file is too slow for all of it): every
    //      file on which the library panics in-process is handed to the real tool as well, so that no panic the tool
    //      inherits from the parser or disassembler is lost to the striding
    {
        let found: std::sync::Mutex<Vec<(String, Vec<u8>)>> = std::sync::Mutex::new(vec![]);
        let sw = c03::sweep(tier, &|id, m| {
            let r = guarded(|| match rspirv::dr::load_bytes(&m.bytes) {
                Ok(md) => {
                    let _ = md.disassemble();
                    true
                }
                Err(e) => {
                    let _ = format!("{}", e);
                    false
                }
            });
            match r {
                Ok(a) => (None, if a { "in-process:disassembly".into() } else { "in-process:error".into() }, a),
                Err(_) => {
                    let mut f = found.lock().unwrap();
                    if f.len() < 64 {
                        f.push((format!("in-process-panic|{}|{}", id, m.what), m.bytes.clone()));
                    }
                    (None, "in-process:panic".into(), false)
                }
            }
        });
        for (o, c) in &sw.outcomes {
            run.outcome(o, *c);
        }
        run.set("in_process_prefilter", json!({"binaries": sw.evaluations, "handed_to_the_tool": found.lock().unwrap().len()}));
        fs.extend(found.into_inner().unwrap());
    }
    let dir = verif_root().join("harness").join("target").join("c20-files");
    let _ = std::fs::remove_dir_all(&dir);
    std::fs::create_dir_all(&dir).expect("scratch dir");
    let res: Vec<(Option<Viol>, &'static str)> = fs
        .par_iter()
        .enumerate()
        .map(|(idx, (what, bytes))| {
            let path = dir.join(format!("{}.spv", idx));
            std::fs::write(&path, bytes).expect("write input file");
            let rep = json!({"kind": "bytes", "bytes": hex(bytes), "file": what});
            // the tool must TERMINATE: it gets a wall-clock horizon (far beyond what the largest file needs), after which it
            // is killed and the file is reported. stdout / stderr go to files so that a full pipe can never block it.
            let (so, se) = (dir.join(format!("{}.out", idx)), dir.join(format!("{}.err", idx)));
            // the deep-nesting files are run under a 256 KiB stack (a thread of a host application has less than a main thread)
            let small_stack = what.starts_with("nested-spec-constant-op");
            let child = (|| -> std::io::Result<std::process::Child> {
                if small_stack {
                    Command::new("sh").arg("-c").arg("ulimit -s 256; exec \"$0\" \"$1\"").arg(&bin).arg(&path).stdout(std::fs::File::create(&so)?).stderr(std::fs::File::create(&se)?).spawn()
                } else {
                    Command::new(&bin).arg(&path).stdout(std::fs::File::create(&so)?).stderr(std::fs::File::create(&se)?).spawn()
                }
            })();
            let mut child = match child {
                Ok(c) => c,
                Err(e) => return (Some(viol("C20:spawn", format!("cannot run rspirv-dis: {}", e), rep)), "spawn-failed"),
            };
            let started = std::time::Instant::now();
            let status = loop {
                match child.try_wait() {
                    Ok(Some(st)) => break Some(st),
                    Ok(None) => {
                        // once several files have run into the horizon the remaining ones get a short one (the verdict is
                        // in; hundreds of further 20 s waits would add nothing)
                        let horizon = if TIMEOUTS.load(std::sync::atomic::Ordering::Relaxed) >= 4 { 2 } else { HORIZON_SECS };
                        if started.elapsed().as_secs() >= horizon {
                            TIMEOUTS.fetch_add(1, std::sync::atomic::Ordering::Relaxed);
                            let _ = child.kill();
                            let _ = child.wait();
                            break None;
                        }
                        std::thread::sleep(std::time::Duration::from_micros(if started.elapsed().as_millis() < 20 { 200 } else { 5_000 }));
                    }
                    Err(_) => break None,
                }
            };
            let out_bytes = std::fs::read(&so).unwrap_or_default();
            let err_bytes = std::fs::read(&se).unwrap_or_default();
            for f in [&path, &so, &se] {
                let _ = std::fs::remove_file(f);
            }
            let Some(status) = status else {
                return (Some(viol("C20:does-not-terminate", format!("file {}: rspirv-dis was still running after {} s (killed)", what, HORIZON_SECS), rep)), "timeout");
            };
            struct Out {
                status: std::process::ExitStatus,
                stdout: Vec<u8>,
                stderr: Vec<u8>,
            }
            let out = Out { status, stdout: out_bytes, stderr: err_bytes };
            let stdout = String::from_utf8_lossy(&out.stdout).to_string();
            let stderr = String::from_utf8_lossy(&out.stderr).to_string();
            if out.status.code() != Some(0) || stderr.contains("panicked") {
                let loc = stderr.lines().find(|l| l.contains("panicked")).unwrap_or("").to_string();
                let class = loc.split(" at ").nth(1).map(|x| x.split(':').next().unwrap_or("").to_string()).unwrap_or_default();
                return (
                    Some(viol(format!("C20:exit:{}", class.rsplit("/rspirv/").next().unwrap_or(&class)), format!("file {}: exit status {:?}, stderr: {}", what, out.status.code(), stderr.lines().take(3).collect::<Vec<_>>().join(" | ")), rep)),
                    "crash",
                );
            }
            // expected, computed in-process (only once the tool itself is known to have survived the file)
            let expected = guarded(|| match rspirv::dr::load_bytes(bytes) {
                Ok(m) => (true, format!("{}\n", m.disassemble())),
                Err(e) => (false, format!("{}\n", e)),
            });
            match expected {
                Err(p) => (Some(viol("C20:library-panics", format!("file {}: the library panics in-process ({}), the tool printed {:?}", what, p, stdout.chars().take(80).collect::<String>()), rep)), "library-panic"),
                Ok((ok, want)) => {
                    if stdout != want {
                        (Some(viol(format!("C20:stdout:{}", if ok { "disassembly" } else { "error" }), format!("file {}: stdout {:?}, expected {:?}", what, stdout.chars().take(200).collect::<String>(), want.chars().take(200).collect::<String>()), rep)), "stdout-differs")
                    } else if !ok && want.trim_end_matches('\n').contains('\n') {
                        (Some(viol("C20:error-message-multiline", format!("file {}: the error message spans several lines: {:?}", what, want), rep)), "multiline-error")
                    } else {
                        (None, if ok { "disassembly" } else { "error-line" })
                    }
                }
            }
        })
        .collect();
    // the same bytes through something that is not a regular file: a named pipe (its size is reported as 0) - the tool reads
    // what the file yields, whatever kind of file it is
    let mut res = res;
    {
        let picks: Vec<&(String, Vec<u8>)> = fs.iter().filter(|f| f.0 == "valid-prefix-20" || f.0.starts_with("valid-prefix-") && f.1.len() == valid_module().len() || f.0 == "empty" || f.0 == "foreign:own-listing" || f.0.starts_with("many-lines:100")).collect();
        let mut piped = 0u64;
        for (what, bytes) in picks.into_iter().map(|f| (&f.0, &f.1)) {
            let fifo = dir.join(format!("pipe-{}", piped));
            let _ = std::fs::remove_file(&fifo);
            if !Command::new("mkfifo").arg(&fifo).status().map(|s| s.success()).unwrap_or(false) {
                break;
            }
            let so = dir.join(format!("pipe-{}.out", piped));
            let child = (|| -> std::io::Result<std::process::Child> { Command::new(&bin).arg(&fifo).stdout(std::fs::File::create(&so)?).stderr(std::process::Stdio::null()).spawn() })();
            let Ok(mut child) = child else { break };
            let data = bytes.clone();
            let fpath = fifo.clone();
            let writer = std::thread::spawn(move || {
                if let Ok(mut f) = std::fs::OpenOptions::new().write(true).open(&fpath) {
                    use std::io::Write;
                    let _ = f.write_all(&data);
                }
            });
            let started = std::time::Instant::now();
            let status = loop {
                match child.try_wait() {
                    Ok(Some(st)) => break Some(st),
                    Ok(None) if started.elapsed().as_secs() >= HORIZON_SECS => {
                        let _ = child.kill();
                        let _ = child.wait();
                        // unblock a writer still waiting for a reader
                        let _ = std::fs::OpenOptions::new().read(true).open(&fifo);
                        break None;
                    }
                    Ok(None) => std::thread::sleep(std::time::Duration::from_millis(2)),
                    Err(_) => break None,
                }
            };
            let _ = writer.join();
            let stdout = String::from_utf8_lossy(&std::fs::read(&so).unwrap_or_default()).to_string();
            let _ = std::fs::remove_file(&fifo);
            let _ = std::fs::remove_file(&so);
            piped += 1;
            let want = match guarded(|| match rspirv::dr::load_bytes(bytes) {
                Ok(m) => format!("{}\n", m.disassemble()),
                Err(e) => format!("{}\n", e),
            }) {
                Ok(w) => w,
                Err(_) => continue,
            };
            let rep = json!({"kind": "bytes", "bytes": hex(bytes), "file": what, "through": "named pipe"});
            if status.map(|s| s.code()) != Some(Some(0)) {
                res.push((Some(viol("C20:exit:named-pipe", format!("file {} read through a named pipe: exit status {:?}", what, status.map(|s| s.code())), rep)), "crash"));
            } else if stdout != want {
                res.push((Some(viol("C20:stdout:named-pipe", format!("file {} read through a named pipe: stdout {:?}, expected {:?}", what, stdout.chars().take(120).collect::<String>(), want.chars().take(120).collect::<String>()), rep)), "stdout-differs"));
            } else {
                res.push((None, "named-pipe-ok"));
            }
        }
        run.outcome("files_through_a_named_pipe", piped);
    }
    let _ = std::fs::remove_dir_all(&dir);
    let mut n = 0u64;
    for (v, o) in res {
        n += 1;
        run.outcome(o, 1);
        if let Some(v) = v {
            run.add(v);
        }
    }
    let distinct: std::collections::HashSet<&Vec<u8>> = fs.iter().map(|f| &f.1).collect();
    run.set("evaluations", json!(n));
    run.set("distinct_nontrivial", json!(distinct.len()));
    run.set("rule", json!("files = the empty file, every prefix of a valid multi-section module, every unmodified seed of the C03 universe plus a strided selection of its corruptions (every corruption kind represented), every word over the 21 instruction classes up to length L in any order, and every hostile word string of length <= 2 (+1-3 trailing bytes), modules whose last line / whole text has a length on both sides of 1 KiB .. 256 KiB, and every binary of the whole C03 universe on which the library panics in-process (prefilter over all of it); each file is written to disk and the real rspirv-dis binary built from /repo is run on it: exit status 0, stdout equal to the library's disassembly + newline or the Display of the loading error + newline (computed in-process), single-line error, no panic text on stderr. distinct_nontrivial = distinct file contents"));
    run.set("exhaustive", json!(false));
    run.set("bounds", json!({"files": fs.len(), "selection": "strided (not the whole C03 universe: one process per file)"}));
    run.set("samples", json!(fs.iter().step_by(fs.len() / 5 + 1).map(|f| json!({"file": f.0, "bytes": hex(&f.1[..f.1.len().min(64)])})).collect::<Vec<_>>()));
    run.assume("the file is readable (unreadable / missing files are outside the statement)");
    run.require_outcome("disassembly");
    run.require_outcome("error-line");
    run
}
