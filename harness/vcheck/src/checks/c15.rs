//! C15 — module traversals visit exactly the assembled instruction sequence (shape B).
//! dr::Module values are built directly (public fields), every instruction carrying a unique id.
use crate::report::{guarded, viol, Run, Tier, Viol};
use rayon::prelude::*;
use rspirv::binary::Assemble;
use rspirv::dr;
use rspirv::spirv;
use serde_json::json;

#[derive(Clone, Debug)]
struct FnSpec {
    def: bool,
    end: bool,
    params: usize,
    /// per block: (label present, number of instructions)
    blocks: Vec<(bool, usize)>,
}

fn fn_specs() -> Vec<FnSpec> {
    let mut blocks: Vec<Vec<(bool, usize)>> = vec![vec![]];
    let one: Vec<(bool, usize)> = [true, false].iter().flat_map(|&l| (0..=2).map(move |n| (l, n))).collect();
    for b in &one {
        blocks.push(vec![*b]);
    }
    for a in &one {
        for b in &one {
            blocks.push(vec![*a, *b]);
        }
    }
    let mut out = vec![];
    for def in [true, false] {
        for end in [true, false] {
            for params in 0..=2 {
                for b in &blocks {
                    out.push(FnSpec { def, end, params, blocks: b.clone() });
                }
            }
        }
    }
    out
}

struct Gen {
    next: u32,
}
impl Gen {
    fn inst(&mut self) -> dr::Instruction {
        self.next += 1;
        // any opcode anywhere: a dr::Module is plain data, the traversals and the assembler must not look at it
        // (the 12 structurally loaded ones first, then all 787 of the grammar in table order)
        static OPS: std::sync::OnceLock<Vec<spirv::Op>> = std::sync::OnceLock::new();
        let ops = OPS.get_or_init(|| {
            let mut v = vec![
                spirv::Op::Nop, spirv::Op::Return, spirv::Op::Label, spirv::Op::Kill, spirv::Op::Function, spirv::Op::FunctionEnd,
                spirv::Op::Capability, spirv::Op::Line, spirv::Op::Phi, spirv::Op::Branch, spirv::Op::TypeVoid, spirv::Op::Unreachable,
            ];
            v.extend(crate::golden::golden().insts.iter().filter_map(|gi| spirv::Op::from_u32(gi.opcode as u32)));
            v
        });
        // every fifth instruction (5 is coprime to 12 and to 799, so every opcode gets repeated) is an exact copy of the previous one, result id included (two identical neighbours: a
        // traversal or an assembler that merges / skips a repeated instruction is seen); the comparison by id sequence
        // still decides order and count
        let k = if self.next % 5 == 0 { self.next - 1 } else { self.next };
        dr::Instruction::new(ops[if k < 200 { (k as usize * 7 + 3) % 12 } else { k as usize % ops.len() }], None, Some(k), vec![dr::Operand::LiteralBit32(Self::payload(k))])
    }
    /// operand word of instruction k: every fourth one is a word that means something else in a binary (the first
    /// word of OpFunctionEnd / OpReturn / OpLabel / OpFunction, the magic number, 0, 2^32-1)
    fn payload(k: u32) -> u32 {
        const MEANINGFUL: [u32; 8] = [(1 << 16) | 56, (1 << 16) | 253, (2 << 16) | 248, (5 << 16) | 54, 0x0723_0203, 0, u32::MAX, (1 << 16) | 252];
        if k % 4 == 1 {
            MEANINGFUL[(k as usize / 4) % 8]
        } else {
            k ^ 0x5555
        }
    }
    fn list(&mut self, n: usize) -> Vec<dr::Instruction> {
        (0..n).map(|_| self.inst()).collect()
    }
    fn function(&mut self, s: &FnSpec) -> dr::Function {
        let mut f = dr::Function::new();
        if s.def {
            f.def = Some(self.inst());
        }
        // note: `end` is created before the body on purpose (ids are not in traversal order)
        if s.end {
            f.end = Some(self.inst());
        }
        f.parameters = self.list(s.params);
        for (label, n) in &s.blocks {
            let mut b = dr::Block::new();
            if *label {
                b.label = Some(self.inst());
            }
            b.instructions = self.list(*n);
            f.blocks.push(b);
        }
        f
    }
}

/// builds the module for (section mask, function specs); bit i of `mask`: section i non-empty (2 elements);
/// bit 11: header present
fn build(mask: u32, fns: &[&FnSpec]) -> dr::Module {
    let mut g = Gen { next: 0 };
    let mut m = dr::Module::new();
    let n = |bit: u32| if mask & (1 << bit) != 0 { 2 } else { 0 };
    // created in an order different from the layout so that ids are not monotone along the traversal
    m.types_global_values = g.list(n(10));
    m.capabilities = g.list(n(0));
    m.extensions = g.list(n(1));
    m.ext_inst_imports = g.list(n(2));
    if mask & (1 << 3) != 0 {
        m.memory_model = Some(g.inst());
    }
    m.annotations = g.list(n(9));
    m.entry_points = g.list(n(4));
    m.execution_modes = g.list(n(5));
    m.debug_module_processed = g.list(n(8));
    m.debug_string_source = g.list(n(6));
    m.debug_names = g.list(n(7));
    if mask & (1 << 11) != 0 {
        let mut h = dr::ModuleHeader::new(999);
        // version: one of 1.0 .. 1.6, 0.0, 255.255 (chosen by the section mask, so that every version meets every section)
        let (maj, min) = [(1u8, 0u8), (1, 1), (1, 3), (1, 4), (1, 6), (0, 0), (255, 255)][(mask % 7) as usize];
        h.set_version(maj, min);
        // every header word arbitrary
        // magic: arbitrary, the real one, the byte-swapped real one, 0, 2^32-1
        h.magic_number = [0x1111_1111u32, 0x0723_0203, 0x0302_2307, 0, 0xFFFF_FFFF][(mask % 5) as usize];
        h.generator = 0x2222_0003;
        h.reserved_word = 0x4444_4444;
        m.header = Some(h);
    }
    for s in fns {
        let f = g.function(s);
        m.functions.push(f);
    }
    m
}

/// the reference order, written out from the logical layout
fn reference(m: &dr::Module) -> (Vec<u32>, usize, Vec<(usize, usize)>) {
    let mut ids = vec![];
    let mut push = |l: &[dr::Instruction]| {
        for i in l {
            ids.push(i.result_id.unwrap())
        }
    };
    push(&m.capabilities);
    push(&m.extensions);
    push(&m.ext_inst_imports);
    push(m.memory_model.as_slice());
    push(&m.entry_points);
    push(&m.execution_modes);
    push(&m.debug_string_source);
    push(&m.debug_names);
    push(&m.debug_module_processed);
    push(&m.annotations);
    push(&m.types_global_values);
    let globals = ids.len();
    let mut slices = vec![];
    for f in &m.functions {
        let a = ids.len();
        let mut push = |l: &[dr::Instruction]| {
            for i in l {
                ids.push(i.result_id.unwrap())
            }
        };
        push(f.def.as_slice());
        push(&f.parameters);
        for b in &f.blocks {
            push(b.label.as_slice());
            push(&b.instructions);
        }
        push(f.end.as_slice());
        slices.push((a, ids.len()));
    }
    (ids, globals, slices)
}

fn check(mask: u32, fns: &[&FnSpec], label: &str) -> Vec<Viol> {
    let rep = json!({"kind": "c15", "section_mask": mask, "functions": fns.iter().map(|f| format!("{:?}", f)).collect::<Vec<_>>()});
    check_module(&|| build(mask, fns), label, rep)
}

/// U-scale for traversals: section lengths, function / block / instruction counts on both sides of 2^8 and 2^16
fn big_modules() -> Vec<(String, Box<dyn Fn() -> dr::Module + Sync + Send>)> {
    let mut out: Vec<(String, Box<dyn Fn() -> dr::Module + Sync + Send>)> = vec![];
    // every ordered pair of the 787 opcodes as neighbours inside one block, inside one function's parameter list region
    // and in types_global_values (an assembler or traversal that treats X-followed-by-Y specially is seen)
    out.push(("big: every ordered pair of opcodes adjacent in a block and in a global section".to_string(), Box::new(|| {
        let ops: Vec<spirv::Op> = crate::golden::golden().insts.iter().filter_map(|gi| spirv::Op::from_u32(gi.opcode as u32)).collect();
        let mut id = 0u32;
        let mut seq = |n_ops: usize| -> Vec<dr::Instruction> {
            let mut v = Vec::with_capacity(2 * n_ops * n_ops);
            for x in 0..n_ops {
                for y in 0..n_ops {
                    for o in [x, y] {
                        id += 1;
                        v.push(dr::Instruction::new(ops[o], None, Some(id), vec![dr::Operand::LiteralBit32(id ^ 0x3333)]));
                    }
                }
            }
            v
        };
        let mut m = dr::Module::new();
        let mut f = dr::Function::new();
        let mut b = dr::Block::new();
        b.instructions = seq(ops.len());
        f.blocks.push(b);
        m.functions.push(f);
        m.types_global_values = seq(ops.len());
        m
    })));
    // every shape of every opcode (every enumerant, optional operand, parameter) as an instruction of each of three
    // blocks of one function, of a second function's only block, and of types_global_values
    out.push(("big: every operand shape of every opcode in each of three blocks and in a global section".to_string(), Box::new(|| {
        let shapes: Vec<dr::Instruction> = crate::universe::all_shapes(Tier::Quick).iter().filter_map(|s| crate::model::to_dr(&s.inst)).collect();
        let id = std::cell::Cell::new(0u32);
        let next = || {
            id.set(id.get() + 1);
            id.get()
        };
        let seq = || -> Vec<dr::Instruction> {
            shapes
                .iter()
                .map(|i| {
                    let mut j = i.clone();
                    j.result_id = Some(next());
                    j
                })
                .collect()
        };
        let mut m = dr::Module::new();
        let mut f = dr::Function::new();
        for _ in 0..3 {
            let mut b = dr::Block::new();
            b.label = Some(dr::Instruction::new(spirv::Op::Label, None, Some(next()), vec![]));
            b.instructions = seq();
            f.blocks.push(b);
        }
        m.functions.push(f);
        let mut f2 = dr::Function::new();
        let mut b = dr::Block::new();
        b.instructions = seq();
        f2.blocks.push(b);
        m.functions.push(f2);
        m.types_global_values = seq();
        m
    })));
    // "semantic" modules: real instruction shapes in their sections (every Capability, every shape of every annotation /
    // execution-mode / entry-point / debug opcode incl. nested parameters), every id collapsed onto 1, and four functions
    // that all carry result id 1: with a body, without blocks, with a body, without blocks. Only the assemble clause
    // applies (ids are no identity here); for two magic numbers
    for magic in [0x0723_0203u32, 0x0302_2307] {
        out.push((format!("big: semantic sections, all ids equal, magic {:#x}", magic), Box::new(move || {
            let g = crate::golden::golden();
            let one = |i: &crate::model::Inst| crate::model::to_dr(&crate::model::remap_ids(i, &|_| 1));
            let pattern = crate::universe::pattern_shapes(Tier::Quick);
            let of = |names: &[&str]| -> Vec<dr::Instruction> {
                let mut v = vec![];
                for n in names {
                    let gi = g.inst(n);
                    for s in crate::universe::shapes(gi, Tier::Quick).into_iter().chain(pattern.iter().filter(|s| s.inst.opcode == gi.opcode).cloned()) {
                        if let Some(d) = one(&s.inst) {
                            v.push(d);
                        }
                    }
                }
                v
            };
            let mut m = dr::Module::new();
            m.capabilities = of(&["Capability"]);
            m.extensions = of(&["Extension"]);
            m.ext_inst_imports = of(&["ExtInstImport"]);
            m.memory_model = of(&["MemoryModel"]).into_iter().next();
            m.entry_points = of(&["EntryPoint"]);
            m.execution_modes = of(&["ExecutionMode", "ExecutionModeId"]);
            m.debug_string_source = of(&["String", "Source", "SourceExtension", "SourceContinued"]);
            m.debug_names = of(&["Name", "MemberName"]);
            m.debug_module_processed = of(&["ModuleProcessed"]);
            m.annotations = of(&["Decorate", "MemberDecorate", "DecorateId", "DecorateString", "MemberDecorateString", "DecorationGroup", "GroupDecorate"]);
            m.types_global_values = of(&["TypeVoid", "TypeInt", "TypeFunction", "TypePointer", "Constant", "Variable"]);
            for k in 0..4 {
                let mut f = dr::Function::new();
                f.def = one(&crate::universe::minimal(g.inst("Function")));
                f.end = one(&crate::universe::minimal(g.inst("FunctionEnd")));
                if k % 2 == 0 {
                    let mut b = dr::Block::new();
                    b.label = one(&crate::universe::minimal(g.inst("Label")));
                    b.instructions = of(&["Variable", "Load", "Store", "Return"]);
                    f.blocks.push(b);
                } else {
                    f.parameters = of(&["FunctionParameter"]);
                }
                m.functions.push(f);
            }
            let mut h = dr::ModuleHeader::new(2);
            h.magic_number = magic;
            m.header = Some(h);
            // unique result ids are NOT given here on purpose; check_module's id-based clauses see equal ids everywhere
            // and only its assemble clause can tell orders apart
            for i in m.all_inst_iter_mut() {
                if i.result_id.is_none() {
                    i.result_id = Some(1);
                }
            }
            m
        })));
    }
    // instructions at and beyond the largest size one instruction can have (strings of 262 100 .. 300 000 bytes in every
    // string-carrying opcode, with and without the optional operands in front of the string): the module's assembly is the
    // concatenation of what each visited instruction assembles to, whatever that is
    for n in [262_100usize, 262_120, 262_124, 262_128, 262_132, 262_136, 262_140, 262_144, 300_000] {
        out.push((format!("big: strings of {} bytes in every string-carrying opcode", n), Box::new(move || {
            let g = crate::golden::golden();
            let mut id = 0u32;
            let mut m = dr::Module::new();
            for gi in &g.insts {
                if !gi.value_operands().iter().any(|(k, _)| k == "LiteralString") {
                    continue;
                }
                for base in [crate::universe::minimal(gi), crate::universe::fullest(gi)] {
                    let mut i = base.clone();
                    for a in i.args.iter_mut() {
                        if let crate::model::Arg::Str(t) = a {
                            *t = "s".repeat(n);
                        }
                    }
                    if let Some(mut d) = crate::model::to_dr(&i) {
                        id += 1;
                        d.result_id = Some(id);
                        match crate::universe::class_of(&gi.name) {
                            crate::universe::Class::Module(sec) => match sec {
                                1 => m.extensions.push(d),
                                2 => m.ext_inst_imports.push(d),
                                4 => m.entry_points.push(d),
                                6 => m.debug_string_source.push(d),
                                7 => m.debug_names.push(d),
                                8 => m.debug_module_processed.push(d),
                                9 => m.annotations.push(d),
                                _ => m.types_global_values.push(d),
                            },
                            _ => m.types_global_values.push(d),
                        }
                    }
                }
            }
            m.header = Some(dr::ModuleHeader::new(id + 1));
            m
        })));
    }
    // "linked" modules: three functions with distinct result ids, each with or without a body; capabilities any subset of
    // {Linkage, Shader, Kernel}; a linkage decoration (Import / Export), a name and an entry point whose target is the
    // result id of none / one / each of the functions. Every instruction carries a unique result id (the order tag); the
    // stored order of the functions is the order of assembly whatever the sections say about them
    for caps in 0..8u32 {
        for bodies in 0..8u32 {
            for target in 0..5u32 {
                for lt in 0..2u32 {
                    // the header version rotates with the other parameters (1.0, 1.3, 1.4, 1.6 all occur with every target)
                    let (vmaj, vmin) = [(1u8, 0u8), (1, 3), (1, 4), (1, 6)][((caps + bodies + lt) % 4) as usize];
                    out.push((format!("linked: version {}.{}, capabilities {:#05b}, bodies {:#05b}, linkage target {}, linkage type {}", vmaj, vmin, caps, bodies, target, lt), Box::new(move || {
                        let mut next = 1000u32;
                        let mut tag = |op: spirv::Op, ops: Vec<dr::Operand>| {
                            next += 1;
                            dr::Instruction::new(op, None, Some(next), ops)
                        };
                        let fid = |k: u32| 100 + k;
                        let mut m = dr::Module::new();
                        for (bit, c) in [spirv::Capability::Linkage, spirv::Capability::Shader, spirv::Capability::Kernel].into_iter().enumerate() {
                            if caps & (1 << bit) != 0 {
                                m.capabilities.push(tag(spirv::Op::Capability, vec![dr::Operand::Capability(c)]));
                            }
                        }
                        let targets: Vec<u32> = match target {
                            0 => vec![],
                            4 => vec![0, 1, 2],
                            k => vec![k - 1],
                        };
                        for k in &targets {
                            m.annotations.push(tag(spirv::Op::Decorate, vec![dr::Operand::IdRef(fid(*k)), dr::Operand::Decoration(spirv::Decoration::LinkageAttributes), dr::Operand::LiteralString(format!("f{}", k)), dr::Operand::LinkageType(if lt == 0 { spirv::LinkageType::Import } else { spirv::LinkageType::Export })]));
                            m.debug_names.push(tag(spirv::Op::Name, vec![dr::Operand::IdRef(fid(*k)), dr::Operand::LiteralString(format!("f{}", k))]));
                            // the interface names one module-scope variable of each of six storage classes (ids 200..205)
                            let mut ep = vec![dr::Operand::ExecutionModel(spirv::ExecutionModel::GLCompute), dr::Operand::IdRef(fid(2 - *k)), dr::Operand::LiteralString("main".into())];
                            ep.extend((200..206u32).map(dr::Operand::IdRef));
                            m.entry_points.push(tag(spirv::Op::EntryPoint, ep));
                        }
                        m.types_global_values.push(tag(spirv::Op::TypeVoid, vec![]));
                        for (k, sc) in [spirv::StorageClass::Input, spirv::StorageClass::Output, spirv::StorageClass::Uniform, spirv::StorageClass::Private, spirv::StorageClass::StorageBuffer, spirv::StorageClass::Workgroup].into_iter().enumerate() {
                            m.types_global_values.push(dr::Instruction::new(spirv::Op::Variable, Some(1001), Some(200 + k as u32), vec![dr::Operand::StorageClass(sc)]));
                        }
                        for k in 0..3u32 {
                            let mut f = dr::Function::new();
                            f.def = Some(dr::Instruction::new(spirv::Op::Function, Some(1001), Some(fid(k)), vec![dr::Operand::FunctionControl(spirv::FunctionControl::NONE), dr::Operand::IdRef(1001)]));
                            f.end = Some(tag(spirv::Op::FunctionEnd, vec![]));
                            if bodies & (1 << k) != 0 {
                                let mut b = dr::Block::new();
                                b.label = Some(tag(spirv::Op::Label, vec![]));
                                b.instructions.push(tag(spirv::Op::Return, vec![]));
                                f.blocks.push(b);
                            } else {
                                f.parameters.push(tag(spirv::Op::FunctionParameter, vec![]));
                            }
                            m.functions.push(f);
                        }
                        let mut h = dr::ModuleHeader::new(2000);
                        h.set_version(vmaj, vmin);
                        m.header = Some(h);
                        m
                    })));
                }
            }
        }
    }
    for (maj, min) in [(1u8, 0u8), (1, 1), (1, 2), (1, 3), (1, 4), (1, 5), (1, 6), (0, 0), (2, 0), (255, 255)] {
        out.push((format!("big: version {}.{}, every opcode once in every section and in a block", maj, min), Box::new(move || {
            let ops: Vec<spirv::Op> = crate::golden::golden().insts.iter().filter_map(|gi| spirv::Op::from_u32(gi.opcode as u32)).collect();
            let mut id = 0u32;
            let mut seq = || -> Vec<dr::Instruction> {
                ops.iter()
                    .map(|o| {
                        id += 1;
                        dr::Instruction::new(*o, None, Some(id), vec![dr::Operand::LiteralBit32(id)])
                    })
                    .collect()
            };
            let mut m = dr::Module::new();
            m.capabilities = seq();
            m.extensions = seq();
            m.ext_inst_imports = seq();
            m.entry_points = seq();
            m.execution_modes = seq();
            m.debug_string_source = seq();
            m.debug_names = seq();
            m.debug_module_processed = seq();
            m.annotations = seq();
            m.types_global_values = seq();
            let mut f = dr::Function::new();
            let mut b = dr::Block::new();
            b.instructions = seq();
            f.parameters = seq();
            f.blocks.push(b);
            m.functions.push(f);
            let mut h = dr::ModuleHeader::new(9);
            h.set_version(maj, min);
            m.header = Some(h);
            m
        })));
    }
    for n in [255usize, 256, 257, 65535, 65536, 65537] {
        out.push((format!("big: every section {} instructions", n), Box::new(move || {
            let mut g = Gen { next: 0 };
            let mut m = dr::Module::new();
            let k = if n > 1000 { n / 8 } else { n };
            m.types_global_values = g.list(n);
            m.capabilities = g.list(k);
            m.extensions = g.list(k);
            m.ext_inst_imports = g.list(k);
            m.annotations = g.list(k);
            m.entry_points = g.list(k);
            m.execution_modes = g.list(k);
            m.debug_module_processed = g.list(k);
            m.debug_string_source = g.list(k);
            m.debug_names = g.list(n);
            // a header whose version depends on n (1.0, 1.1, 1.3, 1.4, 1.6, 0.0, 255.255 all occur)
            let mut h = dr::ModuleHeader::new(77);
            let (maj, min) = [(1u8, 0u8), (1, 1), (1, 3), (1, 4), (1, 6), (0, 0), (255, 255)][n % 7];
            h.set_version(maj, min);
            m.header = Some(h);
            m
        })));
        for (f, b, i) in [(n, 1usize, 1usize), (1, n, 1), (1, 1, n), (2, n / 2 + 1, 0)] {
            out.push((format!("big: {} functions x {} blocks x {} instructions", f, b, i), Box::new(move || {
                let mut g = Gen { next: 0 };
                let mut m = dr::Module::new();
                m.types_global_values = g.list(3);
                let spec = FnSpec { def: true, end: true, params: if f == 1 { n.min(300) } else { 1 }, blocks: vec![(true, i); b] };
                for _ in 0..f {
                    let func = g.function(&spec);
                    m.functions.push(func);
                }
                m
            })));
        }
    }
    out
}

fn brief(v: &[u32]) -> String {
    if v.len() <= 40 {
        format!("{:?}", v)
    } else {
        format!("{} ids {:?} .. {:?}", v.len(), &v[..8], &v[v.len() - 8..])
    }
}

fn check_module(make: &dyn Fn() -> dr::Module, label: &str, rep: serde_json::Value) -> Vec<Viol> {
    let mut out = vec![];
    let r = guarded(|| {
        let mut m = make();
        let (ids, globals, slices) = reference(&m);
        let mut bad: Vec<(String, String)> = vec![];
        let ro: Vec<u32> = m.all_inst_iter().map(|i| i.result_id.unwrap()).collect();
        if ro != ids {
            bad.push(("all_inst_iter".into(), format!("visits {}, assembly order is {}", brief(&ro), brief(&ids))));
        }
        let rw: Vec<u32> = m.all_inst_iter_mut().map(|i| i.result_id.unwrap()).collect();
        if rw != ids {
            bad.push(("all_inst_iter_mut".into(), format!("visits {}, assembly order is {}", brief(&rw), brief(&ids))));
        }
        let g: Vec<u32> = m.global_inst_iter().map(|i| i.result_id.unwrap()).collect();
        if g != ids[..globals] {
            bad.push(("global_inst_iter".into(), format!("visits {}, the prefix before the first function is {}", brief(&g), brief(&ids[..globals]))));
        }
        let gm: Vec<u32> = m.global_inst_iter_mut().map(|i| i.result_id.unwrap()).collect();
        if gm != ids[..globals] {
            bad.push(("global_inst_iter_mut".into(), format!("visits {}, the prefix before the first function is {}", brief(&gm), brief(&ids[..globals]))));
        }
        for (fi, f) in m.functions.iter_mut().enumerate() {
            let (a, b) = slices[fi];
            let fr: Vec<u32> = f.all_inst_iter().map(|i| i.result_id.unwrap()).collect();
            if fr != ids[a..b] {
                bad.push(("Function::all_inst_iter".into(), format!("function {} visits {}, its slice is {}", fi, brief(&fr), brief(&ids[a..b]))));
            }
            let fw: Vec<u32> = f.all_inst_iter_mut().map(|i| i.result_id.unwrap()).collect();
            if fw != ids[a..b] {
                bad.push(("Function::all_inst_iter_mut".into(), format!("function {} visits {}, its slice is {}", fi, brief(&fw), brief(&ids[a..b]))));
            }
        }
        // the traversals are iterators like any other: nth / skip / step_by / last / count agree with next()
        {
            let all: Vec<u32> = m.all_inst_iter().map(|i| i.result_id.unwrap()).collect();
            for k in 0..all.len().min(40) {
                if m.all_inst_iter().nth(k).map(|i| i.result_id.unwrap()) != all.get(k).copied() || m.all_inst_iter().skip(k).next().map(|i| i.result_id.unwrap()) != all.get(k).copied() {
                    bad.push(("all_inst_iter".into(), format!("nth({}) / skip({}) disagrees with stepping by next()", k, k)));
                    break;
                }
            }
            if m.all_inst_iter().count() != all.len() || m.all_inst_iter().last().map(|i| i.result_id.unwrap()) != all.last().copied() || m.all_inst_iter().step_by(3).map(|i| i.result_id.unwrap()).collect::<Vec<_>>() != all.iter().copied().step_by(3).collect::<Vec<_>>() {
                bad.push(("all_inst_iter".into(), "count() / last() / step_by(3) disagree with stepping by next()".into()));
            }
            let gl: Vec<u32> = m.global_inst_iter().map(|i| i.result_id.unwrap()).collect();
            if m.global_inst_iter().count() != gl.len() || m.global_inst_iter().step_by(2).map(|i| i.result_id.unwrap()).collect::<Vec<_>>() != gl.iter().copied().step_by(2).collect::<Vec<_>>() || (0..gl.len().min(20)).any(|k| m.global_inst_iter().nth(k).map(|i| i.result_id.unwrap()) != Some(gl[k])) {
                bad.push(("global_inst_iter".into(), "count() / step_by(2) / nth(k) disagree with stepping by next()".into()));
            }
            for (fi, f) in m.functions.iter().enumerate() {
                let fr: Vec<u32> = f.all_inst_iter().map(|i| i.result_id.unwrap()).collect();
                let ok = f.all_inst_iter().count() == fr.len()
                    && f.all_inst_iter().last().map(|i| i.result_id.unwrap()) == fr.last().copied()
                    && f.all_inst_iter().step_by(2).map(|i| i.result_id.unwrap()).collect::<Vec<_>>() == fr.iter().copied().step_by(2).collect::<Vec<_>>()
                    && (0..fr.len().min(60)).all(|k| f.all_inst_iter().nth(k).map(|i| i.result_id.unwrap()) == Some(fr[k]) && f.all_inst_iter().skip(k).next().map(|i| i.result_id.unwrap()) == Some(fr[k]));
                if !ok {
                    bad.push(("Function::all_inst_iter".into(), format!("function {}: nth / skip / step_by / last / count disagree with stepping by next()", fi)));
                    break;
                }
            }
        }
        // assembling = header words ++ assembly of each visited instruction: first on the module as it was made (ids in one
        // section may name ids in another: a decoration's target, an entry point's function), then once more below, after
        // every result id was rewritten through the mutable traversal
        {
            let mut want: Vec<u32> = vec![];
            if let Some(h) = &m.header {
                want.extend([h.magic_number, h.version, h.generator, h.bound, h.reserved_word]);
            }
            for i in m.all_inst_iter() {
                want.extend(i.assemble());
            }
            let asm = m.assemble();
            if asm != want {
                let at = asm.iter().zip(want.iter()).position(|(a, b)| a != b);
                bad.push(("assemble".into(), format!("module.assemble() ({} words) is not header ++ concatenation of the visited instructions ({} words); first difference at word {:?}", asm.len(), want.len(), at)));
            }
        }
        // the mutable traversal really yields the module's own instructions: mutate through it, observe through the other
        for i in m.all_inst_iter_mut() {
            i.result_id = Some(i.result_id.unwrap() + 10_000);
        }
        let after: Vec<u32> = m.all_inst_iter().map(|i| i.result_id.unwrap()).collect();
        if after != ids.iter().map(|x| x + 10_000).collect::<Vec<_>>() {
            bad.push(("all_inst_iter_mut".into(), "mutation through the mutable traversal is not visible through the read-only one".into()));
        }
        // assembling = header words ++ assembly of each visited instruction
        let mut want: Vec<u32> = vec![];
        if let Some(h) = &m.header {
            want.extend([h.magic_number, h.version, h.generator, h.bound, h.reserved_word]);
        }
        for i in m.all_inst_iter() {
            want.extend(i.assemble());
        }
        let asm = m.assemble();
        // second use: the same module assembles to the same words again, also into a vector that is not empty
        let again = m.assemble();
        let mut appended = vec![0xAAAA_AAAA, 0xBBBB_BBBB];
        m.assemble_into(&mut appended);
        // into buffers with (much) more spare capacity than the module needs, and into a buffer used before
        let mut roomy: Vec<u32> = Vec::with_capacity(asm.len() * 2 + 1024);
        m.assemble_into(&mut roomy);
        let mut reused: Vec<u32> = vec![1; asm.len() + 77];
        reused.clear();
        m.assemble_into(&mut reused);
        if roomy != asm || reused != asm {
            bad.push(("assemble".into(), "assemble_into() a buffer with spare capacity / a cleared, previously used buffer differs from assemble()".into()));
        }
        if again != asm || appended[..2] != [0xAAAA_AAAA, 0xBBBB_BBBB] || appended[2..] != asm[..] {
            bad.push(("assemble".into(), "a second assemble() / assemble_into() on a non-empty vector differs from the first assemble()".into()));
        }
        if asm != want {
            bad.push(("assemble".into(), format!("module.assemble() has {} words, header ++ concatenation of the visited instructions has {}", asm.len(), want.len())));
        }
        bad
    });
    match r {
        Err(p) => out.push(viol(format!("C15:panic@{}", crate::report::panic_class(&p)), format!("{}: panic {}", label, p), rep)),
        Ok(bad) => {
            for (t, why) in bad {
                out.push(viol(format!("C15:{}", t), format!("{}: {}", label, why), rep.clone()));
            }
        }
    }
    out
}

pub fn run(tier: Tier) -> Run {
    let mut run = Run::new("C15", tier, "exploration");
    let specs = fn_specs();
    // function lists: none, every single function, every ordered pair (thorough: triple) of 12 representatives
    let reps: Vec<&FnSpec> = specs.iter().step_by(specs.len() / 12 + 1).collect();
    let mut lists: Vec<Vec<&FnSpec>> = vec![vec![]];
    for s in &specs {
        lists.push(vec![s]);
    }
    for a in &reps {
        for b in &reps {
            lists.push(vec![a, b]);
        }
    }
    if tier == Tier::Thorough {
        for a in reps.iter().take(6) {
            for b in reps.iter().take(6) {
                for c in reps.iter().take(6) {
                    lists.push(vec![a, b, c]);
                }
            }
        }
    }
    // quick: every section mask with a rotating function list + every function list with 8 masks; thorough: the full product
    let masks: Vec<u32> = (0..(1u32 << 12)).collect();
    let work: Vec<(u32, usize)> = masks.iter().flat_map(|&m| (0..lists.len()).map(move |l| (m, l))).collect();
    let res: Vec<Vec<Viol>> = work.par_iter().map(|(m, l)| check(*m, &lists[*l], &format!("sections {:#05x}, functions #{}", m, l))).collect();
    let mut n = 0u64;
    for v in res {
        n += 1;
        run.add_all(v);
    }
    // U-scale
    let bigs = big_modules();
    let res: Vec<Vec<Viol>> = bigs.par_iter().map(|(label, make)| check_module(&**make, label, json!({"kind": "c15-big", "module": label}))).collect();
    for v in res {
        n += 1;
        run.add_all(v);
    }
    run.outcome("big_modules", bigs.len() as u64);
    run.outcome("modules", n);
    run.set("evaluations", json!(n * 7));
    run.set("distinct_nontrivial", json!(n));
    run.set("rule", json!("dr::Module values built directly: every subset of the 11 sections (empty / two instructions; memory model present / absent) and header present / absent, x function lists (none; every single function over def/end present-absent, 0-2 parameters, 0-2 blocks with label present-absent and 0-2 instructions; ordered pairs/triples of representatives). Every instruction has a unique id deliberately not monotone along the layout. Every third instruction equals its predecessor in opcode and operands. U-scale: section lengths and function / block / instruction / parameter counts of 255, 256, 257, 65535, 65536, 65537. The six traversals are compared by id with the reference order; assemble() with header ++ concatenation of the visited instructions' own assembly. distinct modules are all non-trivial (each differs in shape)"));
    run.set("exhaustive", json!(true));
    run.set("bounds", json!({"section_masks": masks.len(), "function_lists": lists.len(), "single_function_shapes": specs.len(), "product": "full product", "triples": tier == Tier::Thorough}));
    run.set("samples", json!([{"mask": "0x555", "functions": format!("{:?}", lists[17])}, {"mask": "0xfff", "functions": format!("{:?}", lists[lists.len() - 1])}]));
    run.require_outcome("modules");
    run
}
