//! C03 — parser accepts exactly the grammar and reports the first malformed instruction (shape B, fault enumeration).
//! Also hosts the seed universe shared with C04 and C20.
use crate::golden::golden;
use crate::model::{self, Arg, Inst};
use crate::mutate::{self, Level, Mutant, Seed};
use crate::pcompare;
use crate::report::{hex, viol, Run, Tier, Viol};
use crate::universe::{self, Shape};
use rayon::prelude::*;
use serde_json::json;
use std::collections::{BTreeMap, HashSet};

/// type context for context-dependent literals: ids 10.. are types, 20.. are values of those types
pub fn type_context() -> Vec<Inst> {
    let mut v = vec![];
    let ints = [(10u32, 32u32, 0u32), (11, 64, 1), (12, 8, 0), (13, 16, 1), (14, 128, 0), (15, 32, 1), (16, 64, 0)];
    for (id, w, s) in ints {
        v.push(Inst::new("TypeInt", None, Some(id), vec![Arg::Lit32(w), Arg::Lit32(s)]));
    }
    for (id, w) in [(17u32, 16u32), (18, 32), (19, 64)] {
        v.push(Inst::new("TypeFloat", None, Some(id), vec![Arg::Lit32(w)]));
    }
    v.push(Inst::new("TypeBool", None, Some(9), vec![]));
    // a 64-bit float declared WITH its optional FP-encoding operand (the one value the spirv crate declares)
    v.push(Inst::new("TypeFloat", None, Some(8), vec![Arg::Lit32(64), Arg::Enum("FPEncoding", 0x7FFF_FFFF)]));
    v
}

pub fn literal_words_of_type(t: u32) -> Option<usize> {
    match t {
        10 | 12 | 13 | 15 | 17 | 18 => Some(1),
        8 | 11 | 16 | 19 => Some(2),
        14 => None,
        _ => Some(1),
    }
}

/// shapes whose literal width depends on the context: (prefix after the type context, shape)
pub fn context_shapes() -> Vec<(Vec<Inst>, Shape)> {
    let mut out = vec![];
    let lit = |t: u32, v: u64| match literal_words_of_type(t) {
        Some(2) => Arg::Lit64(v),
        _ => Arg::Lit32(v as u32),
    };
    let vals: [u64; 4] = [0, 1, 0x8000_0000_0000_0001, 0xFFFF_FFFF_FFFF_FFFE];
    for t in [10u32, 11, 12, 13, 14, 15, 16, 17, 18, 19, 9, 77, 8] {
        for (vi, v) in vals.iter().enumerate() {
            for name in ["Constant", "SpecConstant"] {
                out.push((vec![], Shape { id: format!("{}:type{}:val{}", name, t, vi), inst: Inst::new(name, Some(t), Some(30), vec![lit(t, *v)]) }));
            }
        }
        // selector of that type via OpUndef, and through a copy chain
        let sel = Inst::new("Undef", Some(t), Some(20), vec![]);
        let copy = Inst::new("CopyObject", Some(t), Some(21), vec![Arg::IdRef(20)]);
        for cases in 0..=2usize {
            let mut args = vec![Arg::IdRef(20), Arg::IdRef(40)];
            for c in 0..cases {
                args.push(lit(t, vals[c + 1]));
                args.push(Arg::IdRef(41 + c as u32));
            }
            out.push((vec![sel.clone()], Shape { id: format!("Switch:type{}:cases{}", t, cases), inst: Inst::new("Switch", None, None, args.clone()) }));
            // the selector operand names the TYPE id itself (an id that carries a width without being a value)
            let mut args3 = args.clone();
            args3[0] = Arg::IdRef(t);
            out.push((vec![], Shape { id: format!("Switch:type{}:on-the-type-id:cases{}", t, cases), inst: Inst::new("Switch", None, None, args3) }));
            let mut args2 = args.clone();
            args2[0] = Arg::IdRef(21);
            out.push((vec![sel.clone(), copy.clone()], Shape { id: format!("Switch:type{}:copied:cases{}", t, cases), inst: Inst::new("Switch", None, None, args2) }));
        }
    }
    out
}

/// context shapes under id relabellings and behind function boundaries: (whole prefix incl. the type context, shape)
pub fn context_variants() -> Vec<(Vec<Inst>, Shape)> {
    let mut out = vec![];
    let ctx = type_context();
    let f1 = [
        Inst::new("Function", Some(80), Some(81), vec![Arg::Mask("FunctionControl", 0), Arg::IdRef(82)]),
        Inst::new("Label", None, Some(83), vec![]),
        Inst::new("Return", None, None, vec![]),
        Inst::new("FunctionEnd", None, None, vec![]),
    ];
    let f2 = [Inst::new("Function", Some(80), Some(84), vec![Arg::Mask("FunctionControl", 0), Arg::IdRef(82)]), Inst::new("Label", None, Some(85), vec![])];
    // a 64-bit type as the (N+1)-th numerically typed id of the module, for every N up to 70 (a table that drops or
    // misplaces every k-th entry), with ascending ids and with one high id first and the rest climbing past it
    for n in 0..=70u32 {
        for climb in [false, true] {
            let tid = if climb { 10_000 } else { 5_000 };
            let mut p: Vec<Inst> = (0..n).map(|i| Inst::new("TypeInt", None, Some(if climb { 900 * (i + 1) } else { 100 + i }), vec![Arg::Lit32(1000 + i), Arg::Lit32(0)])).collect();
            let ty = Inst::new("TypeInt", None, Some(tid), vec![Arg::Lit32(64), Arg::Lit32(0)]);
            if climb {
                p.insert(0, ty);
            } else {
                p.push(ty);
            }
            out.push((p.clone(), Shape { id: format!("Constant:u64-after-{}-types:climb={}", n, climb), inst: Inst::new("Constant", Some(tid), Some(4_999), vec![Arg::Lit64(0x8000_0000_0000_0001)]) }));
            p.push(Inst::new("Undef", Some(tid), Some(4_998), vec![]));
            out.push((p, Shape { id: format!("Switch:u64-after-{}-types:climb={}", n, climb), inst: Inst::new("Switch", None, None, vec![Arg::IdRef(4_998), Arg::IdRef(40), Arg::Lit64(0xFFFF_FFFF_FFFF_FFFE), Arg::IdRef(41)]) }));
        }
    }
    for (pre, s) in context_shapes() {
        if s.id.contains(":type14:") && !s.id.starts_with("Switch") {
            // kept: unsupported widths must stay unsupported under renaming too
        }
        let mut whole = ctx.clone();
        whole.extend(pre.clone());
        for scheme in 0..model::RELABELLINGS {
            let f = |x: u32| model::relabel(scheme, x);
            let p: Vec<Inst> = whole.iter().map(|i| model::remap_ids(i, &f)).collect();
            out.push((p, Shape { id: format!("{}:ids{}", s.id, scheme), inst: model::remap_ids(&s.inst, &f) }));
        }
        // behind 300 further (unused) numeric type declarations: the types that matter are the 301st.. of the module
        if s.id.contains(":val1") || s.id.contains(":cases1") {
            let mut p: Vec<Inst> = (0..300u32).map(|i| Inst::new(if i % 3 == 2 { "TypeFloat" } else { "TypeInt" }, None, Some(2000 + i), if i % 3 == 2 { vec![Arg::Lit32(1000 + i)] } else { vec![Arg::Lit32(1000 + i), Arg::Lit32(i % 2)] })).collect();
            p.extend(whole.iter().cloned());
            out.push((p, Shape { id: format!("{}:after-300-types", s.id), inst: s.inst.clone() }));
        }
        // a constant whose RESULT TYPE names a value defined inside a function (an id that carries a numeric type
        // without being a type declaration)
        if s.inst.name() == "Constant" || s.inst.name() == "SpecConstant" {
            if let Some(t) = s.inst.rtype {
                let mut p = whole.clone();
                p.push(f1[0].clone());
                p.push(f1[1].clone());
                p.push(Inst::new("Undef", Some(t), Some(20), vec![]));
                p.push(f1[2].clone());
                p.push(f1[3].clone());
                let mut i = s.inst.clone();
                i.rtype = Some(20);
                out.push((p, Shape { id: format!("{}:typed-by-a-function-local-value", s.id), inst: i }));
            }
        }
        let mut p = whole.clone();
        p.extend(f1.iter().cloned());
        out.push((p.clone(), Shape { id: format!("{}:after-function", s.id), inst: s.inst.clone() }));
        p.extend(f2.iter().cloned());
        out.push((p, Shape { id: format!("{}:in-second-function", s.id), inst: s.inst.clone() }));
    }
    // a function is begun FIRST; the numeric type is declared after that (inside it), then a value of it and the consumer:
    // declarations are tracked wherever they stand
    for (wn, decl, lit) in [
        ("u64", Inst::new("TypeInt", None, Some(70), vec![Arg::Lit32(64), Arg::Lit32(0)]), Arg::Lit64(0x8000_0000_0000_0001)),
        ("f64", Inst::new("TypeFloat", None, Some(70), vec![Arg::Lit32(64)]), Arg::Lit64(0x4000_0000_0000_0001)),
    ] {
        let und = Inst::new("Undef", Some(70), Some(74), vec![]);
        let cst = Inst::new("Constant", Some(70), Some(72), vec![lit.clone()]);
        let sw = Inst::new("Switch", None, None, vec![Arg::IdRef(74), Arg::IdRef(40), lit.clone(), Arg::IdRef(41)]);
        // .. and the type declared INSIDE the body of a first, complete function while value and consumer stand in a second one
        {
            let mut p = vec![f1[0].clone(), f1[1].clone(), decl.clone(), f1[2].clone(), f1[3].clone(), f2[0].clone(), f2[1].clone()];
            out.push((p.clone(), Shape { id: format!("Constant:{}:type-declared-inside-an-earlier-function", wn), inst: cst.clone() }));
            p.push(und.clone());
            if wn == "u64" {
                out.push((p.clone(), Shape { id: format!("Switch:{}:type-declared-inside-an-earlier-function", wn), inst: sw.clone() }));
                // two 64-bit cases: six words that could also be read as three 32-bit cases
                let sw2 = Inst::new("Switch", None, None, vec![Arg::IdRef(74), Arg::IdRef(40), lit.clone(), Arg::IdRef(41), Arg::Lit64(0x0000_0007_0000_0009), Arg::IdRef(42)]);
                out.push((p.clone(), Shape { id: format!("Switch:{}:type-declared-inside-an-earlier-function:two-cases", wn), inst: sw2.clone() }));
                let mut p2 = p.clone();
                p2.pop();
                p2.push(Inst::new("FunctionParameter", Some(70), Some(74), vec![]));
                p2.push(Inst::new("Label", None, Some(86), vec![]));
                out.push((p2, Shape { id: format!("Switch:{}:on-a-parameter-of-a-type-declared-inside-an-earlier-function:two-cases", wn), inst: sw2 }));
                // the value too inside the first function, only the switch in the second
                let q = vec![f1[0].clone(), f1[1].clone(), decl.clone(), und.clone(), f1[2].clone(), f1[3].clone(), f2[0].clone(), f2[1].clone()];
                out.push((q, Shape { id: format!("Switch:{}:type-and-value-inside-an-earlier-function", wn), inst: sw.clone() }));
            }
        }
        for (pn, pre) in [("function", vec![f1[0].clone()]), ("function+label", vec![f1[0].clone(), f1[1].clone()]), ("two-functions", vec![f1[0].clone(), f1[1].clone(), f1[2].clone(), f1[3].clone(), f2[0].clone(), f2[1].clone()])] {
            let mut p = pre.clone();
            p.push(decl.clone());
            out.push((p.clone(), Shape { id: format!("Constant:{}:type-declared-after-{}", wn, pn), inst: cst.clone() }));
            p.push(und.clone());
            if wn == "u64" {
                out.push((p.clone(), Shape { id: format!("Switch:{}:type-declared-after-{}", wn, pn), inst: sw.clone() }));
            }
        }
    }
    // chains: a value typed by a value typed by a value .. N deep (N = 1..=40), then a constant typed by the last link and a
    // switch on it: a typed value carries the width of its type however long the chain
    for n in 1..=40u32 {
        let mut p = vec![Inst::new("TypeInt", None, Some(300), vec![Arg::Lit32(64), Arg::Lit32(1)])];
        for k in 0..n {
            p.push(Inst::new("Undef", Some(300 + k), Some(301 + k), vec![]));
        }
        out.push((p.clone(), Shape { id: format!("Constant:i64:typed-through-a-chain-of-{}", n), inst: Inst::new("Constant", Some(300 + n), Some(399), vec![Arg::Lit64(0xFFFF_FFFF_FFFF_FFFB)]) }));
        out.push((p, Shape { id: format!("Switch:i64:on-the-end-of-a-chain-of-{}", n), inst: Inst::new("Switch", None, None, vec![Arg::IdRef(300 + n), Arg::IdRef(40), Arg::Lit64(0xFFFF_FFFF_FFFF_FFFE), Arg::IdRef(41)]) }));
    }
    // the same id declared twice at different widths (the later declaration counts), behind N other declarations and with
    // or without a lower-numbered id declared after it
    for n in [0u32, 5, 30, 31, 32, 40, 100] {
        for low_after in [false, true] {
            for (w1, w2, lit) in [(32u32, 64u32, Arg::Lit64(0x1_0000_0002)), (64, 32, Arg::Lit32(7))] {
                let mut p = vec![Inst::new("TypeInt", None, Some(500), vec![Arg::Lit32(w1), Arg::Lit32(0)])];
                for k in 0..n {
                    p.push(Inst::new("TypeInt", None, Some(600 + k), vec![Arg::Lit32(1000 + k), Arg::Lit32(0)]));
                }
                p.push(Inst::new("TypeInt", None, Some(500), vec![Arg::Lit32(w2), Arg::Lit32(0)]));
                if low_after {
                    p.push(Inst::new("TypeInt", None, Some(3), vec![Arg::Lit32(16), Arg::Lit32(0)]));
                }
                out.push((p, Shape { id: format!("Constant:redeclared-{}-as-{}:after-{}:low-id-after={}", w1, w2, n, low_after), inst: Inst::new("Constant", Some(500), Some(900), vec![lit.clone()]) }));
            }
        }
    }
    // a numeric type that is USED before it is declared (the lookup of its id misses: the literal is one word), then
    // declared, then used again directly afterwards and once more later: what an id resolves to is decided by the
    // declarations seen so far, not by what an earlier lookup of the same id answered
    for (wn, decl, lit) in [
        ("u64", Inst::new("TypeInt", None, Some(70), vec![Arg::Lit32(64), Arg::Lit32(0)]), Arg::Lit64(0x8000_0000_0000_0001)),
        ("f64", Inst::new("TypeFloat", None, Some(70), vec![Arg::Lit32(64)]), Arg::Lit64(0x4000_0000_0000_0001)),
    ] {
        let early = Inst::new("Constant", Some(70), Some(71), vec![Arg::Lit32(9)]);
        let use2 = Inst::new("Constant", Some(70), Some(72), vec![lit.clone()]);
        let use3 = Inst::new("Constant", Some(70), Some(73), vec![lit.clone()]);
        out.push((vec![early.clone(), decl.clone()], Shape { id: format!("Constant:{}:declared-after-a-use", wn), inst: use2.clone() }));
        out.push((vec![early.clone(), early.clone(), decl.clone()], Shape { id: format!("Constant:{}:declared-after-two-uses", wn), inst: use2.clone() }));
        out.push((vec![early.clone(), decl.clone(), use2.clone()], Shape { id: format!("Constant:{}:declared-after-a-use:second", wn), inst: use3.clone() }));
        // the selector of a switch looked up before it is defined
        let sw0 = Inst::new("Switch", None, None, vec![Arg::IdRef(74), Arg::IdRef(40)]);
        let und = Inst::new("Undef", Some(70), Some(74), vec![]);
        let sw = Inst::new("Switch", None, None, vec![Arg::IdRef(74), Arg::IdRef(40), lit.clone(), Arg::IdRef(41)]);
        if wn == "u64" {
            out.push((vec![sw0.clone(), decl.clone(), und.clone()], Shape { id: "Switch:u64:selector-defined-after-a-use".into(), inst: sw.clone() }));
            out.push((vec![decl.clone(), sw0, und], Shape { id: "Switch:u64:selector-defined-after-a-use-2".into(), inst: sw }));
        }
    }
    out
}

/// OpExtInst reached through an import of a named instruction set: every number 0..=210 (+ extremes) of every set name
/// (the two sets the grammar knows, the non-semantic and debug-info sets, an unknown one), with 0, 5 small and 6 large ids
pub fn ext_inst_variants() -> Vec<(Vec<Inst>, Shape)> {
    let mut out = vec![];
    for name in ["OpenCL.std", "GLSL.std.450", "NonSemantic.Shader.DebugInfo.100", "NonSemantic.DebugPrintf", "OpenCL.DebugInfo.100", "DebugInfo", "x"] {
        let imp = Inst::new("ExtInstImport", None, Some(5), vec![Arg::Str(name.to_string())]);
        let other = Inst::new("ExtInstImport", None, Some(6), vec![Arg::Str(if name == "OpenCL.std" { "GLSL.std.450" } else { "OpenCL.std" }.to_string())]);
        for n in (0..=210u32).chain([1000, 0x7FFF_FFFF, 0xFFFF_FFFF]) {
            for (vi, ops) in [vec![], vec![1u32, 2, 3, 4, 5], vec![77, 78, 79, 80, 81, 82]].into_iter().enumerate() {
                let mut args = vec![Arg::IdRef(5), Arg::ExtInstNo(n)];
                args.extend(ops.iter().map(|x| Arg::IdRef(*x)));
                out.push((vec![imp.clone(), other.clone()], Shape { id: format!("ExtInst:via-import:{}:{}:v{}", name, n, vi), inst: Inst::new("ExtInst", Some(50), Some(60), args) }));
            }
        }
    }
    out
}

pub struct SeedSet {
    pub seeds: Vec<(Seed, Level)>,
}

/// the seed universe: (seed, corruption level)
pub fn seeds(tier: Tier) -> Vec<(Seed, Level)> {
    let g = golden();
    let mut out = vec![];
    let cap = Inst::new("Capability", None, None, vec![Arg::Enum("Capability", 1)]);
    let name = Inst::new("Name", None, None, vec![Arg::IdRef(5), Arg::Str("abc".into())]);
    let after = Inst::new("MemoryModel", None, None, vec![Arg::Enum("AddressingModel", 0), Arg::Enum("MemoryModel", 1)]);
    for gi in &g.insts {
        let shapes = universe::shapes(gi, tier);
        let min = universe::minimal(gi);
        let full = universe::fullest(gi);
        // minimal and fullest shape: embedded 1st (followed by another instruction), 2nd and 3rd; every corruption
        for (tag, t) in [("min", &min), ("full", &full)] {
            out.push((mutate::seed(&format!("{}:{}:1st", gi.name, tag), &[], t, &[after.clone()]), Level::Full));
            out.push((mutate::seed(&format!("{}:{}:2nd", gi.name, tag), &[cap.clone()], t, &[]), Level::Full));
            out.push((mutate::seed(&format!("{}:{}:3rd", gi.name, tag), &[cap.clone(), name.clone()], t, &[after.clone()]), Level::Full));
        }
        // every other shape: embedded 1st; framing corruptions (thorough: every corruption)
        for s in shapes {
            out.push((mutate::seed(&s.id, &[], &s.inst, &[]), Level::Full));
        }
    }
    // every opcode (minimal shape) as the instruction in front of the corrupted one: the reported instruction number and
    // offset must not depend on what precedes
    for gi in &g.insts {
        out.push((mutate::seed(&format!("Capability:after:{}", gi.name), &[universe::minimal(gi)], &cap, &[]), Level::Framing));
    }
    let ctx = type_context();
    for (pre, s) in context_shapes() {
        let mut p = ctx.clone();
        p.extend(pre);
        out.push((mutate::seed(&s.id, &p, &s.inst, &[after.clone()]), Level::Full));
    }
    // the same contexts (a) with every id renamed (descending, scattered, across 2^16 / 2^22, below 2^32): what an id
    // stands for must not depend on its magnitude or on the order in which ids were first seen; (b) with a complete
    // function (and the start of a second one) between the declarations and the literal consumer: the types and
    // values declared before a function are still known after it
    for (pre, s) in context_variants() {
        out.push((mutate::seed(&s.id, &pre, &s.inst, &[after.clone()]), Level::Framing));
    }
    // id-relation sequences: values typed by values, rings of ids, types declared after their use, then a consumer
    for (n, v) in universe::id_relation_sequences(2) {
        let (pre, last) = v.split_at(v.len() - 1);
        out.push((mutate::seed(&format!("id-relations:{}", n), pre, &last[0], &[]), Level::Framing));
    }
    // U-scale: very long instructions (strings, operand lists) with the few corruptions that matter at that size
    for s in universe::scale_shapes(tier) {
        out.push((mutate::seed(&s.id, &[cap.clone()], &s.inst, &[after.clone()]), Level::Scale));
    }
    // OpExtInst behind an import of each known set (and an unknown one), inside a block: table-boundary numbers
    for setname in ["GLSL.std.450", "OpenCL.std", "NonSemantic.Unknown"] {
        let table: Vec<u32> = match setname {
            "GLSL.std.450" => g.glsl.iter().map(|e| e.opcode).collect(),
            "OpenCL.std" => g.opencl.iter().map(|e| e.opcode).collect(),
            _ => vec![1],
        };
        let max = table.iter().copied().max().unwrap_or(0);
        let min = table.iter().copied().min().unwrap_or(0);
        for n in [0u32, min, min.wrapping_sub(1), max, max + 1, 0x7FFF_FFFF, 0xFFFF_FFFF] {
            let imp = Inst::new("ExtInstImport", None, Some(5), vec![Arg::Str(setname.to_string())]);
            let f = Inst::new("Function", Some(50), Some(51), vec![Arg::Mask("FunctionControl", 0), Arg::IdRef(52)]);
            let l = Inst::new("Label", None, Some(53), vec![]);
            let ext = Inst::new("ExtInst", Some(50), Some(60), vec![Arg::IdRef(5), Arg::ExtInstNo(n), Arg::IdRef(61)]);
            let r = Inst::new("Return", None, None, vec![]);
            let fe = Inst::new("FunctionEnd", None, None, vec![]);
            out.push((mutate::seed(&format!("ExtInst:{}:{}", setname, n), &[imp, f, l], &ext, &[r, fe]), Level::Framing));
        }
    }
    // every extended-instruction number of both known sets with 0..=5 trailing operands, once with small and once with
    // large operand words (a disassembler that interprets ext-inst operands by the set's own grammar is reached)
    for (setname, table) in [("GLSL.std.450", &g.glsl), ("OpenCL.std", &g.opencl)] {
        for e in table.iter() {
            for argc in 0..=5usize {
                for (vn, vals) in [("small", [0u32, 1, 2, 3, 2, 1]), ("large", [4, 61, 0xFFFF_FFFF, 7, 0x8000_0000, 255])] {
                    let imp = Inst::new("ExtInstImport", None, Some(5), vec![Arg::Str(setname.to_string())]);
                    let f = Inst::new("Function", Some(50), Some(51), vec![Arg::Mask("FunctionControl", 0), Arg::IdRef(52)]);
                    let l = Inst::new("Label", None, Some(53), vec![]);
                    let mut args = vec![Arg::IdRef(5), Arg::ExtInstNo(e.opcode)];
                    args.extend(vals[..argc].iter().map(|v| Arg::IdRef(*v)));
                    let ext = Inst::new("ExtInst", Some(50), Some(60), args);
                    let r = Inst::new("Return", None, None, vec![]);
                    let fe = Inst::new("FunctionEnd", None, None, vec![]);
                    out.push((mutate::seed(&format!("ExtInst:{}:{}:args{}:{}", setname, e.opcode, argc, vn), &[imp, f, l], &ext, &[r, fe]), Level::Scale));
                }
            }
        }
    }
    // OpExtInst through imports of further set names (non-semantic and debug-info sets have instruction numbers with
    // special meaning for tools): numbers on both sides of 100, with two operands
    for setname in ["NonSemantic.Shader.DebugInfo.100", "NonSemantic.DebugPrintf", "OpenCL.DebugInfo.100", "DebugInfo", "NonSemantic.", "SPV_AMD_gcn_shader", "GLSL.std.450x", "OpenCL.std.100"] {
        for n in [0u32, 1, 22, 23, 24, 28, 29, 30, 100, 101, 102, 103, 104, 105, 171, 176, 1000] {
            let imp = Inst::new("ExtInstImport", None, Some(5), vec![Arg::Str(setname.to_string())]);
            let f = Inst::new("Function", Some(50), Some(51), vec![Arg::Mask("FunctionControl", 0), Arg::IdRef(52)]);
            let l = Inst::new("Label", None, Some(53), vec![]);
            let ext = Inst::new("ExtInst", Some(50), Some(60), vec![Arg::IdRef(5), Arg::ExtInstNo(n), Arg::IdRef(61), Arg::IdRef(4)]);
            let r = Inst::new("Return", None, None, vec![]);
            let fe = Inst::new("FunctionEnd", None, None, vec![]);
            out.push((mutate::seed(&format!("ExtInst:{}:{}", setname, n), &[imp, f, l], &ext, &[r, fe]), Level::Scale));
        }
    }
    // literal consumers behind int / float types of extreme widths (size arithmetic at the range boundary)
    // (incl. widths that agree with a supported width in their low 8 / 16 bits or differ from it in one high bit)
    let mut widths: Vec<u32> = vec![0u32, 1, 7, 9, 31, 33, 63, 65, 127, 129, 0x7FFF_FFFF, 0x8000_0000, 0xFFFF_FFE0, 0xFFFF_FFE1, 0xFFFF_FFFF];
    for base in [8u32, 16, 32, 64] {
        widths.extend([base + 256, base + 512, base + 65_536, base + (1 << 24), base | 0x8000_0000, base + 0xFF00, base << 8]);
    }
    for w in widths {
        for (tname, ty) in [("int", Inst::new("TypeInt", None, Some(10), vec![Arg::Lit32(w), Arg::Lit32(1)])), ("float", Inst::new("TypeFloat", None, Some(10), vec![Arg::Lit32(w)]))] {
            let c = Inst::new("Constant", Some(10), Some(20), vec![Arg::Lit32(5)]);
            out.push((mutate::seed(&format!("Constant:behind-{}{:#x}", tname, w), &[ty.clone()], &c, &[]), Level::Framing));
            let sel = Inst::new("Undef", Some(10), Some(21), vec![]);
            let sw = Inst::new("Switch", None, None, vec![Arg::IdRef(21), Arg::IdRef(40), Arg::Lit32(1), Arg::IdRef(41)]);
            out.push((mutate::seed(&format!("Switch:behind-{}{:#x}", tname, w), &[ty.clone(), sel], &sw, &[]), Level::Framing));
        }
    }
    // constants whose type is declared after them, or twice with different widths: the loader accepts these,
    // and the disassembler's whole-section tracker then pairs a one-word literal with any declared width
    for w in [0u32, 1, 8, 16, 31, 32, 33, 64, 128, 0xFFFF_FFFF] {
        for sgn in [0u32, 1] {
            for (tname, ty) in [("int", Inst::new("TypeInt", None, Some(10), vec![Arg::Lit32(w), Arg::Lit32(sgn)])), ("float", Inst::new("TypeFloat", None, Some(10), vec![Arg::Lit32(w)]))] {
                for v in [1u32, 0x8000_0000, 0xFFFF_FFFF] {
                    let c = Inst::new("Constant", Some(10), Some(20), vec![Arg::Lit32(v)]);
                    out.push((mutate::seed(&format!("Constant:type-after:{}{}:{}:{:#x}", tname, w, sgn, v), &[], &c, &[ty.clone()]), Level::Framing));
                    let first = Inst::new("TypeInt", None, Some(10), vec![Arg::Lit32(32), Arg::Lit32(sgn)]);
                    out.push((mutate::seed(&format!("Constant:type-twice:{}{}:{}:{:#x}", tname, w, sgn, v), &[first], &c, &[ty.clone()]), Level::Framing));
                }
            }
        }
    }
    out
}

fn corruption_kind(what: &str) -> String {
    let w = what.split(|c| c == '@' || c == '=' || c == '[').next().unwrap_or(what);
    w.to_string()
}

pub fn check_mutant(seed_id: &str, m: &Mutant) -> (Option<Viol>, String, bool) {
    let o = pcompare::compare(&m.bytes);
    let v = o.disagreement.map(|(class, desc)| {
        let opcode = seed_id.split(':').next().unwrap_or(seed_id);
        viol(
            format!("C03:{}:{}:{}", class, opcode, corruption_kind(&m.what)),
            format!("seed {} corruption {}: {}", seed_id, m.what, desc),
            json!({"kind": "bytes", "bytes": hex(&m.bytes), "seed": seed_id, "corruption": m.what}),
        )
    });
    (v, o.label, o.accepted)
}

pub struct Sweep {
    pub viols: Vec<Viol>,
    pub outcomes: BTreeMap<String, u64>,
    pub evaluations: u64,
    pub distinct: u64,
    pub accepted: u64,
    pub samples: Vec<serde_json::Value>,
    pub seeds: usize,
    pub k_completed: usize,
}

pub fn sweep(tier: Tier, f: &(dyn Fn(&str, &Mutant) -> (Option<Viol>, String, bool) + Sync)) -> Sweep {
    let seeds = seeds(tier);
    // chunked so that the per-binary results never pile up in memory
    let mut viols: Vec<Viol> = vec![];
    let mut outcomes: BTreeMap<String, u64> = BTreeMap::new();
    let mut evaluations = 0u64;
    let mut accepted = 0u64;
    let mut hashes: HashSet<u64> = HashSet::new();
    let mut samples = vec![];
    let mut absorb = |res: Vec<(Vec<Viol>, BTreeMap<String, u64>, u64, u64, Vec<u64>)>| {
        for (v, oc, n, acc, hs) in res {
            for x in v {
                if !viols.iter().any(|y: &Viol| y.key == x.key) {
                    viols.push(x);
                } else {
                    *outcomes.entry("further_instances_of_a_reported_key".into()).or_insert(0) += 1;
                }
            }
            for (k, c) in oc {
                *outcomes.entry(k).or_insert(0) += c;
            }
            evaluations += n;
            accepted += acc;
            hashes.extend(hs);
        }
    };
    use std::hash::{Hash, Hasher};
    let hash = |b: &[u8]| {
        let mut h = std::collections::hash_map::DefaultHasher::new();
        b.hash(&mut h);
        h.finish()
    };
    let run_set = |id: &str, ms: Vec<Mutant>| {
        let mut v = vec![];
        let mut oc: BTreeMap<String, u64> = BTreeMap::new();
        let mut acc = 0;
        let mut hs = vec![];
        let n = ms.len() as u64;
        for m in &ms {
            let (viol, label, a) = f(id, m);
            if let Some(x) = viol {
                v.push(x);
            }
            *oc.entry(label).or_insert(0) += 1;
            if a {
                acc += 1;
            }
            if m.bytes.len() > 20 {
                hs.push(hash(&m.bytes));
            }
        }
        (v, oc, n, acc, hs)
    };
    for chunk in seeds.chunks(4000) {
        let res: Vec<_> = chunk.par_iter().map(|(s, lvl)| run_set(&s.id, mutate::mutants(s, *lvl))).collect();
        absorb(res);
    }
    for (i, (s, lvl)) in seeds.iter().enumerate().step_by(seeds.len() / 4 + 1) {
        let ms = mutate::mutants(s, *lvl);
        samples.push(json!({"seed": s.id, "seed_words": s.words.len(), "corruptions": ms.len(), "example": {"what": ms[ms.len() / 2].what, "bytes": hex(&ms[ms.len() / 2].bytes)}, "index": i}));
    }
    // every 16-bit opcode number with word count 1
    let ops = mutate::all_opcode_numbers();
    let res: Vec<_> = ops.par_chunks(1024).map(|c| run_set("opcode-number", c.to_vec())).collect();
    absorb(res);
    // U-hostile: parallel over the first word, streamed (never materialised)
    let halpha = mutate::hostile_alphabet();
    let hlen = tier.pick(3, 5);
    let res: Vec<_> = halpha
        .par_iter()
        .map(|&first| {
            let mut v = vec![];
            let mut oc: BTreeMap<String, u64> = BTreeMap::new();
            let mut acc = 0u64;
            let mut n = 0u64;
            let mut hs = vec![];
            mutate::hostile_each(&[first], hlen, true, &mut |m: &Mutant| {
                let (viol, label, a) = f("hostile", m);
                if let Some(x) = viol {
                    if v.len() < 50 {
                        v.push(x);
                    }
                }
                *oc.entry(label).or_insert(0) += 1;
                if a {
                    acc += 1;
                }
                n += 1;
                if hlen <= 3 {
                    hs.push(hash(&m.bytes));
                }
            });
            (v, oc, n, acc, hs)
        })
        .collect();
    absorb(res);
    let mut k_completed = 1;
    // k = 2 (thorough): every pair of corruptions on a reduced seed set — the second corruption is applied to
    // each first-level mutant that still has a well-formed header
    if tier == Tier::Thorough {
        let reduced: Vec<&(Seed, Level)> = seeds.iter().filter(|(s, _)| s.id.ends_with(":min:1st") || s.id.ends_with(":full:1st") || s.id.ends_with(":full:3rd")).collect();
        let res: Vec<_> = reduced
            .par_iter()
            .map(|(s, _)| {
                let firsts = mutate::mutants(s, Level::Full);
                let mut all = vec![];
                for m1 in firsts.iter().skip(1) {
                    if m1.bytes.len() < 28 || m1.bytes.len() % 4 != 0 {
                        continue;
                    }
                    let words: Vec<u32> = m1.bytes.chunks(4).map(|c| u32::from_le_bytes([c[0], c[1], c[2], c[3]])).collect();
                    if s.target >= words.len() {
                        continue;
                    }
                    let s2 = Seed { id: s.id.clone(), words, target: s.target, target_wc: s.target_wc.min(m1.bytes.len() / 4 - s.target) };
                    for m2 in mutate::mutants(&s2, Level::Framing).into_iter().skip(1) {
                        all.push(Mutant { what: format!("{}&{}", m1.what, m2.what), bytes: m2.bytes });
                    }
                }
                run_set(&s.id, all)
            })
            .collect();
        absorb(res);
        k_completed = 2;
    }
    Sweep { viols, outcomes, evaluations, distinct: hashes.len() as u64, accepted, samples, seeds: seeds.len(), k_completed }
}

/// every 16-bit opcode number as the only instruction (1 word, and 2 words) of a binary, parsed twice in a row on one
/// thread after a parse that ended on that very number: each parse gives what the reference acceptor says
fn opcode_twice() -> (u64, Vec<Viol>) {
    let g = golden();
    let mut viols = vec![];
    let mut n = 0u64;
    for y in 0..=0xFFFFu32 {
        for wc in [1u32, 2] {
            let mut w = model::header(0x0001_0300, 0, 10);
            w.push((wc << 16) | y);
            if wc == 2 {
                w.push(1);
            }
            let known = g.lookup(y as u16).is_some();
            let first = crate::util::parse_collect_words(&w).0.map_err(|e| crate::util::state_name(&e));
            let second = crate::util::parse_collect_words(&w).0.map_err(|e| crate::util::state_name(&e));
            n += 2;
            if first != second || (!known && first != Err("OpcodeUnknown")) {
                if viols.len() < 3 {
                    viols.push(viol("C03:accept-mismatch:same-binary-twice", format!("a binary whose only instruction is opcode {} ({} word(s)) parsed twice in a row gives {:?} and then {:?}{}", y, wc, first, second, if known { "" } else { "; the grammar does not know this opcode" }), json!({"kind": "words", "words": w})));
                }
            }
        }
    }
    (n, viols)
}

pub fn run(tier: Tier) -> Run {
    let mut run = Run::new("C03", tier, "fault_enumeration");
    // first, on this one thread and before anything else has parsed anything: every opcode number twice in a row
    let (twice_n, twice_v) = opcode_twice();
    run.add_all(twice_v);
    run.outcome("same_binary_twice_parses", twice_n);
    let mut sw = sweep(tier, &check_mutant);
    // ---- every ordered pair of opcodes (minimal shapes, unmodified) as neighbours: what the parser does with Y must not
    //      depend on which instruction X stands immediately in front of it
    {
        let g = golden();
        let mins: Vec<(String, Vec<u32>)> = g.insts.iter().map(|gi| (gi.name.clone(), crate::model::enc(&universe::minimal(gi)))).collect();
        let hdr = crate::model::header(0x0001_0600, 0, 4096);
        let res: Vec<(u64, Vec<Viol>)> = mins
            .par_iter()
            .map(|(xn, xw)| {
                let mut v = vec![];
                let mut n = 0;
                for (yn, yw) in &mins {
                    let mut w = hdr.clone();
                    w.extend(xw);
                    w.extend(yw);
                    n += 1;
                    let m = Mutant { what: format!("pair:{}", yn), bytes: crate::model::words_to_bytes(&w) };
                    if let (Some(x), _, _) = check_mutant(&format!("{}:then", xn), &m) {
                        if v.len() < 3 {
                            v.push(x);
                        }
                    }
                }
                (n, v)
            })
            .collect();
        let mut pairs = 0;
        for (n, v) in res {
            pairs += n;
            sw.viols.extend(v);
        }
        sw.evaluations += pairs;
        sw.outcomes.insert("adjacent_opcode_pairs".into(), pairs);
    }
    run.add_all(sw.viols);
    run.merge_outcomes(&sw.outcomes);
    run.set("evaluations", json!(sw.evaluations));
    run.set("distinct_nontrivial", json!(sw.distinct));
    run.set("accepted_binaries", json!(sw.accepted));
    run.set("rule", json!("seeds = every U-inst shape of every opcode (minimal and fullest shape embedded 1st, 2nd and 3rd in a module; context-dependent literals behind 11 type declarations); corruptions with k = 1: truncation at every byte, every word count 0..true+2 and 0xFFFF, deletion / duplication / surplus of every operand word, 9 substitutions per operand word, 10 hostile opcodes, header faults; all 65536 opcode numbers; every word string of length <= L over a 39-word hostile alphabet; thorough adds k = 2 on a reduced seed set. Each binary goes through the real parser with a recording consumer and through the independent reference acceptor. distinct_nontrivial = distinct binaries (by hash) longer than the header"));
    run.set("exhaustive", json!(true));
    run.set("bounds", json!({"seeds": sw.seeds, "corruptions_k": sw.k_completed, "hostile_length": tier.pick(3, 5)}));
    run.set("bound_completed", json!({"corruptions": sw.k_completed}));
    run.set("samples", json!(sw.samples));
    run.assume("reference acceptor written from the SPIR-V binary format and the golden grammar (DESIGN.md A.3); which of several co-present faults is named, and the exact offset inside the declared extent, are don't-care");
    for o in ["accept", "reject:HeaderIncomplete", "reject:HeaderIncorrect", "reject:EndiannessUnsupported", "reject:WordCountZero:ZeroWordCount", "reject:OpcodeUnknown:UnknownOpcode"] {
        run.require_outcome(o);
    }
    for class in ["OperandExpected", "OperandExceeded", "OperandError", "TypeUnsupported", "SpecConstantOpIntegerIncorrect"] {
        if !run.outcomes.keys().any(|k| k.starts_with(&format!("reject:{}", class))) {
            run.machinery(format!("vacuity guard: no rejection of class {} observed", class));
        }
    }
    run
}
