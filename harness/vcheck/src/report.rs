//! Evidence, violation, replay and known-finding plumbing shared by every check.
use serde_json::{json, Map, Value};
use std::cell::RefCell;
use std::collections::BTreeMap;
use std::path::PathBuf;
use std::time::Instant;

pub fn verif_root() -> PathBuf {
    if let Ok(r) = std::env::var("VERIF_ROOT") {
        return PathBuf::from(r);
    }
    let p = PathBuf::from(concat!(env!("CARGO_MANIFEST_DIR"), "/../.."));
    p.canonicalize().unwrap_or(p)
}

#[derive(Clone, Copy, PartialEq, Eq, Debug)]
pub enum Tier {
    Quick,
    Thorough,
}

impl Tier {
    pub fn name(self) -> &'static str {
        match self {
            Tier::Quick => "quick",
            Tier::Thorough => "thorough",
        }
    }
    pub fn pick<T>(self, q: T, t: T) -> T {
        match self {
            Tier::Quick => q,
            Tier::Thorough => t,
        }
    }
}

#[derive(Clone, Debug)]
pub struct Viol {
    pub key: String,
    pub what: String,
    pub replay: Value,
}

pub fn viol(key: impl Into<String>, what: impl Into<String>, replay: Value) -> Viol {
    Viol { key: key.into(), what: what.into(), replay }
}

pub struct Run {
    pub prop: String,
    pub tier: Tier,
    pub level: &'static str,
    start: Instant,
    viols: BTreeMap<String, (usize, Viol)>,
    order: Vec<String>,
    pub cov: Map<String, Value>,
    pub assumptions: Vec<String>,
    pub outcomes: BTreeMap<String, u64>,
    machinery_errors: Vec<String>,
}

impl Run {
    pub fn new(prop: &str, tier: Tier, level: &'static str) -> Run {
        Run {
            prop: prop.to_string(),
            tier,
            level,
            start: Instant::now(),
            viols: BTreeMap::new(),
            order: vec![],
            cov: Map::new(),
            assumptions: vec![],
            outcomes: BTreeMap::new(),
            machinery_errors: vec![],
        }
    }
    pub fn add(&mut self, v: Viol) {
        if let Some(e) = self.viols.get_mut(&v.key) {
            e.0 += 1;
        } else {
            self.order.push(v.key.clone());
            self.viols.insert(v.key.clone(), (1, v));
        }
    }
    pub fn add_all(&mut self, vs: impl IntoIterator<Item = Viol>) {
        for v in vs {
            self.add(v)
        }
    }
    pub fn outcome(&mut self, k: &str, n: u64) {
        *self.outcomes.entry(k.to_string()).or_insert(0) += n;
    }
    pub fn merge_outcomes(&mut self, o: &BTreeMap<String, u64>) {
        for (k, n) in o {
            self.outcome(k, *n)
        }
    }
    pub fn set(&mut self, k: &str, v: Value) {
        self.cov.insert(k.to_string(), v);
    }
    pub fn assume(&mut self, s: &str) {
        self.assumptions.push(s.to_string());
    }
    /// vacuity guard / engine failure: never a verdict (exit 2)
    pub fn machinery(&mut self, s: impl Into<String>) {
        self.machinery_errors.push(s.into());
    }
    pub fn require_outcome(&mut self, k: &str) {
        if self.outcomes.get(k).copied().unwrap_or(0) == 0 {
            self.machinery(format!("vacuity guard: outcome '{}' was never observed", k));
        }
    }
    pub fn n_distinct_violations(&self) -> usize {
        self.viols.len()
    }

    /// Writes the evidence file, prints VIOLATION / KNOWN-FINDING lines, returns the exit code.
    pub fn finish(mut self) -> i32 {
        let root = verif_root();
        let known = load_known(&root);
        let mut unknown: Vec<(usize, Viol)> = vec![];
        let mut matched: Vec<Value> = vec![];
        for k in &self.order {
            let (n, v) = self.viols[k].clone();
            if let Some(kf) = known.iter().find(|f| f.property == self.prop && f.status == "known" && f.key == v.key) {
                println!("KNOWN-FINDING: property={} {} [{}] ({} instance(s) in this run)", self.prop, kf.what, kf.key, n);
                matched.push(json!({"key": kf.key, "instances": n}));
            } else {
                unknown.push((n, v));
            }
        }
        let run_dir = root.join("replays").join("run");
        let _ = std::fs::create_dir_all(&run_dir);
        let mut replay_paths = vec![];
        for (idx, (n, v)) in unknown.iter().enumerate() {
            if idx >= 20 {
                break;
            }
            let path = run_dir.join(format!("{}-{}-{:02}.json", self.prop, self.tier.name(), idx));
            let doc = json!({"property": self.prop, "key": v.key, "what": v.what, "instances": n, "replay": v.replay});
            let _ = std::fs::write(&path, serde_json::to_string_pretty(&doc).unwrap());
            println!("VIOLATION property={} replay={}", self.prop, path.display());
            println!("  key:  {}", v.key);
            println!("  what: {}", v.what);
            replay_paths.push(path.display().to_string());
        }
        if unknown.len() > 20 {
            println!("  ... and {} more distinct root causes (see evidence)", unknown.len() - 20);
        }
        let total_instances: usize = unknown.iter().map(|x| x.0).sum();
        self.cov.insert("distinct_violation_keys".into(), json!(unknown.len()));
        self.cov.insert("outcomes".into(), json!(self.outcomes));
        self.cov.insert("known_findings_matched".into(), Value::Array(matched));
        self.cov.insert("golden_sha256".into(), json!(crate::golden::golden().sha256));
        self.cov.insert(
            "violation_keys".into(),
            // capped: the evidence file stays small even when a broken tree produces thousands of distinct keys
            Value::Array(unknown.iter().take(50).map(|(n, v)| json!({"key": v.key, "instances": n, "what": v.what.chars().take(600).collect::<String>()})).collect()),
        );
        if !self.machinery_errors.is_empty() {
            self.cov.insert("machinery_errors".into(), json!(self.machinery_errors));
        }
        let seed: i64 = std::env::var("VERIF_SEED").ok().and_then(|s| s.parse().ok()).unwrap_or(0);
        let ev = json!({
            "property_id": self.prop,
            "tier": self.tier.name(),
            "seed": seed,
            "level": self.level,
            "coverage": Value::Object(self.cov.clone()),
            "assumptions": self.assumptions,
            "wall_s": self.start.elapsed().as_secs_f64(),
            "violations": unknown.len(),
            "violation_instances": total_instances,
            "replays": replay_paths,
        });
        let evdir = root.join("evidence");
        let _ = std::fs::create_dir_all(&evdir);
        let evpath = evdir.join(format!("{}.json", self.prop));
        std::fs::write(&evpath, serde_json::to_string_pretty(&ev).unwrap()).expect("write evidence");
        for m in &self.machinery_errors {
            eprintln!("MACHINERY-ERROR property={} {}", self.prop, m);
        }
        let code = if !unknown.is_empty() {
            1
        } else if !self.machinery_errors.is_empty() {
            2
        } else {
            0
        };
        println!(
            "{} {}: {} distinct violation(s), {} known finding(s) matched, {:.1}s, evidence {}",
            self.prop,
            self.tier.name(),
            unknown.len(),
            self.cov["known_findings_matched"].as_array().map_or(0, |a| a.len()),
            self.start.elapsed().as_secs_f64(),
            evpath.display()
        );
        code
    }
}

pub struct Known {
    pub property: String,
    pub key: String,
    pub status: String,
    pub what: String,
}

pub fn load_known(root: &std::path::Path) -> Vec<Known> {
    let p = root.join("known_findings.json");
    let Ok(s) = std::fs::read_to_string(&p) else { return vec![] };
    let v: Value = serde_json::from_str(&s).expect("known_findings.json is not valid JSON");
    v["findings"]
        .as_array()
        .map(|a| {
            a.iter()
                .map(|f| Known {
                    property: f["property"].as_str().unwrap_or("").to_string(),
                    key: f["key"].as_str().unwrap_or("").to_string(),
                    status: f["status"].as_str().unwrap_or("").to_string(),
                    what: f["what"].as_str().unwrap_or("").to_string(),
                })
                .collect()
        })
        .unwrap_or_default()
}

// ------------------------------------------------------------------ panic capture

thread_local! {
    static LAST_PANIC: RefCell<Option<String>> = const { RefCell::new(None) };
}

pub fn install_panic_hook() {
    std::panic::set_hook(Box::new(|info| {
        let loc = info.location().map(|l| {
            let f = l.file();
            // keep the path relative to the repository so keys are stable across checkouts
            let f = f.rsplit_once("/rspirv/").map(|x| format!("rspirv/{}", x.1)).unwrap_or_else(|| {
                f.rsplit_once("/spirv/").map(|x| format!("spirv/{}", x.1)).unwrap_or_else(|| f.to_string())
            });
            format!("{}:{}", f, l.line())
        });
        let msg = if let Some(s) = info.payload().downcast_ref::<&str>() {
            s.to_string()
        } else if let Some(s) = info.payload().downcast_ref::<String>() {
            s.clone()
        } else {
            "<non-string panic>".to_string()
        };
        let text = format!("{} @ {}", msg, loc.unwrap_or_default());
        if let Ok(mut g) = LAST_PANIC_ANYWHERE.lock() {
            *g = Some(text.clone());
        }
        LAST_PANIC.with(|p| *p.borrow_mut() = Some(text));
    }));
}

/// the most recent panic on any thread (for the top-level machinery report: a panic that escapes a check)
pub static LAST_PANIC_ANYWHERE: std::sync::Mutex<Option<String>> = std::sync::Mutex::new(None);

/// runs a whole check; a panic escaping it is a machinery failure (exit 2), never a verdict
pub fn run_top(prop: &str, f: impl FnOnce() -> Run) -> i32 {
    match std::panic::catch_unwind(std::panic::AssertUnwindSafe(f)) {
        Ok(run) => run.finish(),
        Err(_) => {
            let msg = LAST_PANIC_ANYWHERE.lock().ok().and_then(|g| g.clone()).unwrap_or_default();
            println!("MACHINERY-ERROR property={} the check itself panicked (not a verdict): {}", prop, msg);
            2
        }
    }
}

/// Runs `f`, returning Err(description) if it panicked.
pub fn guarded<T>(f: impl FnOnce() -> T) -> Result<T, String> {
    LAST_PANIC.with(|p| *p.borrow_mut() = None);
    match std::panic::catch_unwind(std::panic::AssertUnwindSafe(f)) {
        Ok(v) => Ok(v),
        Err(_) => Err(LAST_PANIC.with(|p| p.borrow_mut().take()).unwrap_or_else(|| "panic".into())),
    }
}

/// A stable class for a panic description: location without line number + first words of the message.
pub fn panic_class(desc: &str) -> String {
    let (msg, loc) = desc.rsplit_once(" @ ").unwrap_or((desc, ""));
    let file = loc.rsplit_once(':').map(|x| x.0).unwrap_or(loc);
    let m: String = msg
        .chars()
        .map(|c| if c.is_ascii_digit() { '#' } else { c })
        .collect::<String>()
        .split_whitespace()
        .take(6)
        .collect::<Vec<_>>()
        .join("_");
    let mut m2 = String::new();
    let mut last_hash = false;
    for c in m.chars() {
        if c == '#' {
            if !last_hash {
                m2.push('#')
            }
            last_hash = true
        } else {
            m2.push(c);
            last_hash = false
        }
    }
    format!("{}:{}", file, m2)
}

pub fn hex(b: &[u8]) -> String {
    b.iter().map(|x| format!("{:02x}", x)).collect()
}

pub fn unhex(s: &str) -> Vec<u8> {
    (0..s.len() / 2).map(|i| u8::from_str_radix(&s[2 * i..2 * i + 2], 16).unwrap()).collect()
}

pub fn subject_describe() -> String {
    let out = std::process::Command::new("git").args(["-C", "/repo", "describe", "--always", "--dirty"]).output();
    out.ok().map(|o| String::from_utf8_lossy(&o.stdout).trim().to_string()).unwrap_or_default()
}

/// thorough tier: cross-checks the `xs` explorer's state count with stateright's BFS over the same system
/// (the `vsr` binary); a disagreement is a machinery error, never a verdict
pub fn second_engine(run: &mut Run, prop: &str, depth: usize) {
    let vsr = verif_root().join("harness").join("target").join("release").join("vsr");
    if !vsr.exists() {
        run.set("second_engine", serde_json::json!("vsr binary not built (bin/check builds it for the thorough tier)"));
        return;
    }
    match std::process::Command::new(&vsr).arg(prop).arg(depth.to_string()).output() {
        Ok(o) if o.status.success() => match serde_json::from_slice::<Value>(&o.stdout) {
            Ok(v) => {
                if v["agree"].as_bool() != Some(true) {
                    run.machinery(format!("the two engines disagree: {}", v));
                }
                run.set("second_engine", v);
            }
            Err(e) => run.machinery(format!("vsr printed no JSON: {}", e)),
        },
        Ok(o) => run.machinery(format!("vsr failed: {}", String::from_utf8_lossy(&o.stderr).lines().last().unwrap_or(""))),
        Err(e) => run.machinery(format!("cannot run vsr: {}", e)),
    }
}
