//! The committed replays of repaired defects, re-executed as plain tests without any explorer:
//! each must no longer violate on the repaired tree (and would fail again if the defect returned).
use std::process::Command;

fn replay(prop: &str, file: &str) -> i32 {
    let root = std::path::Path::new(env!("CARGO_MANIFEST_DIR")).join("../..");
    let bin = env!("CARGO_BIN_EXE_vcheck");
    Command::new(bin).arg(prop).arg("--replay").arg(root.join("replays").join(file)).status().expect("run vcheck").code().unwrap_or(99)
}

#[test]
fn f1_decoder_string_is_repaired() {
    for i in ["00", "01", "02"] {
        assert_eq!(0, replay("C11", &format!("F1-decoder-string-{}.json", i)));
    }
}

#[test]
fn f2_spec_constant_op_is_repaired() {
    for i in ["00", "01", "02", "03", "04"] {
        assert_eq!(0, replay("C03", &format!("F2-spec-constant-op-{}.json", i)));
    }
}

#[test]
fn f3_disas_constant_is_repaired() {
    assert_eq!(0, replay("C04", "F3-disas-constant-00.json"));
}

#[test]
fn f4_builder_selection_is_repaired() {
    assert_eq!(0, replay("C12", "F4-builder-selection-00.json"));
}

#[test]
fn f11_find_return_blocks_is_repaired() {
    assert_eq!(0, replay("C12", "F11-find-return-blocks-00.json"));
}
