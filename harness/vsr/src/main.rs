//! vsr — second engine: stateright's BFS over the SAME real-object systems the `xs` explorer drives
//! (state = history; equality and hashing on the canonical key). Its unique-state count at a depth bound must
//! equal xs's closure count. usage: vsr <C05|C12|C13|C19> <depth>
use stateright::{Checker, Model, Property};
use std::hash::{Hash, Hasher};
use std::sync::Arc;
use vcheck::xs::{self, Step};

#[derive(Clone, Debug)]
struct St {
    key: String,
    hist: Vec<u8>,
    bad: bool,
}
impl PartialEq for St {
    fn eq(&self, o: &St) -> bool {
        self.key == o.key
    }
}
impl Eq for St {}
impl Hash for St {
    fn hash<H: Hasher>(&self, h: &mut H) {
        self.key.hash(h)
    }
}

#[derive(Clone)]
struct Sys {
    n: u8,
    run: Arc<dyn Fn(&[u8]) -> Step + Send + Sync>,
}

impl Model for Sys {
    type State = St;
    type Action = u8;
    fn init_states(&self) -> Vec<St> {
        let s = (self.run)(&[]);
        vec![St { key: s.key.unwrap_or_default(), hist: vec![], bad: !s.viols.is_empty() }]
    }
    fn actions(&self, _s: &St, out: &mut Vec<u8>) {
        out.extend(0..self.n)
    }
    fn next_state(&self, s: &St, a: u8) -> Option<St> {
        let mut h = s.hist.clone();
        h.push(a);
        let r = (self.run)(&h);
        if !r.viols.is_empty() {
            return Some(St { key: format!("VIOLATION:{:?}", h), hist: h, bad: true });
        }
        r.key.map(|k| St { key: k, hist: h, bad: false })
    }
    fn properties(&self) -> Vec<Property<Self>> {
        vec![Property::always("the real object agrees with the reference model", |_, s: &St| !s.bad)]
    }
}

fn main() {
    let args: Vec<String> = std::env::args().collect();
    let prop = args.get(1).map(|s| s.as_str()).unwrap_or("C19");
    let depth: usize = args.get(2).and_then(|s| s.parse().ok()).unwrap_or(4);
    vcheck::report::install_panic_hook();
    let (n, run): (usize, Arc<dyn Fn(&[u8]) -> Step + Send + Sync>) = match prop {
        "C19" => {
            let a = vcheck::checks::c19::alphabet();
            (a.len(), Arc::new(move |h: &[u8]| vcheck::checks::c19::run_hist(&h.iter().map(|&i| a[i as usize]).collect::<Vec<_>>())))
        }
        "C12" => {
            let a = vcheck::checks::c12::alphabet();
            (a.len(), Arc::new(move |h: &[u8]| { let ops: Vec<_> = h.iter().map(|&i| a[i as usize].clone()).collect(); vcheck::bsys::to_step("C12", &ops, vcheck::bsys::replay(&ops)) }))
        }
        "C13" => {
            let a = vcheck::checks::c13::core_alphabet();
            (a.len(), Arc::new(move |h: &[u8]| { let ops: Vec<_> = h.iter().map(|&i| a[i as usize].clone()).collect(); vcheck::bsys::to_step("C13", &ops, vcheck::bsys::replay(&ops)) }))
        }
        "C05" => {
            let syms = vcheck::checks::c05::SYMBOLS;
            (syms.len(), Arc::new(move |h: &[u8]| { let insts: Vec<_> = h.iter().enumerate().map(|(s, &k)| vcheck::checks::c05::rep_inst(syms[k as usize], s)).collect(); vcheck::checks::c05::run_seq(&insts, false) }))
        }
        _ => {
            eprintln!("usage: vsr <C05|C12|C13|C19> <depth>");
            std::process::exit(2)
        }
    };
    // engine 1: xs closure
    let alpha: Vec<u8> = (0..n as u8).collect();
    let r2 = run.clone();
    let f = move |h: &[u8]| r2(h);
    let x = xs::closure(&alpha, depth, usize::MAX, &f);
    // engine 2: stateright BFS, one thread (deterministic minimal-depth-first dedup), same depth bound
    let sys = Sys { n: n as u8, run };
    let checker = sys.checker().threads(1).target_max_depth(depth + 1).spawn_bfs().join();
    let violations = checker.discoveries().len();
    let out = serde_json::json!({
        "property": prop, "depth": depth,
        "xs_states": x.states, "xs_transitions": x.transitions,
        "stateright_unique_states": checker.unique_state_count(), "stateright_states_generated": checker.state_count(), "stateright_max_depth": checker.max_depth(),
        "stateright_discoveries": violations, "xs_violations": x.viols.len(),
        "agree": x.states as usize == checker.unique_state_count() && (violations > 0) == !x.viols.is_empty(),
    });
    println!("{}", out);
}
